"""Consumption accounting of the formula tokenizer's consumer methods (lossless / in-order clause of C18).

For every path of a consumer that returns a count k, exactly one token is appended and its text is the k characters of
the formula at the current offset.  The model walks the paths of the method (if/else, early returns, the candidate loop
of ``parse_error`` in either spelling), keeps a path-local environment of the temporaries, and proves "text == consumed
slice" from the text expression and the branch facts:

* text ``formula[offset]`` (or an alias) with k == 1; text ``formula[offset:offset+2]`` with k == 2;
* a constant ``c`` with k == len(c) when the branch facts pin the current character (or the slice) to ``c``;
* a candidate ``e`` with k == len(e) when the path holds ``formula[offset:].startswith(e)``;
* a regex match ``m`` of ``formula[offset:]`` with k == len(m).
"""

from __future__ import annotations

import ast
import copy

from .core import AnalysisError, U, call_name, last_attr, try_const
from .symexec import _strip, body_paths, subst

CUR = "self.formula[self.offset]"
REST = "self.formula[self.offset:]"


def _norm(e):
    return U(e).replace(" ", "")


def token_text(expr):
    """The text argument of the token an expression builds, or None."""
    if isinstance(expr, ast.IfExp):
        a, b = token_text(expr.body), token_text(expr.orelse)
        return a if a is not None and b is not None and _norm(a) == _norm(b) else None
    if isinstance(expr, ast.Call):
        fn = _norm(expr.func)
        if fn in ("Token", "Token.make_operand", "Token.make_separator", "Token.make_subexp", "cls", "Token.make_range") and expr.args:
            return expr.args[0]
    return None


def _expand_loops(stmts):
    """``for v in C: <body>`` (a first-match search over candidates) is treated as: v is *some* candidate; the body runs
    once (paths that leave the loop), or no candidate matches (fall through)."""
    out = []
    for st in stmts:
        if isinstance(st, ast.For) and isinstance(st.target, ast.Name) and any(isinstance(x, ast.Return) for x in ast.walk(st)):
            # body with an implicit else: fall through to after the loop
            n = ast.If(test=ast.Name(id=f"__some_{st.target.id}__", ctx=ast.Load()), body=_expand_loops(list(st.body)), orelse=[])
            out.append(ast.copy_location(n, st))
        elif isinstance(st, ast.Try) and len(st.handlers) == 1 and not st.finalbody:
            # the protected block completes (then the else block runs) or the handler runs instead
            n = ast.If(test=ast.Name(id="__raised__", ctx=ast.Load()), body=_expand_loops(list(st.handlers[0].body)),
                       orelse=_expand_loops(list(st.body) + list(st.orelse)))
            out.append(ast.copy_location(n, st))
        elif isinstance(st, ast.If):
            n = ast.If(test=st.test, body=_expand_loops(list(st.body)), orelse=_expand_loops(list(st.orelse)))
            out.append(ast.copy_location(n, st))
        else:
            out.append(st)
    return out


def paths(f):
    body = [s for s in f.body if not (isinstance(s, ast.Expr) and isinstance(s.value, ast.Constant))]
    body = _expand_loops(body)
    res = []
    for conds, steps, end in body_paths(body):
        env = {}
        emitted = []
        facts = []
        # interleave: conditions are substituted with the environment built from the steps that precede them (by line)
        events = [(getattr(t, "lineno", 0), 0, ("cond", t, o)) for t, o in conds] + [(getattr(s, "lineno", 0), 1, ("step", s)) for s in steps]
        for _ln, _k, ev in sorted(events, key=lambda x: (x[0], x[1])):
            if ev[0] == "cond":
                facts.append((subst(ev[1], env), ev[2]))
                continue
            st = ev[1]
            if isinstance(st, ast.Assign) and len(st.targets) == 1 and isinstance(st.targets[0], ast.Name):
                v = st.value
                # x = next((e for e in C if P(e)), None): x is a candidate satisfying P, or None
                if isinstance(v, ast.Call) and call_name(v) == "next" and len(v.args) == 2 and isinstance(v.args[0], ast.GeneratorExp) and try_const(v.args[1], default=0) is None:
                    g = v.args[0]
                    if len(g.generators) == 1 and isinstance(g.generators[0].target, ast.Name) and U(g.elt) == g.generators[0].target.id and len(g.generators[0].ifs) == 1:
                        name = st.targets[0].id
                        pred = subst(g.generators[0].ifs[0], {**env, g.generators[0].target.id: ast.Name(id=name, ctx=ast.Load())})
                        facts.append((pred, f"unless {name} is None"))
                        env.pop(name, None)
                        continue
                env[st.targets[0].id] = subst(v, env)
            elif isinstance(st, ast.Expr) and isinstance(st.value, ast.Call) and _norm(st.value.func) == "self.items.append" and st.value.args:
                emitted.append(subst(st.value.args[0], env))
            elif isinstance(st, ast.Expr) and isinstance(st.value, ast.Call) and _norm(st.value.func) == "self.token.append" and st.value.args:
                # text pushed onto the operand buffer counts as consumed text as well
                emitted.append(ast.Call(func=ast.Name(id="Token", ctx=ast.Load()), args=[subst(st.value.args[0], env)], keywords=[]))
            elif isinstance(st, ast.Delete) and any(_norm(t) == "self.token[:]" for t in st.targets):
                facts.append((ast.Name(id="__buffer_cleared__", ctx=ast.Load()), True))
            elif isinstance(st, ast.Return):
                res.append({"facts": facts, "emitted": emitted, "end": "return", "ret": subst(st.value, env) if st.value is not None else None, "node": st})
        if end != "return":
            res.append({"facts": facts, "emitted": emitted, "end": end, "ret": None, "node": steps[-1] if steps else f})
    return res


def _pinned(facts, subject):
    """The single constant the facts pin ``subject`` to, or None.  Understands ==, !=, in, not in with constants."""
    domain = None
    excluded = set()
    for t, o in facts:
        if o not in (True, False):
            continue
        neg = False
        while isinstance(t, ast.UnaryOp) and isinstance(t.op, ast.Not):
            neg, t = not neg, t.operand
        if not (isinstance(t, ast.Compare) and len(t.ops) == 1 and _norm(t.left) == subject):
            continue
        truth = o != neg
        op, rhs = t.ops[0], t.comparators[0]
        c = try_const(rhs)
        members = None
        if isinstance(c, str) and isinstance(op, (ast.In, ast.NotIn)):
            members = set(c)
        elif isinstance(c, (tuple, list)) and all(isinstance(x, str) for x in c):
            members = set(c)
        if isinstance(op, (ast.Eq, ast.NotEq)) and isinstance(c, str):
            is_eq = isinstance(op, ast.Eq) == truth
            if is_eq:
                domain = {c} if domain is None else domain & {c}
            else:
                excluded.add(c)
        elif isinstance(op, (ast.In, ast.NotIn)) and members is not None:
            is_in = isinstance(op, ast.In) == truth
            if is_in:
                domain = set(members) if domain is None else domain & members
            else:
                excluded |= members
    if domain is None:
        return None
    domain -= excluded
    return next(iter(domain)) if len(domain) == 1 else None


def _pinned_by_exclusion(facts, c):
    """The current character is one of a guarded set and every other member is excluded on this path."""
    allowed = None
    excluded = set()
    for t, o in facts:
        if not (isinstance(t, ast.Compare) and len(t.ops) == 1 and _norm(t.left) == CUR):
            continue
        m = try_const(t.comparators[0])
        if isinstance(t.ops[0], ast.NotIn) and o is False and isinstance(m, (tuple, list, str)):
            allowed = set(m)
        elif isinstance(t.ops[0], ast.In) and o is True and isinstance(m, (tuple, list, str)):
            allowed = set(m)
        elif isinstance(t.ops[0], ast.Eq) and o is False and isinstance(m, str):
            excluded.add(m)
        elif isinstance(t.ops[0], ast.NotEq) and o is True and isinstance(m, str):
            excluded.add(m)
    return allowed is not None and (allowed - excluded) == {c}


def check_consumer(f, allow_no_token=False):
    """Problems (strings) of one consumer method."""
    problems = []
    n_ret = 0
    for p in paths(f):
        if p["end"] != "return":
            continue
        n_ret += 1
        k = p["ret"]
        em = p["emitted"]
        if len(em) != 1:
            if not (allow_no_token and not em):
                problems.append(f"line {p['node'].lineno}: {len(em)} tokens appended on a path that consumes `{U(k) if k is not None else None}`")
            continue
        txt = token_text(em[0])
        if txt is None:
            # a token object taken from elsewhere (the closer popped from the stack): its text must be compared with the current character on this path
            tv = _norm(em[0])
            ok = any(o is False and _norm(t) in (f"{tv}.value!={CUR}", f"{CUR}!={tv}.value") for t, o in p["facts"]) or \
                any(o is True and _norm(t) in (f"{tv}.value=={CUR}", f"{CUR}=={tv}.value") for t, o in p["facts"])
            if not (ok and try_const(k) == 1):
                problems.append(f"line {p['node'].lineno}: the appended token `{U(em[0])[:40]}` is not known to carry the consumed character")
            continue
        t = _norm(txt)
        kc = try_const(k)
        good = False
        if kc == 1 and t == CUR:
            good = True
        elif kc == 2 and t == "self.formula[self.offset:self.offset+2]":
            good = True
        elif isinstance(try_const(txt), str):
            c = try_const(txt)
            if kc == len(c):
                if len(c) == 1 and _pinned(p["facts"], CUR) == c:
                    good = True
                elif _pinned(p["facts"], f"self.formula[self.offset:self.offset+{len(c)}]") == c:
                    good = True
        elif isinstance(k, ast.Call) and call_name(k) == "len" and len(k.args) == 1 and _norm(k.args[0]) == t:
            # a candidate that is a prefix of the rest, or a regex match on the rest
            for ft, o in p["facts"]:
                if o in (True, f"unless {t} is None") and _norm(ft) == f"{REST}.startswith({t})":
                    good = True
            if isinstance(txt, ast.Call) and isinstance(txt.func, ast.Attribute) and txt.func.attr == "group" and try_const(txt.args[0] if txt.args else ast.Constant(0)) == 0:
                m = txt.func.value
                if isinstance(m, ast.Call) and last_attr(m.func) == "match" and len(m.args) == 1 and _norm(m.args[0]) == REST:
                    good = True
        if not good and kc == 1 and isinstance(txt, ast.BinOp) and isinstance(txt.op, ast.Add) and _norm(txt.left) in ("''.join(self.token)", '"".join(self.token)'):
            # the pending function name plus the opening character: one token, buffer emptied
            c = try_const(txt.right)
            cleared = any(_norm(ft) == "__buffer_cleared__" for ft, _o in p["facts"])
            if isinstance(c, str) and len(c) == 1 and cleared and (_pinned(p["facts"], CUR) == c or _pinned_by_exclusion(p["facts"], c)):
                good = True
        if not good:
            problems.append(f"line {p['node'].lineno}: token text `{U(txt)[:50]}` with {U(k) if k is not None else None} consumed under "
                            f"{[(U(a)[:40], b) for a, b in p['facts']][:4]}: text and consumed characters are not proven equal")
    if n_ret == 0:
        raise AnalysisError(f"{f.name}: no returning path found")
    return problems

"""Is the current tree provably equivalent to the reference snapshot, as far as one property's checks can see?

Used only to *discharge* alarms (and unreadable-shape errors): when every function and module-level table of the modules
a check consulted is textually unchanged or proven equivalent (``equiv.equivalent``) to the reference the rules were
confirmed against, the verdict of the reference applies to the current tree.
"""

from __future__ import annotations

import ast
import hashlib
import json
import os

from . import equiv
from .core import SRC, U, Repo

HERE = os.path.dirname(os.path.abspath(__file__))
REF = os.path.join(HERE, "reference")

_BUILTIN_METHODS = set(dir(list)) | set(dir(dict)) | set(dir(str)) | set(dir(object)) | set(dir(Exception))


def reference_overlay() -> dict:
    out = {}
    d = os.path.join(REF, "src", "numbers_parser")
    for fn in sorted(os.listdir(d)):
        if fn.endswith(".py.txt"):
            with open(os.path.join(d, fn), encoding="utf-8") as fh:
                out[f"{SRC}/{fn[:-4]}"] = fh.read()
    return out


def reference_repo(root: str) -> Repo:
    return Repo(root, overlay=reference_overlay())


def _functions(tree):
    """qualname -> FunctionDef (methods as Class.name; property setters as Class.name@setter)."""
    out = {}

    def visit(body, prefix):
        for n in body:
            if isinstance(n, (ast.FunctionDef, ast.AsyncFunctionDef)):
                q = prefix + n.name
                for d in n.decorator_list:
                    if isinstance(d, ast.Attribute) and d.attr in ("setter", "deleter"):
                        q += "@" + d.attr
                out[q] = n
            elif isinstance(n, ast.ClassDef):
                visit(n.body, prefix + n.name + ".")

    visit(tree.body, "")
    return out


def _toplevel(tree):
    """name -> text of module-level and class-level assignments, class headers, and other non-def statements."""
    out = {}

    def visit(body, prefix):
        k = 0
        for n in body:
            if isinstance(n, (ast.FunctionDef, ast.AsyncFunctionDef, ast.Import, ast.ImportFrom)):
                continue
            if isinstance(n, ast.ClassDef):
                out[f"{prefix}class {n.name}"] = U(ast.ClassDef(name=n.name, bases=n.bases, keywords=n.keywords, body=[ast.Pass()], decorator_list=n.decorator_list, type_params=[]))
                visit(n.body, prefix + n.name + ".")
                continue
            if isinstance(n, ast.Expr) and isinstance(n.value, ast.Constant) and isinstance(n.value.value, str):
                continue
            if isinstance(n, (ast.Assign, ast.AnnAssign, ast.AugAssign)):
                tg = n.targets if isinstance(n, ast.Assign) else [n.target]
                for t in tg:
                    out[f"{prefix}{U(t)}"] = out.get(f"{prefix}{U(t)}", "") + "|" + (U(n.value) if n.value is not None else "")
                continue
            k += 1
            out[f"{prefix}stmt{k}:{type(n).__name__}"] = U(n)

    visit(tree.body, "")
    return out


def _class_bases(tree):
    return {n.name: [U(b) for b in n.bases] for n in ast.walk(tree) if isinstance(n, ast.ClassDef)}


def compare(repo: Repo, consulted=None) -> dict:
    """Compare the (normalised) current tree with the reference.  ``consulted``: repo-relative paths the check read."""
    res = {"equivalent": True, "modules": 0, "functions_identical": 0, "functions_proven": [], "blocking": [], "new_functions": []}
    B = res["blocking"].append
    with open(os.path.join(REF, "digests.json"), encoding="utf-8") as fh:
        dig = json.load(fh)
    res["reference_head"] = dig.get("repo_head")
    ref_ov = reference_overlay()
    ref = Repo(repo.root, overlay=ref_ov)
    rels = sorted(consulted) if consulted else sorted(ref_ov)
    consts = dict(repo.consts)
    for rel in rels:
        if rel in dig["files"]:
            try:
                h = hashlib.sha256(repo.source(rel).encode("utf-8")).hexdigest()
            except Exception:  # noqa: BLE001
                h = None
            if h != dig["files"][rel]:
                B(f"{rel}: content differs from the reference")
            continue
        if rel not in ref_ov:
            if rel.endswith(".py") and rel.startswith(SRC):
                B(f"{rel}: not part of the reference")
            continue
        res["modules"] += 1
        try:
            cur_t, ref_t = repo.tree(rel), ref.tree(rel)
        except Exception as e:  # noqa: BLE001
            B(f"{rel}: {e}")
            continue
        ct, rt = _toplevel(cur_t), _toplevel(ref_t)
        for name, txt in rt.items():
            if name not in ct:
                B(f"{rel}: `{name}` removed")
            elif ct[name] != txt:
                B(f"{rel}: `{name}` changed")
        # new names: harmless unless they are fields/members of a class whose attributes are enumerated, or shadow a
        # builtin or an imported name
        imported = set()
        for n in ast.walk(cur_t):
            if isinstance(n, (ast.Import, ast.ImportFrom)):
                imported |= {(a.asname or a.name).split(".")[0] for a in n.names}
        special = {}
        for n in ast.walk(cur_t):
            if isinstance(n, ast.ClassDef):
                bases_t = " ".join(U(b) for b in n.bases)
                decos = " ".join(U(d) for d in n.decorator_list)
                special[n.name] = ("Enum" in bases_t or "Flag" in bases_t or "dataclass" in decos or "NamedTuple" in bases_t or "Structure" in bases_t)
                for st in n.body:
                    if isinstance(st, ast.AnnAssign):
                        key = f"{n.name}.{U(st.target)}"
                        if not any(k.endswith(key) for k in rt):
                            B(f"{rel}: new annotated class attribute {key}")
        import builtins
        for name in ct:
            if name in rt or name.startswith("class ") or ":" in name.split(".")[-1]:
                continue
            parts = name.split(".")
            if len(parts) >= 2 and special.get(parts[-2]):
                B(f"{rel}: new member `{name}` of an enumerated/dataclass class")
            if len(parts) == 1 and (parts[0] in imported or hasattr(builtins, parts[0])):
                B(f"{rel}: new module-level name `{name}` shadows an import or a builtin")
        for name in ct:
            if name.startswith("class ") and name not in rt:
                res.setdefault("new_classes", []).append(f"{rel}:{name}")
        cf, rf = _functions(cur_t), _functions(ref_t)
        bases = _class_bases(cur_t)
        pure_extra = set()
        for q, f in rf.items():
            if q not in cf:
                B(f"{rel}: function {q} removed")
                continue
            if ast.dump(equiv._strip_doc(cf[q])) == ast.dump(equiv._strip_doc(f)):
                res["functions_identical"] += 1
                continue
            ok, why = equiv.equivalent(cf[q], f, consts, pure_extra)
            if ok:
                res["functions_proven"].append(f"{rel}:{q}")
            else:
                B(f"{rel}: function {q}: {why}")
        for q in cf:
            if q in rf:
                continue
            res["new_functions"].append(f"{rel}:{q}")
            if "." in q:
                cls, meth = q.rsplit(".", 1)
                meth = meth.split("@")[0]
                inherited = False
                for b in bases.get(cls.split(".")[-1], []):
                    if any(k.startswith(b + ".") and k.split(".")[-1] == meth for k in rf):
                        inherited = True
                if meth in _BUILTIN_METHODS or inherited or (meth.startswith("__") and meth.endswith("__")):
                    B(f"{rel}: new method {q} may override inherited behaviour")
    res["equivalent"] = not res["blocking"]
    return res

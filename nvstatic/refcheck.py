"""Is the current tree provably equivalent to the reference snapshot, as far as one property's checks can see?

Used only to *discharge* alarms (and unreadable-shape errors): when every function and module-level table of the modules
a check consulted is textually unchanged or proven equivalent (``equiv.equivalent``) to the reference the rules were
confirmed against, the verdict of the reference applies to the current tree.
"""

from __future__ import annotations

import ast
import hashlib
import json
import os

from . import equiv
from .core import SRC, U, Repo

HERE = os.path.dirname(os.path.abspath(__file__))
REF = os.path.join(HERE, "reference")

_BUILTIN_METHODS = set(dir(list)) | set(dir(dict)) | set(dir(str)) | set(dir(object)) | set(dir(Exception))


def reference_overlay() -> dict:
    out = {}
    d = os.path.join(REF, "src", "numbers_parser")
    for fn in sorted(os.listdir(d)):
        if fn.endswith(".py.txt"):
            with open(os.path.join(d, fn), encoding="utf-8") as fh:
                out[f"{SRC}/{fn[:-4]}"] = fh.read()
    return out


def reference_repo(root: str) -> Repo:
    return Repo(root, overlay=reference_overlay())


def _functions(tree):
    """qualname -> FunctionDef (methods as Class.name; property setters as Class.name@setter)."""
    out = {}

    def visit(body, prefix):
        for n in body:
            if isinstance(n, (ast.FunctionDef, ast.AsyncFunctionDef)):
                q = prefix + n.name
                for d in n.decorator_list:
                    if isinstance(d, ast.Attribute) and d.attr in ("setter", "deleter"):
                        q += "@" + d.attr
                out[q] = n
            elif isinstance(n, ast.ClassDef):
                visit(n.body, prefix + n.name + ".")

    visit(tree.body, "")
    return out


def _toplevel(tree):
    """name -> text of module-level and class-level assignments, class headers, and other non-def statements."""
    out = {}

    def visit(body, prefix):
        k = 0
        for n in body:
            if isinstance(n, (ast.FunctionDef, ast.AsyncFunctionDef, ast.Import, ast.ImportFrom)):
                continue
            if isinstance(n, ast.ClassDef):
                out[f"{prefix}class {n.name}"] = U(ast.ClassDef(name=n.name, bases=n.bases, keywords=n.keywords, body=[ast.Pass()], decorator_list=n.decorator_list, type_params=[]))
                visit(n.body, prefix + n.name + ".")
                continue
            if isinstance(n, ast.Expr) and isinstance(n.value, ast.Constant) and isinstance(n.value.value, str):
                continue
            if isinstance(n, (ast.Assign, ast.AnnAssign, ast.AugAssign)):
                tg = n.targets if isinstance(n, ast.Assign) else [n.target]
                for t in tg:
                    out[f"{prefix}{U(t)}"] = out.get(f"{prefix}{U(t)}", "") + "|" + (U(n.value) if n.value is not None else "")
                continue
            k += 1
            out[f"{prefix}stmt{k}:{type(n).__name__}"] = U(n)

    visit(tree.body, "")
    return out


def _class_bases(tree):
    return {n.name: [U(b) for b in n.bases] for n in ast.walk(tree) if isinstance(n, ast.ClassDef)}


def compare(repo: Repo, consulted=None) -> dict:
    """Compare the (normalised) current tree with the reference.  ``consulted``: repo-relative paths the check read."""
    res = {"equivalent": True, "modules": 0, "functions_identical": 0, "functions_proven": [], "blocking": [], "new_functions": []}
    B = res["blocking"].append
    with open(os.path.join(REF, "digests.json"), encoding="utf-8") as fh:
        dig = json.load(fh)
    res["reference_head"] = dig.get("repo_head")
    ref_ov = reference_overlay()
    ref = Repo(repo.root, overlay=ref_ov)
    rels = sorted(consulted) if consulted else sorted(ref_ov)
    consts = dict(repo.consts)
    for rel in rels:
        if rel in dig["files"]:
            try:
                h = hashlib.sha256(repo.source(rel).encode("utf-8")).hexdigest()
            except Exception:  # noqa: BLE001
                h = None
            if h != dig["files"][rel]:
                B(f"{rel}: content differs from the reference")
            continue
        if rel not in ref_ov:
            if rel.endswith(".py") and rel.startswith(SRC):
                B(f"{rel}: not part of the reference")
            continue
        res["modules"] += 1
        try:
            cur_t, ref_t = repo.tree(rel), ref.tree(rel)
        except Exception as e:  # noqa: BLE001
            B(f"{rel}: {e}")
            continue
        ct, rt = _toplevel(cur_t), _toplevel(ref_t)
        for name, txt in rt.items():
            if name not in ct:
                B(f"{rel}: `{name}` removed")
            elif ct[name] != txt:
                B(f"{rel}: `{name}` changed")
        # new names: harmless unless they are fields/members of a class whose attributes are enumerated, or shadow a
        # builtin or an imported name
        imported = set()
        for n in ast.walk(cur_t):
            if isinstance(n, (ast.Import, ast.ImportFrom)):
                imported |= {(a.asname or a.name).split(".")[0] for a in n.names}
        special = {}
        for n in ast.walk(cur_t):
            if isinstance(n, ast.ClassDef):
                bases_t = " ".join(U(b) for b in n.bases)
                decos = " ".join(U(d) for d in n.decorator_list)
                special[n.name] = ("Enum" in bases_t or "Flag" in bases_t or "dataclass" in decos or "NamedTuple" in bases_t or "Structure" in bases_t)
                for st in n.body:
                    if isinstance(st, ast.AnnAssign):
                        key = f"{n.name}.{U(st.target)}"
                        if not any(k.endswith(key) for k in rt):
                            B(f"{rel}: new annotated class attribute {key}")
        import builtins
        for name in ct:
            if name in rt or name.startswith("class ") or ":" in name.split(".")[-1]:
                continue
            parts = name.split(".")
            if len(parts) >= 2 and special.get(parts[-2]):
                B(f"{rel}: new member `{name}` of an enumerated/dataclass class")
            if len(parts) == 1 and (parts[0] in imported or hasattr(builtins, parts[0])):
                B(f"{rel}: new module-level name `{name}` shadows an import or a builtin")
        for name in ct:
            if name.startswith("class ") and name not in rt:
                res.setdefault("new_classes", []).append(f"{rel}:{name}")
        cf, rf = _functions(cur_t), _functions(ref_t)
        try:
            cf_raw, rf_raw = _functions(ast.parse(repo.source(rel))), _functions(ast.parse(ref_ov[rel]))
        except Exception:  # noqa: BLE001
            cf_raw, rf_raw = {}, {}
        bases = _class_bases(cur_t)
        pure_extra = set()
        for q, f in rf.items():
            if q not in cf:
                B(f"{rel}: function {q} removed")
                continue
            if ast.dump(equiv._strip_doc(cf[q])) == ast.dump(equiv._strip_doc(f)):
                res["functions_identical"] += 1
                continue
            # the sources as written, before normalisation: the same up to the names of the locals
            if q in cf_raw and q in rf_raw and equiv.signature(cf_raw[q]) == equiv.signature(rf_raw[q]) and equiv.alpha_equal(cf_raw[q], rf_raw[q]):
                res["functions_proven"].append(f"{rel}:{q}")
                continue
            ok, why = equiv.equivalent(cf[q], f, consts, pure_extra)
            if ok:
                res["functions_proven"].append(f"{rel}:{q}")
            else:
                B(f"{rel}: function {q}: {why}")
        for q in cf:
            if q in rf:
                continue
            res["new_functions"].append(f"{rel}:{q}")
            if "." in q:
                cls, meth = q.rsplit(".", 1)
                meth = meth.split("@")[0]
                inherited = False
                for b in bases.get(cls.split(".")[-1], []):
                    if any(k.startswith(b + ".") and k.split(".")[-1] == meth for k in rf):
                        inherited = True
                if meth in _BUILTIN_METHODS or inherited or (meth.startswith("__") and meth.endswith("__")):
                    B(f"{rel}: new method {q} may override inherited behaviour")
    res["equivalent"] = not res["blocking"]
    return res


def _def_span(fn):
    start = min([fn.lineno] + [d.lineno for d in fn.decorator_list])
    return start, fn.end_lineno


def hybrid_overlay(repo: Repo, consulted=None):
    """The current tree with every changed function that is *proven equivalent* to its reference version replaced by
    that reference version.  Behaviour of the hybrid equals behaviour of the current tree (by the equivalence proofs),
    so a verdict reached on the hybrid applies to the current tree; functions that are not proven equivalent stay as
    they are and are judged by the rules as usual.  Returns (overlay, proven, not_proven)."""
    ref_ov = reference_overlay()
    ref = Repo(repo.root, overlay=ref_ov)
    consts = dict(repo.consts)
    overlay = dict(repo.overlay)
    proven, not_proven = [], []
    rels = sorted(consulted) if consulted else sorted(ref_ov)
    for rel in rels:
        if rel not in ref_ov:
            continue
        try:
            cur_src = repo.source(rel)
            if cur_src == ref_ov[rel]:
                continue
            # equivalence is judged on the normalised trees (new helpers and constants inlined) ...
            cur_n, ref_n = _functions(repo.tree(rel)), _functions(ref.tree(rel))
            # ... the splice uses the positions of the raw sources
            cur_raw, ref_raw = _functions(ast.parse(cur_src)), _functions(ast.parse(ref_ov[rel]))
        except Exception:  # noqa: BLE001
            continue
        edits = []
        for q, rf in ref_n.items():
            cf = cur_n.get(q)
            if cf is None or q not in cur_raw or q not in ref_raw:
                continue
            if ast.dump(equiv._strip_doc(cf)) == ast.dump(equiv._strip_doc(rf)) and ast.dump(equiv._strip_doc(cur_raw[q])) == ast.dump(equiv._strip_doc(ref_raw[q])):
                continue
            if equiv.signature(cur_raw[q]) == equiv.signature(ref_raw[q]) and equiv.alpha_equal(cur_raw[q], ref_raw[q]):
                ok, why = True, ""
            else:
                ok, why = equiv.equivalent(cf, rf, consts)
            if ok:
                proven.append(f"{rel}:{q}")
                edits.append((_def_span(cur_raw[q]), _def_span(ref_raw[q])))
            else:
                not_proven.append(f"{rel}:{q}: {why}")
        if not edits:
            continue
        cur_lines = cur_src.splitlines(keepends=True)
        ref_lines = ref_ov[rel].splitlines(keepends=True)
        for (cs, ce), (rs, re_) in sorted(edits, reverse=True):
            cur_lines[cs - 1:ce] = ref_lines[rs - 1:re_]
        new_src = "".join(cur_lines)
        try:
            compile(new_src, rel, "exec")
        except SyntaxError:
            continue
        overlay[rel] = new_src
    return overlay, proven, not_proven

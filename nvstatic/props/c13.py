"""C13 — displayed numbers agree numerically with the stored value (partially claimed)."""

from __future__ import annotations

import ast

from .. import pb
from ..core import AnalysisError, U, body_walk, call_name, last_attr, try_const
from ..miniev import Unknown, ev
from ..selftest import M, T

EXPLANATION = (
    "format plumbing (allowed parameters per format type exist on Formatting, are fields of FormatStructArchive, and are read "
    "by the renderer the type dispatches to); renderer dispatch of Cell._custom_format per FormatType; sign/accounting "
    "decoration never strips characters positionally; the decimal renderer rounds only with a half-away-from-zero primitive; "
    "the two's-complement width expression is evaluated with own transfer functions over every power-of-two boundary up to 2^64; "
    "digit table and digit loop of the base renderer"
)
TRUSTED = ["python ast", "TSKArchives descriptor", "own expression evaluator (no repo code is executed)"]

RENDERER = {
    "DECIMAL": ("_format_decimal", "self._d128"),
    "CURRENCY": ("_format_currency", "self._d128"),
    "PERCENT": ("_format_decimal", "self._d128 * 100"),
    "BASE": ("_format_base", "self._d128"),
    "FRACTION": ("_format_fraction", "self._d128"),
    "SCIENTIFIC": ("_format_scientific", "self._d128"),
}


def attr_reads(func, var="number_format"):
    return {n.attr for n in ast.walk(func) if isinstance(n, ast.Attribute) and isinstance(n.value, ast.Name) and n.value.id == var}


def check_fraction_parts(repo, rep):
    """_format_fraction_parts_to(whole, n, d): on every path the text denotes whole + n/d.

    Paths are enumerated with their branch outcomes (conditional expressions are split as well); the returned string is
    reduced to a template over the three parameters; a template that omits a part is only correct under a guard that
    makes the part vanish (``numerator == 0`` for the fraction, ``whole > 0`` false for the whole part)."""
    import itertools

    from ..symexec import Straight, body_paths
    f = repo.func("cell.py", "_format_fraction_parts_to")
    params = [a.arg for a in f.args.args]
    if len(params) != 3:
        raise AnalysisError("_format_fraction_parts_to: parameter list changed")
    W, N, D = params
    sl = Straight(f)

    def pieces(e, conds):
        """Yield (template string, extra conditions) alternatives for a string expression."""
        if isinstance(e, ast.Constant) and isinstance(e.value, str):
            return [(e.value, [])]
        if isinstance(e, ast.Name) and e.id in params:
            return [("{" + e.id + "}", [])]
        if isinstance(e, ast.Call) and call_name(e) == "str" and len(e.args) == 1:
            return pieces(e.args[0], conds)
        if isinstance(e, ast.JoinedStr):
            alts = [("", [])]
            for v in e.values:
                sub = pieces(v.value, conds) if isinstance(v, ast.FormattedValue) else pieces(v, conds)
                alts = [(a + b, ca + cb) for a, ca in alts for b, cb in sub]
            return alts
        if isinstance(e, ast.IfExp):
            return [(t, c + [(U(e.test).replace(" ", ""), True)]) for t, c in pieces(e.body, conds)] + \
                   [(t, c + [(U(e.test).replace(" ", ""), False)]) for t, c in pieces(e.orelse, conds)]
        if isinstance(e, ast.BinOp) and isinstance(e.op, ast.Add):
            return [(a + b, ca + cb) for a, ca in pieces(e.left, conds) for b, cb in pieces(e.right, conds)]
        if isinstance(e, ast.BoolOp) and isinstance(e.op, ast.Or) and len(e.values) == 2:
            out = []
            for a, ca in pieces(e.values[0], conds):
                out += [(a, ca)] if a else [(b, ca + cb) for b, cb in pieces(e.values[1], conds)]
            return out
        if isinstance(e, ast.Call) and isinstance(e.func, ast.Attribute) and e.func.attr in ("rstrip", "strip", "lstrip") and not e.args:
            return [(getattr(t, e.func.attr)(), c) for t, c in pieces(e.func.value, conds)]
        raise AnalysisError(f"_format_fraction_parts_to: text expression `{U(e)[:60]}` not understood")

    n_paths = 0
    bad = []
    for conds, steps, end in body_paths(f.body):
        if end != "return":
            bad.append("a path ends without returning a text")
            continue
        ret = steps[-1]
        cs = [(U(sl.at(ret, t)).replace(" ", ""), o) for t, o in conds]
        for tmpl, extra in pieces(sl.at(ret, ret.value), cs):
            n_paths += 1
            allc = cs + extra
            # contradictory alternatives (the same test taken both ways) are infeasible
            if any((t, not o) in allc for t, o in allc):
                continue
            has = lambda t, o: (t, o) in allc  # noqa: E731
            whole_gone = has(f"{W}>0", False) or has(f"{W}==0", True) or has(f"{W}<=0", True)
            frac_gone = has(f"{N}==0", True) or has(f"{N}!=0", False) or has(f"not{N}", True)
            carry = has(f"{N}=={D}", True) or has(f"{D}=={N}", True)
            ok = None
            if tmpl == "{%s} {%s}/{%s}" % (W, N, D):
                ok = True
            elif tmpl == "{%s}" % W:
                ok = frac_gone
            elif tmpl == "{%s}/{%s}" % (N, D):
                ok = whole_gone
            elif tmpl == "0":
                ok = whole_gone and frac_gone
            elif tmpl == "1":
                ok = whole_gone and carry
            if ok is None:
                bad.append(f"text `{tmpl}` is not a rendering of whole + n/d")
            elif not ok:
                bad.append(f"text `{tmpl}` under {[(t, o) for t, o in allc]} drops a part that is not known to be zero")
    rep.ob("C13.R4", f, f"_format_fraction_parts_to: each of the {n_paths} path texts denotes whole + numerator/denominator", not bad,
           "; ".join(bad[:2]) + (": the displayed fraction differs from the stored value (e.g. the unit carried by rounding is lost)" if bad else ""), key="C13.R4@fraction-parts")


def _has_assign(repo, rel, name):
    try:
        repo.module_assign(rel, name)
        return True
    except AnalysisError:
        return False


def _fold_text_table(e, env=None):
    """Value of a constant expression that builds a table of characters: literals, + of sequences, str / chr / ord / list /
    tuple / range over folded values, ``"".join``, and comprehensions over a folded range or sequence (at most 4096 elements)."""
    env = env or {}
    if isinstance(e, ast.Constant):
        return e.value
    if isinstance(e, ast.Name) and e.id in env:
        return env[e.id]
    if isinstance(e, (ast.List, ast.Tuple)):
        return [_fold_text_table(x, env) for x in e.elts]
    if isinstance(e, ast.BinOp) and isinstance(e.op, ast.Add):
        a, b = _fold_text_table(e.left, env), _fold_text_table(e.right, env)
        if type(a) is type(b) and isinstance(a, (list, str, int)):
            return a + b
        raise AnalysisError("table expression: + of different kinds")
    if isinstance(e, ast.Call) and isinstance(e.func, ast.Name) and e.func.id in ("str", "chr", "ord", "list", "tuple", "range") and not e.keywords:
        args = [_fold_text_table(a, env) for a in e.args]
        if e.func.id == "range":
            if not all(isinstance(a, int) for a in args) or not 1 <= len(args) <= 3:
                raise AnalysisError("table expression: range of non-integers")
            r = range(*args)
            if len(r) > 4096:
                raise AnalysisError("table expression: range too long")
            return list(r)
        if len(args) != 1:
            raise AnalysisError("table expression: call with several arguments")
        a = args[0]
        if e.func.id == "str" and isinstance(a, (int, str)):
            return str(a)
        if e.func.id == "chr" and isinstance(a, int) and 0 <= a < 0x110000:
            return chr(a)
        if e.func.id == "ord" and isinstance(a, str) and len(a) == 1:
            return ord(a)
        if e.func.id in ("list", "tuple") and isinstance(a, (list, str)):
            return list(a)
        raise AnalysisError("table expression: call outside the folded language")
    if isinstance(e, ast.Call) and isinstance(e.func, ast.Attribute) and e.func.attr == "join" and len(e.args) == 1 and isinstance(_fold_text_table(e.func.value, env), str):
        parts = _fold_text_table(e.args[0], env)
        if isinstance(parts, list) and all(isinstance(x, str) for x in parts):
            return _fold_text_table(e.func.value, env).join(parts)
    if isinstance(e, (ast.ListComp, ast.GeneratorExp)) and len(e.generators) == 1 and not e.generators[0].ifs and isinstance(e.generators[0].target, ast.Name):
        seq = _fold_text_table(e.generators[0].iter, env)
        if isinstance(seq, (list, str)) and len(seq) <= 4096:
            return [_fold_text_table(e.elt, {**env, e.generators[0].target.id: x}) for x in seq]
    if isinstance(e, ast.Attribute) and U(e) in ("string.digits", "string.ascii_uppercase"):
        return {"string.digits": "0123456789", "string.ascii_uppercase": "ABCDEFGHIJKLMNOPQRSTUVWXYZ"}[U(e)]
    raise AnalysisError(f"table expression `{U(e)[:60]}` is outside the folded language")


def _decimal_sign_table(repo, fd):
    """Decision table of the sign handling of _format_decimal, read off its function summary: for a negative / non-negative
    value and each negative style (0..3) every outcome formats the magnitude the style asks for (``-value`` when the style
    drops the minus sign, the value itself otherwise) and is wrapped in parentheses exactly for styles >= 2 of a negative value."""
    import itertools
    import re as _re

    from ..funsum import Summarizer, decide

    p0 = fd.args.args[0].arg
    fmt = fd.args.args[1].arg
    paths = Summarizer(consts=repo.consts).summarize(fd)
    enums = {}
    for c in repo.tree("constants.py").body:
        if isinstance(c, ast.ClassDef) and any(U(b).split(".")[-1] in ("IntEnum", "IntFlag") for b in c.bases):
            for k, v in repo.enum_members("constants.py", c.name).items():
                if isinstance(v, int):
                    enums[f"{c.name}.{k}"] = v
    for lt0, style in itertools.product([False, True], [0, 1, 2, 3]):
        sc = dict(enums)
        sc.update({f"{p0} < 0": lt0, f"0 > {p0}": lt0, f"{p0} >= 0": not lt0, f"0 <= {p0}": not lt0, f"{p0} is None": False, f"{fmt}.negative_style": style})
        outs = decide(paths, sc, limit=10)
        neg = lt0 and style >= 1
        want_paren = lt0 and style >= 2
        for fx, kind, text, _p in outs:
            if kind != "return" or text is None:
                return False, f"with value<0={lt0}, negative_style={style} the function ends by {kind}"
            flat = text.replace(" ", "")
            got_paren = flat.startswith("cat('(") and (flat.endswith(")')") or flat.endswith("%)')"))
            stray_paren = flat.startswith("cat('(") != got_paren
            t2 = flat.replace(f"abs({p0})", "MAG")
            uses = [m_.start() for m_ in _re.finditer(r"(?<![\w.])" + _re.escape(p0) + r"(?![\w])", t2)]
            minus = [u for u in uses if u > 0 and t2[u - 1] == "-"]
            if neg:
                mag_ok = len(minus) == len(uses)
            else:
                mag_ok = not minus
            if not mag_ok or got_paren != want_paren or stray_paren:
                shown = {k: v for k, v in fx.items() if not k.startswith("__exc")}
                return False, (f"with value<0={lt0}, negative_style={style}" + (f" and {shown}" if shown else "")
                               + f" the digits are those of `{'-' + p0 if minus else p0}` and parentheses={got_paren}: `{text[:100]}`")
    return True, ""


def run(repo, rep, tier):
    consts_tree = repo.tree("constants.py")
    afp_node = repo.module_assign("constants.py", "ALLOWED_FORMATTING_PARAMETERS")
    # the parameter lists may be written in place or as list(<named tuple of names>) / a named constant
    cenv_ = {}
    for st_ in consts_tree.body:
        if isinstance(st_, ast.Assign) and len(st_.targets) == 1 and isinstance(st_.targets[0], ast.Name):
            v_ = try_const(st_.value, cenv_, default=Ellipsis)
            if isinstance(v_, (tuple, list)) and all(isinstance(x_, str) for x_ in v_):
                cenv_[st_.targets[0].id] = v_

    def _params_of(v):
        if isinstance(v, ast.Call) and isinstance(v.func, ast.Name) and v.func.id in ("list", "tuple") and len(v.args) == 1 and not v.keywords:
            v = v.args[0]
        r_ = try_const(v, cenv_)
        return list(r_) if isinstance(r_, (tuple, list)) else r_
    afp = {U(k).split(".")[-1]: _params_of(v) for k, v in zip(afp_node.keys, afp_node.values)}
    ftm_node = repo.module_assign("constants.py", "FORMAT_TYPE_MAP")
    ftm = {U(k).split(".")[-1]: U(v).split(".")[-1] for k, v in zip(ftm_node.keys, ftm_node.values)}
    fcls = repo.cls("cell.py", "Formatting")
    ffields = [n.target.id for n in fcls.body if isinstance(n, ast.AnnAssign) and isinstance(n.target, ast.Name)]
    fsa = pb.field_names(repo, "TSKArchives", "FormatStructArchive")
    ftype = repo.enum_members("constants.py", "FormattingType")

    # renderer closures
    def closure_reads(name):
        f = repo.func("cell.py", name)
        reads = set(attr_reads(f))
        for c in ast.walk(f):
            if isinstance(c, ast.Call) and isinstance(c.func, ast.Name) and c.func.id.startswith("_") and repo.has_func("cell.py", c.func.id) and c.func.id != name:
                if any(U(a) == "number_format" for a in c.args):
                    reads |= closure_reads(c.func.id)
        return reads

    # ---- R1 format plumbing
    NUMBER_TYPES = ["BASE", "CURRENCY", "FRACTION", "NUMBER", "PERCENTAGE", "SCIENTIFIC"]
    for t in sorted(afp):
        params = afp[t] or []
        archive_params = params if t not in ("SLIDER", "STEPPER", "POPUP") else []
        for p in params:
            ok = p in ffields
            rep.ob("C13.R1", afp_node, f"{t}: parameter `{p}` is a Formatting field", ok, "" if ok else "format_archive raises AttributeError for this format type", key=f"C13.R1@field:{t}:{p}")
        for p in archive_params:
            ok = p in fsa
            rep.ob("C13.R1", afp_node, f"{t}: parameter `{p}` is a FormatStructArchive field", ok, "" if ok else "the parameter cannot be stored in the format archive", key=f"C13.R1@archive:{t}:{p}")
    for t in NUMBER_TYPES:
        ft = ftm.get(t)
        ok = ft is not None
        rep.ob("C13.R1", ftm_node, f"{t} maps to FormatType.{ft}", ok, "", key=f"C13.R1@typemap:{t}")
        if ft in RENDERER:
            want = set(afp.get(t) or [])
            got = closure_reads(RENDERER[ft][0])
            miss = sorted(want - got)
            rep.ob("C13.R1", repo.func("cell.py", RENDERER[ft][0]), f"{t}: renderer {RENDERER[ft][0]} reads {sorted(want)}", not miss,
                   "" if not miss else f"{miss} can be set through the API but are ignored when the value is displayed", key=f"C13.R1@renderer-reads:{t}")
            unstored = sorted(p for p in got if p in ffields and p not in want)
            rep.ob("C13.R1", afp_node, f"{t}: every Formatting parameter the renderer consults is stored for this type", not unstored,
                   "" if not unstored else f"{unstored} are read by {RENDERER[ft][0]} but not stored in the format archive of {t}: the displayed value uses the protobuf default instead of what was asked for",
                   key=f"C13.R1@stored:{t}")
    fa = repo.func("model.py", "_NumbersModel.format_archive")
    # the archive is FormatStructArchive(**{x: getattr(formatting, x) for x in ALLOWED[format_type]}, format_type=FORMAT_TYPE_MAP[format_type]),
    # the dict and the type written in place, through a local, or the type stored into the dict first; its key in the table's format
    # list is what is returned
    def _bound(name_):
        d_ = [n for n in body_walk(fa) if isinstance(n, ast.Assign) and len(n.targets) == 1 and U(n.targets[0]) == name_]
        return d_[0].value if len(d_) == 1 else None
    def _res(e_):
        return _bound(e_.id) if isinstance(e_, ast.Name) and _bound(e_.id) is not None else e_
    arch_calls = [c for c in body_walk(fa) if isinstance(c, ast.Call) and U(c.func).endswith("FormatStructArchive")]
    ok = False
    if len(arch_calls) == 1:
        ac = arch_calls[0]
        splat = [_res(k.value) for k in ac.keywords if k.arg is None]
        comp_ok = len(splat) == 1 and isinstance(splat[0], ast.DictComp) and U(splat[0]).replace(" ", "") in (
            "{x:getattr(formatting,x)forxinALLOWED_FORMATTING_PARAMETERS[format_type]}",)
        if len(splat) == 1 and isinstance(splat[0], ast.DictComp) and not comp_ok:
            g_ = splat[0].generators[0]
            v_ = g_.target.id if isinstance(g_.target, ast.Name) else None
            comp_ok = v_ is not None and not g_.ifs and U(splat[0].key) == v_ and U(splat[0].value).replace(" ", "") == f"getattr(formatting,{v_})" \
                and U(g_.iter).replace(" ", "") == "ALLOWED_FORMATTING_PARAMETERS[format_type]" and len(splat[0].generators) == 1
        ft_kw = [k for k in ac.keywords if k.arg == "format_type"]
        ft_store = [n for n in body_walk(fa) if isinstance(n, ast.Assign) and isinstance(n.targets[0], ast.Subscript) and try_const(n.targets[0].slice, default=None) == "format_type"]
        type_ok = (len(ft_kw) == 1 and U(ft_kw[0].value).replace(" ", "") == "FORMAT_TYPE_MAP[format_type]" and not ft_store) or (
            not ft_kw and len(ft_store) == 1 and U(ft_store[0].value).replace(" ", "") == "FORMAT_TYPE_MAP[format_type]" and ft_store[0].lineno < ac.lineno)
        others = [k for k in ac.keywords if k.arg not in (None, "format_type")] + list(ac.args)
        rets_ = [r for r in body_walk(fa) if isinstance(r, ast.Return) and r.value is not None]
        ret_ok = len(rets_) == 1 and isinstance(rets_[0].value, ast.Call) and U(rets_[0].value.func) == "self._table_formats.lookup_key" and len(rets_[0].value.args) == 2 \
            and U(rets_[0].value.args[0]) == "table_id" and _res(rets_[0].value.args[1]) is ac
        ok = comp_ok and type_ok and not others and ret_ok
    rep.ob("C13.R1", fa, "format_archive stores exactly the allowed parameters of the type plus the mapped format type", ok, "", key="C13.R1@format_archive")
    # format_archive is memoised on the text of its arguments (numbers_cache.cache joins str(arg)): the text of a Formatting
    # must tell apart any two objects that differ in a field the archive is built from, for whatever format type is asked
    # (a control cell asks for the archive of its display format, not of its own type)
    memo = [U(d) for d in fa.decorator_list if "cache" in U(d)]
    if memo:
        own_text = [m_ for m_ in fcls.body if isinstance(m_, ast.FunctionDef) and m_.name in ("__repr__", "__str__")]
        bad_text = []
        for m_ in own_text:
            src_ = U(m_)
            complete = any(k_ in src_ for k_ in ("fields(self)", "self.__dict__", "asdict(self)", "vars(self)", "__dataclass_fields__"))
            named = {f_ for f_ in ffields if f"self.{f_}" in src_ or f"'{f_}'" in src_ or f'"{f_}"' in src_}
            if not complete and len(named) < len(ffields):
                bad_text.append((m_, sorted(set(ffields) - named)))
        rep.ob("C13.R1", bad_text[0][0] if bad_text else fa, f"format_archive memo key ({', '.join(memo)}): the text of a Formatting shows every field", not bad_text,
               "" if not bad_text else f"Formatting.{bad_text[0][0].name} leaves out {bad_text[0][1][:6]}: two formattings that differ only there share one memo entry, and the "
               "second cell gets the first one's format (wrong decimals or base on slider and stepper cells)", key="C13.R1@format_archive:memo-key")
    # Formatting defaults relevant to decimals
    post = repo.func("cell.py", "Formatting.__post_init__")
    from ..funsum import Summarizer as _Summ, simplify as _simplify
    why = ""
    n_def = 0
    IS_CUR = "self.type == FormattingType.CURRENCY"
    for pth in _Summ(consts=repo.consts).summarize(post):
        if pth.kind == "raise":
            continue
        facts = {U(c_): o_ for c_, o_ in pth.conds}
        unset = facts.get("self.decimal_places is None")
        if unset is None and "self.decimal_places is not None" in facts:
            unset = not facts["self.decimal_places is not None"]
        stored = [v_ for k_, v_, _n in pth.effects if k_ == "self.decimal_places"]
        if unset is None:
            why = why or "a path that does not ask whether decimal_places was given"
            continue
        if not unset:
            if stored:
                why = why or "decimal_places given by the caller is overwritten"
            continue
        for cur in (True, False):
            if facts.get(IS_CUR, cur) != cur:
                continue
            got = U(_simplify(stored[-1], {IS_CUR: cur, "FormattingType.CURRENCY == self.type": cur})) if stored else None
            want = ("2",) if cur else ("DECIMAL_PLACES_AUTO", str(repo.consts.get("DECIMAL_PLACES_AUTO")))
            n_def += 1
            if got not in want:
                why = why or f"with decimal_places not given and currency={cur} the default becomes `{got}` instead of {want[0]}"
    ok = not why and n_def >= 2
    rep.ob("C13.R1", post, "decimal places default: 2 for currency, automatic otherwise", ok, why, key="C13.R1@defaults")
    # dispatch of the renderer per format type
    cf = repo.func("cell.py", "Cell._custom_format")
    # the part of the function that chooses the renderer is summarised with the format object left symbolic, and
    # evaluated for every built-in format type (an if-chain, a lookup table of renderers, or a mix)
    import copy as _copy
    from ..funsum import Asg, Summarizer, _Simp, canon_text, cval, expect, tv3
    from ..symexec import _strip as _sstrip
    disp = next((i for i, st in enumerate(cf.body) if isinstance(st, ast.If) and ("custom_uid" in U(st.test) or "format_type" in U(st.test))), None)
    if disp is None:
        raise AnalysisError("Cell._custom_format: the statement that dispatches on the format type was not found")
    fmt_var = "custom_format"
    dpaths = Summarizer().block_paths(cf.body[disp:], {})
    FT = {k.split(".")[1]: v for k, v in repo.consts.items() if k.startswith("FormatType.")}
    tables = {}
    for n in repo.tree("cell.py").body:
        if isinstance(n, ast.Assign) and len(n.targets) == 1 and isinstance(n.targets[0], ast.Name) and isinstance(n.value, ast.Dict):
            ks = [cval(k, {f"FormatType.{a_}": b_ for a_, b_ in FT.items()}) for k in n.value.keys if k is not None]
            if ks and all(isinstance(k, int) for k in ks) and all(isinstance(v, (ast.Name, ast.Attribute)) for v in n.value.values):
                tables[n.targets[0].id] = dict(zip(ks, [U(v) for v in n.value.values]))

    class _Lookup(ast.NodeTransformer):
        def __init__(self, sc):
            self.sc = sc

        def visit_Subscript(self, node):
            self.generic_visit(node)
            if isinstance(node.value, ast.Name) and node.value.id in tables:
                k = cval(node.slice, self.sc)
                if k in tables[node.value.id]:
                    return ast.parse(tables[node.value.id][k], mode="eval").body
            return node

    OTHER = {"RATING": "STAR_RATING_VALUE * int(self._d128)", "CHECKBOX": "CHECKBOX_TRUE_VALUE if self.value else CHECKBOX_FALSE_VALUE", "BOOLEAN": "'TRUE' if self.value else 'FALSE'"}
    for ft, (fn, arg0) in list(RENDERER.items()) + [(k_, (None, v_)) for k_, v_ in OTHER.items() if k_ in FT]:
        sc = {f"FormatType.{a_}": b_ for a_, b_ in FT.items()}
        sc.update(tables)
        sc[f"{fmt_var}.HasField('custom_uid')"] = False
        sc[f"{fmt_var}.format_type"] = FT[ft]
        asg = Asg(sc)
        hit = []
        for p_ in dpaths:
            sel = True
            for c_, o_ in p_.conds:
                v_ = tv3(c_, asg)
                if v_ is None:
                    raise AnalysisError(f"Cell._custom_format: `{U(c_)[:70]}` is not decided by the format type")
                if v_ != o_:
                    sel = False
                    break
            if sel:
                hit.append(p_)
        got = None
        if len(hit) == 1 and hit[0].kind == "return":
            r = _Lookup(sc).visit(_Simp(asg).visit(_copy.deepcopy(_sstrip(hit[0].ret))))
            got = canon_text(r)
        if fn is None:
            # rating, checkbox, boolean: rendered in place from the cell's own value (string constants may be folded)
            def _unfold(t):
                for cname in ("STAR_RATING_VALUE", "CHECKBOX_TRUE_VALUE", "CHECKBOX_FALSE_VALUE"):
                    if isinstance(repo.consts.get(cname), str):
                        t = t.replace(repr(repo.consts[cname]), cname)
                return t
            want = _unfold(expect(arg0))
            ok = got is not None and _unfold(got) == want
            rep.ob("C13.R1", hit[0].node if hit else cf, f"FormatType.{ft} is rendered as `{arg0}`", ok, "" if ok else f"found `{got}`", key=f"C13.R1@dispatch:{ft}")
            continue
        want = expect(f"{fn}({arg0}, {fmt_var}" + (", percent=True)" if ft == "PERCENT" else ")"))
        ok = got == want
        rep.ob("C13.R1", hit[0].node if hit else cf, f"FormatType.{ft} is rendered by {fn}({arg0}, custom_format)", ok, "" if ok else f"found `{got}`", key=f"C13.R1@dispatch:{ft}")
    s = U(repo.func("cell.py", "Cell.formatted_value"))
    ok = "self._num_format_id is not None" in s and "self._currency_format_id is not None" in s and "return self._custom_format()" in s
    rep.ob("C13.R1", repo.func("cell.py", "Cell.formatted_value"), "number and currency format ids route to _custom_format", ok, "", key="C13.R1@formatted_value")
    s = U(cf)
    ok = s.index("self._currency_format_id is not None") < s.index("self._num_format_id is not None")
    rep.ob("C13.R1", cf, "currency format takes precedence over number format", ok, "", key="C13.R1@precedence")

    # ---- R2 sign decoration
    fd = repo.func("cell.py", "_format_decimal")
    fc = repo.func("cell.py", "_format_currency")
    for f in (fd, fc):
        strips = [n for n in body_walk(f) if isinstance(n, ast.Subscript) and isinstance(n.slice, ast.Slice) and "formatted" in U(n.value)]
        rep.ob("C13.R2", f, f"{f.name}: no positional strip of the formatted text", not strips,
               "" if not strips else f"{[U(x) for x in strips]} removes a character by position: with negative styles that print no minus sign it removes a digit or a parenthesis",
               key=f"C13.R2@{f.name}:strip")
    ok, detail = _decimal_sign_table(repo, fd)
    rep.ob("C13.R2", fd, "_format_decimal: style 1 drops the sign, styles >= 2 wrap the magnitude in parentheses, otherwise the minus sign stays", ok,
           "" if ok else detail + ": negative styles are decorated differently: sign or magnitude can change", key="C13.R2@negative-styles")
    from .. import numfmt as _nf
    _fc, n_fc, fc_probs = _nf.check_format_currency(repo)
    rep.ob("C13.R2", fc_probs[0][0] if fc_probs else fc, f"_format_currency: accounting style formats the magnitude in parentheses; otherwise symbol + decimal text ({n_fc} scenarios)",
           not fc_probs, "" if not fc_probs else fc_probs[0][1] + (f" (and {len(fc_probs) - 1} more scenarios)" if len(fc_probs) > 1 else ""), key="C13.R2@accounting")
    ok = "ifpercent:formatted_value+='%'" in U(fd).replace(" ", "").replace("\n", "")
    rep.ob("C13.R2", fd, "percent sign appended after the digits", ok, "", key="C13.R2@percent")
    s = U(fd).replace(" ", "")
    ok = "thousands=','ifnumber_format.show_thousands_separatorelse''" in s and "integer+'.'+decimal.replace(',','')" in s
    rep.ob("C13.R2", fd, "grouping separators only in the integer part", ok, "", key="C13.R2@grouping")

    # ---- R3 rounding primitive of the decimal renderer
    bad = []
    n_round = 0
    for n in body_walk(fd):
        if isinstance(n, ast.Call):
            nm = last_attr(n.func)
            if nm == "sigfig":
                n_round += 1
            elif nm == "quantize":
                n_round += 1
                mode = next((U(kw.value) for kw in n.keywords if kw.arg == "rounding"), None) or (U(n.args[1]) if len(n.args) > 1 else None)
                if mode is None or not mode.endswith("ROUND_HALF_UP"):
                    bad.append(f"{U(n)[:60]} rounds half to even" if mode is None else f"{U(n)[:60]} uses {mode}")
            elif nm == "round" and isinstance(n.func, ast.Name):
                bad.append(f"{U(n)[:60]}: builtin round() is half-to-even on binary floats")
        if isinstance(n, ast.FormattedValue) and n.format_spec is not None:
            spec = "".join(x.value for x in n.format_spec.values if isinstance(x, ast.Constant))
            if "f" in spec or "e" in spec.lower() or "." in spec:
                bad.append(f"format spec {spec!r} rounds the binary float")
    rep.ob("C13.R3", fd, f"_format_decimal rounds with a half-away-from-zero primitive only ({n_round} rounding calls)", not bad and n_round >= 1,
           "" if not bad else "; ".join(bad) + ": exact ties (0.125 at two places, 2.5 at zero) are displayed rounded the other way", key="C13.R3@rounding")
    dp = [n for n in body_walk(fd) if isinstance(n, ast.Call) and last_attr(n.func) == "sigfig" and any(kw.arg == "decimals" for kw in n.keywords)]
    # the rounding to the requested decimals works on the 15-significant-digit decimal text of the value, not on the
    # binary float (a computed value such as 0.145 * 100 = 14.499999999999998 must first become 14.5)
    p0_ = fd.args.args[0].arg
    for c_ in dp:
        a0 = c_.args[0] if c_.args else None
        src_ok = False
        if isinstance(a0, ast.Call) and last_attr(a0.func) == "sigfig":
            inner = a0
        elif isinstance(a0, ast.Name):
            st_ = c_
            while not isinstance(st_, ast.stmt):
                st_ = st_._parent
            blk = None
            for fld in ("body", "orelse"):
                b_ = getattr(st_._parent, fld, None)
                if isinstance(b_, list) and st_ in b_:
                    blk = b_
            prev = [x for x in (blk[: blk.index(st_)] if blk else []) if isinstance(x, ast.Assign) and U(x.targets[0]) == a0.id]
            inner = prev[-1].value if prev and isinstance(prev[-1].value, ast.Call) and last_attr(prev[-1].value.func) == "sigfig" else None
        else:
            inner = None
        if inner is not None:
            sig = try_const(inner.args[1], repo.consts) if len(inner.args) >= 2 else next((try_const(k.value, repo.consts) for k in inner.keywords if k.arg == "sigfigs"), None)
            as_str = any(k.arg == "type" and U(k.value) == "str" for k in inner.keywords)
            src_ok = sig == repo.consts.get("MAX_SIGNIFICANT_DIGITS") and as_str and U(inner.args[0]) == p0_
        rep.ob("C13.R3", c_, "decimals are rounded from the 15-significant-digit decimal text of the value", src_ok,
               "" if src_ok else f"`{U(c_)[:70]}` rounds `{U(a0) if a0 is not None else '?'}` directly: binary noise of a computed value (percentages are value * 100) turns an exact tie into a "
               "value just below it and the display rounds down (0.145 -> 14%)", key="C13.R3@decimals-source")
    ok = bool(dp) and U(next(kw.value for kw in dp[0].keywords if kw.arg == "decimals")) == "number_format.decimal_places"
    rep.ob("C13.R3", dp[0] if dp else fd, "the number of decimals shown is number_format.decimal_places", ok, "", key="C13.R3@decimals")
    ok = "number_format.decimal_places >= DECIMAL_PLACES_AUTO" in U(fd) and repo.consts.get("DECIMAL_PLACES_AUTO") == 253
    rep.ob("C13.R3", fd, "automatic decimals are selected by decimal_places >= 253", ok, "", key="C13.R3@auto")
    fsci = repo.func("cell.py", "_format_scientific")
    ok = "f'{formatted_value:.{number_format.decimal_places}E}'" in U(fsci)
    rep.ob("C13.R3", fsci, "scientific renderer shows decimal_places decimals", ok, "", key="C13.R3@scientific")

    # ---- R4 two's complement width and base digits (decision tables over the summarised renderers, numfmt.py)
    from .. import numfmt
    tc, n_tc, tc_probs, width_of = numfmt.twos_complement_table(repo)
    bad = []
    domain = []
    for k in range(0, 65):
        for d in (-1, 0, 1):
            v = 2**k + d
            if v >= 1:
                domain.append(v)
    w_node = tc
    try:
        for mag in sorted(set(domain)):
            w = width_of(mag)
            w_node = w if hasattr(w, "lineno") else w_node
            got = ev(w, {tc.args.args[0].arg: -mag, tc.args.args[1].arg: 2})
            need = max(32, (mag - 1).bit_length() + 1)
            if got != need:
                bad.append((-mag, got, need, U(w)))
    except Unknown as e:
        raise AnalysisError(f"_twos_complement: width expression outside the evaluator's language: {e}") from e
    rep.ob("C13.R4", tc, f"two's complement width over every power-of-two boundary up to 2^64 ({len(set(domain))} magnitudes)", not bad,
           "" if not bad else f"{len(bad)} wrong widths, e.g. value={bad[0][0]}: `{bad[0][3][:60]}` = {bad[0][1]} bits (needs {bad[0][2]}): the sign bit is lost", key="C13.R4@twos-width")
    rep.ob("C13.R4", tc_probs[0][0] if tc_probs else tc, f"two's complement = invert the magnitude's bits over the width, plus one, printed in the base ({n_tc} scenarios)", not tc_probs,
           "" if not tc_probs else tc_probs[0][1], key="C13.R4@twos-steps")
    fb, n_fb, fb_probs = numfmt.check_format_base(repo)
    for cat, title, key in (("digits", "base renderer: repeated division by the base, digits most significant first", "C13.R4@base-digits"),
                            ("pad", "base renderer: zero and the minus sign outside the zero padding to base_places digits", "C13.R4@base-pad"),
                            ("twos", "two's complement exactly for negative values in bases 2, 8, 16 without minus sign", "C13.R4@base-twos")):
        ps = [x for x in fb_probs if x[0] == cat]
        rep.ob("C13.R4", ps[0][1] if ps else fb, f"{title} ({n_fb} scenarios)", not ps, "" if not ps else ps[0][2] + (f" (and {len(ps) - 1} more scenarios)" if len(ps) > 1 else ""), key=key)
    # the table the base renderer takes its digits from: whatever `_format_base` subscripts that folds to a run of characters
    # (a name bound at module level in cell.py or constants.py, or a literal put in place by the normaliser)
    fbf = repo.func("cell.py", "_format_base")
    tables = []
    for sub_ in [n for n in ast.walk(fbf) if isinstance(n, ast.Subscript) and not isinstance(n.slice, ast.Slice)]:
        src_ = sub_.value
        if isinstance(src_, ast.Name):
            src_ = next((repo.module_assign(m_, src_.id) for m_ in ("cell.py", "constants.py") if _has_assign(repo, m_, src_.id)), None)
        if src_ is None:
            continue
        # names imported from the standard ``string`` module stand for their texts
        import string as _string
        senv_ = {}
        for imp_ in [n for n in repo.tree("cell.py").body + repo.tree("constants.py").body if isinstance(n, ast.ImportFrom) and n.module == "string"]:
            for al_ in imp_.names:
                if isinstance(getattr(_string, al_.name, None), str):
                    senv_[al_.asname or al_.name] = getattr(_string, al_.name)
        try:
            val_ = _fold_text_table(src_, senv_)
        except AnalysisError:
            continue
        if isinstance(val_, (list, str)) and len(val_) >= 10 and all(isinstance(c_, str) and len(c_) == 1 for c_ in val_):
            tables.append((src_, list(val_)))
    if not tables:
        raise AnalysisError("_format_base: the table of digit characters was not found")
    tbl = tables[0][0]
    bad_t = [t_ for _n, t_ in tables if t_ != list("0123456789ABCDEFGHIJKLMNOPQRSTUVWXYZ")]
    ok = not bad_t
    rep.ob("C13.R4", tbl, "digit table is 0-9 then A-Z (36 digits)", ok,
           "" if ok else f"the digits are `{''.join(bad_t[0])}`: " + "; ".join(f"digit value {i_} prints as {c_!r}" for i_, c_ in enumerate(bad_t[0]) if i_ >= 36 or c_ != "0123456789ABCDEFGHIJKLMNOPQRSTUVWXYZ"[i_])[:160],
           key="C13.R4@digit-table")
    ff, n_ff, ff_probs = numfmt.check_format_fraction(repo)
    hi = [x for x in ff_probs if "digit count" in x[1]]
    lo = [x for x in ff_probs if "digit count" not in x[1]]
    rep.ob("C13.R4", hi[0][0] if hi else ff, f"fraction renderer: high accuracies encode digit counts ({n_ff} accuracies)", not hi, "" if not hi else hi[0][1], key="C13.R4@fraction-dispatch")
    rep.ob("C13.R4", lo[0][0] if lo else ff, "fixed-denominator fraction: numerator = round(denominator * fractional part)", not lo, "" if not lo else lo[0][1], key="C13.R4@fraction-fixed")
    rep.sub(check_fraction_parts, repo, rep)
    rep.floor("C13.R1", 40)
    rep.floor("C13.R2", 6)
    rep.floor("C13.R3", 4)
    rep.floor("C13.R4", 8)


VARIANTS = [
    T("currency-symbol-by-try-except", "cell.py", '    if number_format.currency_code in CURRENCY_SYMBOLS:\n        symbol = CURRENCY_SYMBOLS[number_format.currency_code]\n    else:\n        symbol = number_format.currency_code + " "\n', "    try:\n        symbol = CURRENCY_SYMBOLS[number_format.currency_code]\n    except KeyError:\n        symbol = number_format.currency_code + \" \"\n"),
    M("currency-symbol-by-try-except-no-space", "cell.py", '    if number_format.currency_code in CURRENCY_SYMBOLS:\n        symbol = CURRENCY_SYMBOLS[number_format.currency_code]\n    else:\n        symbol = number_format.currency_code + " "\n', "    try:\n        symbol = CURRENCY_SYMBOLS[number_format.currency_code]\n    except KeyError:\n        symbol = number_format.currency_code\n", "C13.R2"),
    M("digit-table-two-letters-swapped", "cell.py", 'INT_TO_BASE_CHAR = [str(x) for x in range(10)] + [chr(x) for x in range(ord("A"), ord("Z") + 1)]', 'INT_TO_BASE_CHAR = list("0123456789ABCDEFGHIJKLMNOPQRSTVUWXYZ")', "C13.R4"),
    M("formatting-repr-leaves-fields-out", "cell.py", "@dataclass\nclass CustomFormatting:", "    def __repr__(self) -> str:\n        return f\"Formatting(type={self.type.name}, decimal_places={self.decimal_places})\"\n\n\n@dataclass\nclass CustomFormatting:", "C13.R1"),
    T("defaults-conditional-expression", "cell.py", '            if self.type == FormattingType.CURRENCY:\n                self.decimal_places = 2\n            else:\n                self.decimal_places = DECIMAL_PLACES_AUTO\n', "            self.decimal_places = 2 if self.type == FormattingType.CURRENCY else DECIMAL_PLACES_AUTO\n"),
    M("defaults-conditional-expression-swapped", "cell.py", '            if self.type == FormattingType.CURRENCY:\n                self.decimal_places = 2\n            else:\n                self.decimal_places = DECIMAL_PLACES_AUTO\n', "            self.decimal_places = DECIMAL_PLACES_AUTO if self.type == FormattingType.CURRENCY else 2\n", "C13.R1"),
    T("digit-table-as-text", "cell.py", 'INT_TO_BASE_CHAR = [str(x) for x in range(10)] + [chr(x) for x in range(ord("A"), ord("Z") + 1)]', 'INT_TO_BASE_CHAR = list("0123456789ABCDEFGHIJKLMNOPQRSTUVWXYZ")'),
    M("digit-table-lower-case", "cell.py", 'INT_TO_BASE_CHAR = [str(x) for x in range(10)] + [chr(x) for x in range(ord("A"), ord("Z") + 1)]', 'INT_TO_BASE_CHAR = list("0123456789abcdefghijklmnopqrstuvwxyz")', "C13.R4"),
    T("twos-complement-format-specs", "cell.py", '        return bin(twos_complement_dec)[2:].rjust(num_bits, "1")\n    if base == 8:\n        return oct(twos_complement_dec)[2:]\n    return hex(twos_complement_dec)[2:].upper()\n', '        return f"{twos_complement_dec:b}".rjust(num_bits, "1")\n    if base == 8:\n        return f"{twos_complement_dec:o}"\n    return f"{twos_complement_dec:X}"\n'),
    M("twos-complement-format-spec-lower-hex", "cell.py", '        return bin(twos_complement_dec)[2:].rjust(num_bits, "1")\n    if base == 8:\n        return oct(twos_complement_dec)[2:]\n    return hex(twos_complement_dec)[2:].upper()\n', '        return f"{twos_complement_dec:b}".rjust(num_bits, "1")\n    if base == 8:\n        return f"{twos_complement_dec:o}"\n    return f"{twos_complement_dec:x}"\n', "C13.R4"),
    T("decimal-sign-nested-enum", "cell.py", '    if value < 0 and number_format.negative_style == 1:\n        accounting_style = False\n        value = -value\n    elif value < 0 and number_format.negative_style >= 2:\n        accounting_style = True\n        value = -value\n    else:\n        accounting_style = False\n', '    accounting_style = False\n    if value < 0:\n        negative_style = number_format.negative_style\n        if negative_style == NegativeNumberStyle.RED:\n            value = -value\n        elif negative_style >= NegativeNumberStyle.PARENTHESES:\n            accounting_style = True\n            value = -value\n'),
    M("decimal-sign-nested-enum-parentheses-from-3", "cell.py", '    if value < 0 and number_format.negative_style == 1:\n        accounting_style = False\n        value = -value\n    elif value < 0 and number_format.negative_style >= 2:\n        accounting_style = True\n        value = -value\n    else:\n        accounting_style = False\n', '    accounting_style = False\n    if value < 0:\n        negative_style = number_format.negative_style\n        if negative_style == NegativeNumberStyle.RED:\n            value = -value\n        elif negative_style >= NegativeNumberStyle.RED_AND_PARENTHESES:\n            accounting_style = True\n            value = -value\n', "C13.R2"),
    M("rating-clamped-to-five", "cell.py", "            return STAR_RATING_VALUE * int(self._d128)", "            return STAR_RATING_VALUE * max(0, min(int(self._d128), 5))", "C13.R1"),
    M("decimals-from-raw-float", "cell.py", """            formatted_value = sigfig(value, MAX_SIGNIFICANT_DIGITS, type=str, warn=False)
            formatted_value = sigfig(
                formatted_value,""", """            formatted_value = sigfig(
                value,""", "C13.R3"),
    M("fraction-carry-lost", "cell.py", """    if whole > 0:
        if numerator == 0:
            return str(whole)
        return f"{whole} {numerator}/{denominator}"
    if numerator == 0:
        return "0"
""", """    fraction = "" if numerator % denominator == 0 else f"{numerator}/{denominator}"
    if whole > 0:
        return f"{whole} {fraction}".rstrip()
    if numerator == 0:
        return "0"
""", "C13.R4"),
    T("fraction-parts-reordered", "cell.py", """    if whole > 0:
        if numerator == 0:
            return str(whole)
        return f"{whole} {numerator}/{denominator}"
    if numerator == 0:
        return "0"
""", """    if numerator == 0:
        return str(whole) if whole > 0 else "0"
    if whole > 0:
        return f"{whole} {numerator}/{denominator}"
"""),
    M("revert-fix-strip", "cell.py", "        return f\"{symbol}\\t({_format_decimal(abs(value), number_format)})\"\n    formatted_value = _format_decimal(value, number_format)\n",
      "        formatted_value = _format_decimal(value, number_format)\n        return f\"{symbol}\\t({formatted_value[1:]})\"\n    formatted_value = _format_decimal(value, number_format)\n", "C13.R2"),
    M("number-loses-decimal-places", "constants.py", "    FormattingType.NUMBER: [\n        \"decimal_places\",\n", "    FormattingType.NUMBER: [\n", "C13.R1"),
    M("quantize-half-even", "cell.py", "            formatted_value = sigfig(\n                formatted_value,\n                decimals=number_format.decimal_places,\n                type=str,\n            )",
      "            formatted_value = str(Decimal(formatted_value).quantize(Decimal(1).scaleb(-number_format.decimal_places)))", "C13.R3"),
    M("twos-unsigned-threshold", "cell.py", "num_bits = max([32, (abs(value) - 1).bit_length() + 1])", "num_bits = 32 if abs(value) < 2**32 else (abs(value) - 1).bit_length() + 1", "C13.R4"),
    M("revert-fix-twos-float-log", "cell.py", "num_bits = max([32, (abs(value) - 1).bit_length() + 1])", "num_bits = max([32, math.ceil(math.log2(abs(value))) + 1])", "C13.R4"),
    M("percent-not-scaled", "cell.py", "return _format_decimal(self._d128 * 100, custom_format, percent=True)", "return _format_decimal(self._d128, custom_format, percent=True)", "C13.R1"),
    M("base-digits-not-reversed", "cell.py", 'formatted_value = "".join([INT_TO_BASE_CHAR[x] for x in formatted_value[::-1]])', 'formatted_value = "".join([INT_TO_BASE_CHAR[x] for x in formatted_value])', "C13.R4"),
    M("paren-style-threshold", "cell.py", "elif value < 0 and number_format.negative_style >= 2:", "elif value < 0 and number_format.negative_style > 2:", "C13.R2"),
    M("base-ignores-places", "cell.py", "    return formatted_value.zfill(number_format.base_places)\n\n\ndef _format_fraction_parts_to", "    return formatted_value\n\n\ndef _format_fraction_parts_to", "C13.R"),
    M("currency-dispatch-decimal", "cell.py", "            return _format_currency(self._d128, custom_format)", "            return _format_decimal(self._d128, custom_format)", "C13.R1"),
    M("base-sign-before-rounding", "cell.py", """    value = round(value)

    is_negative = False
    if not number_format.base_use_minus_sign and number_format.base in [2, 8, 16]:
        if value < 0:
            return _twos_complement(value, number_format.base)
        value = abs(value)
    elif value < 0:
        is_negative = True
        value = abs(value)
""", """    is_negative = False
    if not number_format.base_use_minus_sign and number_format.base in [2, 8, 16]:
        if value < 0:
            return _twos_complement(round(value), number_format.base)
        value = abs(value)
    elif value < 0:
        is_negative = True
        value = abs(value)
    value = round(value)
""", "C13.R4"),
    T("base-sign-flag-form", "cell.py", """    is_negative = False
    if not number_format.base_use_minus_sign and number_format.base in [2, 8, 16]:
        if value < 0:
            return _twos_complement(value, number_format.base)
        value = abs(value)
    elif value < 0:
        is_negative = True
        value = abs(value)
""", """    base = number_format.base
    is_negative = value < 0
    if is_negative and not number_format.base_use_minus_sign and base in (2, 8, 16):
        return _twos_complement(value, base)
    value = abs(value)
"""),
    M("base-twos-for-every-base", "cell.py", "    if not number_format.base_use_minus_sign and number_format.base in [2, 8, 16]:", "    if not number_format.base_use_minus_sign:", "C13.R4"),
    M("fraction-numerator-truncated", "cell.py", "    numerator = round(denominator * (value - whole))", "    numerator = int(denominator * (value - whole))", "C13.R4"),
    M("fraction-digit-count-off", "cell.py", "        num_digits = 0x100000000 - accuracy", "        num_digits = 0xFFFFFFFF - accuracy", "C13.R4"),
    M("currency-accounting-keeps-sign", "cell.py", 'return f"{symbol}\\t({_format_decimal(abs(value), number_format)})"', 'return f"{symbol}\\t({_format_decimal(value, number_format)})"', "C13.R2"),
    T("currency-early-returns", "cell.py", """    formatted_value = _format_decimal(value, number_format)
    if number_format.use_accounting_style:
        return f"{symbol}\\t{formatted_value}"
    return symbol + formatted_value
""", """    if not number_format.use_accounting_style:
        return symbol + _format_decimal(value, number_format)
    return symbol + "\\t" + _format_decimal(value, number_format)
"""),
    T("twos-bit-length", "cell.py", "num_bits = max([32, (abs(value) - 1).bit_length() + 1])", "num_bits = max(32, (abs(value) - 1).bit_length() + 1)"),
]

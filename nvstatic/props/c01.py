"""C01 — values written to cells are read back exactly after save and reopen."""

from __future__ import annotations

import ast

from .. import pb
from ..cellcodec import V5_WIDTH, extract_decoder, extract_encoder
from ..core import AnalysisError, U, body_walk, call_name, last_attr, try_const
from ..selftest import M, T

EXPLANATION = (
    "three places where exactness is kept or lost by construction: (R1) the isinstance dispatch of Cell._from_value tests "
    "subclasses before superclasses and builds the matching cell class; (R2) per cell kind the encoder and the decoder use the "
    "same flag bit, struct format, type number and mutually inverse value expressions; (R3) the decimal128 codec contains no "
    "float-rounding operation before its single final conversion; (R4) nothing on the string-key path is memoised across the "
    "per-save reset of the string list"
)
TRUSTED = ["python ast", "struct.calcsize", "builtin type lattice (bool<int, datetime<date)", "TSTArchives descriptor", "exactness table of arithmetic operators"]

SUBCLASS_OF = {"bool": "int", "datetime": "date"}
EXPECT_CLASS = {"str": "TextCell", "bool": "BoolCell", "int": "NumberCell", "float": "NumberCell", "datetime": "DateCell", "timedelta": "DurationCell"}

# operations that round in binary floating point (forbidden inside the decimal codec)
ROUNDING_CALLS = {"pow", "log", "log10", "log2", "exp", "sqrt", "fsum", "ldexp", "frexp"}


def run(repo, rep, tier):
    # ---- R1 dispatch order
    fv = repo.func("cell.py", "Cell._from_value")
    chain = [n for n in fv.body if isinstance(n, ast.If)]
    if not chain:
        raise AnalysisError("Cell._from_value: isinstance chain not found")
    node = chain[0]
    order = []
    while True:
        t = node.test
        typ = None
        if isinstance(t, ast.Call) and call_name(t) == "isinstance" and len(t.args) == 2 and U(t.args[0]) == "value":
            typ = U(t.args[1])
        cls = None
        for b in ast.walk(ast.Module(body=node.body, type_ignores=[])):
            if isinstance(b, ast.Assign) and U(b.targets[0]) == "cell" and isinstance(b.value, ast.Call):
                cls = call_name(b.value)
                cargs = [U(a) for a in b.value.args]
        order.append((typ, cls, node, cargs if cls else []))
        if len(node.orelse) == 1 and isinstance(node.orelse[0], ast.If):
            node = node.orelse[0]
        else:
            tail = node.orelse
            break
    seen = []
    for typ, cls, nd, cargs in order:
        types = [typ] if typ and not typ.startswith("(") else [x.strip() for x in (typ or "").strip("()").split(",")]
        for ty in types:
            sup_seen = [s for s in seen if SUBCLASS_OF.get(ty) == s]
            ok = not sup_seen
            rep.ob("C01.R1", nd, f"_from_value: isinstance(value, {ty}) tested before its superclass", ok,
                   "" if ok else f"{ty} is a subclass of {sup_seen[0]} which is tested earlier: every {ty} is stored as the cell kind of {sup_seen[0]}",
                   key=f"C01.R1@from_value:order:{ty}")
            if ty in EXPECT_CLASS:
                okc = cls == EXPECT_CLASS[ty] and cargs[:2] == ["row", "col"]
                rep.ob("C01.R1", nd, f"_from_value: {ty} -> {cls}({', '.join(cargs)})", okc,
                       "" if okc else f"expected {EXPECT_CLASS[ty]}(row, col, ...)", key=f"C01.R1@from_value:class:{ty}")
                if ty != "float":
                    okv = len(cargs) == 3 and cargs[2] == "value"
                    rep.ob("C01.R1", nd, f"_from_value: {ty} cell holds the written value itself", okv, "", key=f"C01.R1@from_value:value:{ty}")
            seen.append(ty)
    missing = [t for t in EXPECT_CLASS if t not in seen]
    rep.ob("C01.R1", fv, f"_from_value handles {sorted(EXPECT_CLASS)}", not missing, f"missing {missing}", key="C01.R1@from_value:complete")
    ok = any(isinstance(x, ast.Raise) for x in ast.walk(ast.Module(body=tail, type_ignores=[])))
    rep.ob("C01.R1", fv, "_from_value refuses other types", ok, "", key="C01.R1@from_value:else")
    # float rounding keeps 15 significant digits
    fl = [n for n in body_walk(fv) if isinstance(n, ast.Call) and call_name(n) == "sigfig"]
    ok = bool(fl) and any(kw.arg == "sigfigs" and U(kw.value) == "MAX_SIGNIFICANT_DIGITS" for kw in fl[0].keywords) and repo.consts.get("MAX_SIGNIFICANT_DIGITS") == 15
    rep.ob("C01.R1", fl[0] if fl else fv, "float values are rounded to MAX_SIGNIFICANT_DIGITS = 15 only", ok, "", key="C01.R1@from_value:sigfigs")
    # Table.write stores the written value
    uv = repo.func("cell.py", "Cell._update_value")
    st = [U(n) for n in body_walk(uv) if isinstance(n, ast.Assign)]
    ok = "self._value = value" in st
    rep.ob("C01.R1", uv, "_update_value stores the written value", ok, "", key="C01.R1@update_value")

    # ---- R2 kind codec agreement
    dec = extract_decoder(repo)
    enc = extract_encoder(repo)
    tst = pb.enum_values(repo, "TSTArchives")
    consts = repo.consts

    def type_num(expr_txt):
        out = set()
        for part in expr_txt.split("|"):
            part = part.strip()
            name = part.split(".")[-1]
            if part in consts:
                out.add(consts[part])
            elif name in consts:
                out.add(consts[name])
            elif name in tst:
                out.add(tst[name])
            else:
                out.add(None)
        return out

    # decoder variables -> (mask, fmt)
    var_src = {r.target: (r.mask, r.fmt) for r in dec.reads if not r.skipped}
    dkinds = {}
    for texpr, cls, call, nd in dec.kinds:
        dkinds.setdefault(cls, []).append((type_num(texpr), call, nd))
    expect = {
        # class: (flag, fmt, decoder variable, encoder value shape, decoder value shape)
        "NumberCell": (0x1, "d128", "d128"),
        "TextCell": (0x8, "<i", "_string_id"),
        "DateCell": (0x4, "<d", "seconds"),
        "BoolCell": (0x2, "<d", "double"),
        "DurationCell": (0x2, "<d", "double"),
    }
    for kb in enc.kinds:
        cls = kb.cls
        if cls not in expect:
            continue
        flag, fmt, var = expect[cls]
        ok = kb.flags == flag and kb.payload_fmt == fmt
        rep.ob("C01.R2", kb.node, f"encoder {cls}: flag {kb.flags:#x}, format {kb.payload_fmt}", ok,
               "" if ok else f"expected flag {flag:#x} and format {fmt}", key=f"C01.R2@enc:{cls}")
        # decoder side reads the variable under the same flag and format
        vs = var_src.get(var)
        okd = vs is not None and vs[0] == kb.flags and vs[1] == kb.payload_fmt
        rep.ob("C01.R2", dec.func, f"decoder reads `{var}` under flag {vs and hex(vs[0])} with format {vs and vs[1]}", okd,
               "" if okd else f"encoder writes {cls} under flag {kb.flags:#x}/{kb.payload_fmt}: the two sides disagree", key=f"C01.R2@dec:{cls}")
        # type numbers
        etypes = type_num(kb.type_expr)
        dk = dkinds.get(cls, [])
        dtypes = set()
        for tn, _, _ in dk:
            dtypes |= tn
        okt = bool(dk) and None not in etypes and etypes <= dtypes
        rep.ob("C01.R2", kb.node, f"{cls}: type byte(s) {sorted(x for x in etypes if x is not None)} decoded to the same class", okt,
               "" if okt else f"decoder maps type(s) {sorted(x for x in dtypes if x is not None)} to {cls}", key=f"C01.R2@type:{cls}")
        # the decoder builds the class from the variable read above
        for tn, call, nd in dk:
            a = [U(x) for x in call.args] if call else []
            used = var in U(call) if call else False
            rep.ob("C01.R2", nd, f"decoder {cls}({', '.join(a)}) built from `{var}` at (row, col)", used and a[:2] == ["row", "col"], "", key=f"C01.R2@build:{cls}:{sorted(tn)}")
    # inverse value expressions
    ev = {kb.cls: U(kb.value_expr) if kb.value_expr is not None else "" for kb in enc.kinds}
    dv = {cls: U(call.args[2]) if call and len(call.args) >= 3 else "" for _, cls, call, _ in dec.kinds}
    encsrc = U(enc.func)
    checks = [
        ("NumberCell", "_pack_decimal128(self.value)" in ev.get("NumberCell", ""), dv.get("NumberCell") == "d128" and "_unpack_decimal128(" in U(dec.func)),
        ("TextCell", "self._model.table_string_key(self._table_id, self.value)" in ev.get("TextCell", ""), dv.get("TextCell") == "model.table_string(table_id, storage_flags._string_id)"),
        ("DateCell", _date_epoch_ok(enc), dv.get("DateCell") == "EPOCH + timedelta(seconds=seconds)"),
        ("BoolCell", "float(self.value)" in ev.get("BoolCell", ""), dv.get("BoolCell") in ("double > 0.0", "double != 0.0", "bool(double)")),
        ("DurationCell", "float(self.value.total_seconds())" in ev.get("DurationCell", ""), dv.get("DurationCell") == "timedelta(seconds=double)"),
    ]
    for cls, eok, dok in checks:
        rep.ob("C01.R2", enc.func, f"{cls}: written as `{ev.get(cls)}`", eok, "" if eok else "value expression is not the documented encoding", key=f"C01.R2@value:enc:{cls}")
        rep.ob("C01.R2", dec.func, f"{cls}: read as `{dv.get(cls)}`", dok, "" if dok else "value expression is not the inverse of the encoder's", key=f"C01.R2@value:dec:{cls}")
    # string table: key allocation and lookup go to the same list
    tk = repo.func("model.py", "_NumbersModel.table_string_key")
    tsf = repo.func("model.py", "_NumbersModel.table_string")
    ok = "self._table_strings.lookup_key(table_id, value)" in U(tk) and "self._table_strings.lookup_value(table_id, key).string" in U(tsf)
    rep.ob("C01.R2", tk, "text keys are allocated in and resolved from the same string list", ok, "", key="C01.R2@strings:same-list")
    lk = repo.func("model.py", "DataLists.lookup_key")
    s = U(lk)
    ok = "value_key not in self._datalists[table_id]['by_value']" in s and "self._datalists[table_id]['by_value'][value_key] = key" in s \
        and "self._datalists[table_id]['by_key'][key] = entry" in s and "self._datalists[table_id]['next_key'] += 1" in s and "'key': key" in s
    rep.ob("C01.R2", lk, "lookup_key allocates a fresh key per distinct value and indexes it both ways", ok, "", key="C01.R2@strings:lookup_key")
    vk = repo.func("model.py", "DataLists.value_key")
    ok = U(vk).replace(" ", "").endswith("returnvalue") and "repr(value)" in U(vk)
    rep.ob("C01.R2", vk, "distinct strings have distinct value keys (identity for plain values)", ok, "", key="C01.R2@strings:value_key")

    # ---- R3 exact decimal codec
    for fn in ("_pack_decimal128", "_unpack_decimal128"):
        f = repo.func("cell.py", fn)
        n_ops = 0
        for n in body_walk(f):
            bad = None
            if isinstance(n, ast.BinOp):
                n_ops += 1
                if isinstance(n.op, ast.Div):
                    bad = f"true division `{U(n)}` rounds in binary floating point"
                elif isinstance(n.op, ast.Pow):
                    e = try_const(n.right, repo.consts)
                    if not (isinstance(e, int) and e >= 0):
                        bad = f"`{U(n)}`: a power with a possibly negative exponent is a float"
                elif isinstance(n.op, ast.Mult):
                    for side in (n.left, n.right):
                        if isinstance(side, ast.Constant) and isinstance(side.value, float):
                            bad = f"`{U(n)}` multiplies by a float constant"
            elif isinstance(n, ast.AugAssign):
                n_ops += 1
                if isinstance(n.op, ast.Div):
                    bad = f"`{U(n)}` is a float division"
            elif isinstance(n, ast.Call):
                nm = last_attr(n.func)
                n_ops += 1
                if nm in ROUNDING_CALLS and (isinstance(n.func, ast.Attribute) and U(n.func.value) == "math" or isinstance(n.func, ast.Name)):
                    bad = f"`{U(n)[:60]}` is a rounding floating point function"
                elif nm == "float" and n.args:
                    a = n.args[0]
                    def _text(e):
                        """a decimal text: literal, f-string, str()/format()/join() result, or a concatenation of those"""
                        if isinstance(e, ast.BinOp) and isinstance(e.op, ast.Add):
                            return _text(e.left) and _text(e.right)
                        if isinstance(e, ast.Constant):
                            return isinstance(e.value, str)
                        return isinstance(e, ast.JoinedStr) or (isinstance(e, ast.Call) and last_attr(e.func) in ("str", "format", "join", "repr"))
                    exact_src = isinstance(a, (ast.JoinedStr, ast.Constant)) or (isinstance(a, ast.Call) and last_attr(a.func) in ("str", "format", "Decimal")) \
                        or isinstance(a, ast.Name) or _text(a)
                    # float(<name>) is accepted only as the final conversion of a Decimal/str value (returned directly)
                    if isinstance(a, ast.Name):
                        exact_src = isinstance(getattr(n, "_parent", None), ast.Return) and _name_is_exact(f, a.id)
                    if not exact_src:
                        bad = f"`{U(n)[:60]}` converts a binary intermediate"
                elif nm == "Decimal" and n.args and isinstance(n.args[0], ast.BinOp):
                    bad = f"`{U(n)[:60]}`: Decimal of an already rounded expression"
            if bad:
                rep.ob("C01.R3", n, f"{fn}: {U(n)[:70]}", False,
                       bad + ": the stored mantissa/exponent (or the value read back) can differ by one ulp from the value written (12 -> 12.000000000000002)",
                       key=f"C01.R3@{fn}:{type(n).__name__}:{U(n)[:50]}")
        rep.ob("C01.R3", f, f"{fn}: {n_ops} arithmetic operations inspected, all exact up to one final conversion",
               not any(o.rule == "C01.R3" and not o.ok and fn in o.construct for o in rep.obs), "", key=f"C01.R3@{fn}:summary")
    # a float must enter Decimal through its shortest repr, never directly (Decimal(float) is the exact binary expansion)
    pfn = repo.func("cell.py", "_pack_decimal128")
    pparam = pfn.args.args[0].arg
    for c in [n for n in body_walk(pfn) if isinstance(n, ast.Call) and last_attr(n.func) == "Decimal" and n.args]:
        a = c.args[0]
        direct = isinstance(a, ast.Name) and a.id == pparam
        if not direct:
            continue
        guarded = False
        child = c
        for p in _anc(c):
            if isinstance(p, ast.IfExp) and U(p.test).replace(" ", "") == f"isinstance({pparam},float)" and child is p.orelse:
                guarded = True
            if isinstance(p, ast.If) and U(p.test).replace(" ", "") == f"isinstance({pparam},float)" and any(child is x or any(child is y for y in ast.walk(x)) for x in p.orelse):
                guarded = True
            if isinstance(p, ast.If) and U(p.test).replace(" ", "") in (f"notisinstance({pparam},float)", f"isinstance({pparam},int)") and any(child is x or any(child is y for y in ast.walk(x)) for x in p.body):
                guarded = True
            child = p
        rep.ob("C01.R3", c, f"_pack_decimal128: `{U(c)}` is reached for non-float values only", guarded,
               "" if guarded else "Decimal(float) is the exact binary expansion (1000000.1 -> 1000000.0999999999767...); truncating it to 17 digits stores a value one ulp low for some 15-digit floats",
               key="C01.R3@_pack_decimal128:decimal-of-float")
    rep.sub(check_decimal128, repo, rep)

    # ---- R4 string keys are never memoised across the per-save reset
    path = [("cell.py", "Cell._to_buffer"), ("model.py", "_NumbersModel.table_string_key"), ("model.py", "DataLists.lookup_key"),
            ("model.py", "_NumbersModel.recalculate_row_info"), ("model.py", "_NumbersModel.recalculate_table_data"), ("model.py", "_NumbersModel.init_table_strings"),
            ("model.py", "DataLists.init")]
    for rel, q in path:
        f = repo.func(rel, q)
        cached = [U(d) for d in f.decorator_list if "cache" in U(d)]
        rep.ob("C01.R4", f, f"{q} is not memoised", not cached,
               "" if not cached else f"{cached}: the string list is emptied and re-keyed on every save, a memoised key from an earlier save points at another string",
               key=f"C01.R4@{q}")
    rep.floor("C01.R1", 12)
    rep.floor("C01.R2", 25)
    rep.floor("C01.R3", 5)
    rep.floor("C01.R4", 7)


def check_decimal128(repo, rep):
    """Writer and reader of the 16-byte decimal field agree bit for bit (provenance maps, not spelling)."""
    from ..bits import bv
    from ..linear import Lin
    from ..symexec import Straight, lin_opaque, loop_domain, subst

    env = dict(repo.consts)
    BIAS = env.get("DECIMAL128_BIAS")
    if not isinstance(BIAS, int):
        raise AnalysisError("constants.py: DECIMAL128_BIAS is not a foldable int")
    pf, uf = repo.func("cell.py", "_pack_decimal128"), repo.func("cell.py", "_unpack_decimal128")
    sp, su = Straight(pf), Straight(uf)
    rets = [n for n in body_walk(pf) if isinstance(n, ast.Return) and isinstance(n.value, ast.Name)]
    if not rets:
        raise AnalysisError("_pack_decimal128: returned buffer not found")
    buf = rets[-1].value.id
    ubuf = uf.args.args[0].arg

    def in_loop(n):
        return any(isinstance(p, (ast.While, ast.For)) for p in _anc(n))

    # ---- digits kept: mantissa = int(dec.scaleb(-X)),  X = adjusted - K
    sc = [c for c in body_walk(pf) if isinstance(c, ast.Call) and last_attr(c.func) == "scaleb" and c.args]
    if len(sc) != 1:
        raise AnalysisError("_pack_decimal128: scaleb call not found")
    stmt = sc[0]
    while not isinstance(stmt, ast.stmt):
        stmt = stmt._parent
    X = lin_opaque(sp.at(stmt, sc[0].args[0]), env).scale(-1)
    atoms = [k for k in X.t if "adjusted()" in k]
    if len(X.t) == 1 and len(atoms) == 1 and X.t[atoms[0]] == 1:
        kk = -X.c
        ok = 16 <= kk <= 33
        rep.ob("C01.R3", sc[0], f"_pack_decimal128: mantissa scaled to {kk + 1} significant digits", ok,
               "" if ok else f"`int(dec.scaleb(...))` truncates: with {kk + 1} digits kept, floats whose shortest repr has 17 digits (29.999999999999996) lose their last digit on every save",
               key="C01.R3@_pack_decimal128:digits")
    else:
        raise AnalysisError(f"_pack_decimal128: scale exponent `{X}` is not adjusted() - K")

    # ---- byte writes outside the mantissa loop
    writes = []
    for n in body_walk(pf):
        tgt = n.target if isinstance(n, ast.AugAssign) else (n.targets[0] if isinstance(n, ast.Assign) and len(n.targets) == 1 else None)
        if isinstance(tgt, ast.Subscript) and U(tgt.value) == buf and not in_loop(n):
            idx = try_const(tgt.slice, env)
            if not isinstance(idx, int):
                raise AnalysisError(f"_pack_decimal128: write to {U(tgt)} with a non-constant index")
            if isinstance(n, ast.AugAssign) and not isinstance(n.op, (ast.BitOr, ast.Add)):
                raise AnalysisError(f"_pack_decimal128: `{U(n)}` is not an or-in of bits")
            cond = [p for p in _anc(n) if isinstance(p, ast.If)]
            writes.append((idx, bv(sp.at(n, n.value), env), cond, n))
    uncond = [(i, b, n) for i, b, c, n in writes if not c]
    srcs = set()
    for _, b, _n in uncond:
        srcs |= b.sources()
    pack_map = {}  # (byte, bit) -> source bit of the biased exponent
    for i, b, _n in uncond:
        for pos, (_s, sb) in b.bits.items():
            pack_map[(i, pos)] = sb
    E_txt = next(iter(srcs)) if len(srcs) == 1 else None
    ok_src = E_txt is not None
    if ok_src:
        E = lin_opaque(ast.parse(E_txt, mode="eval").body, env)
        diff = E - X
        ok_src = diff.is_const() and diff.c == BIAS
    # ---- reader: exponent
    jret = [n for n in body_walk(uf) if isinstance(n, ast.Return) and n.value is not None]
    def text_parts(e):
        """a decimal text built as f-string, concatenation or str() calls: [('s', literal) | ('e', expression node)]"""
        if isinstance(e, ast.Constant) and isinstance(e.value, str):
            return [("s", e.value)]
        if isinstance(e, ast.JoinedStr):
            out = []
            for v in e.values:
                if isinstance(v, ast.Constant):
                    out.append(("s", v.value))
                elif isinstance(v, ast.FormattedValue) and v.format_spec is None and v.conversion in (-1, 115):
                    out.append(("e", v.value))
                else:
                    return None
            return out
        if isinstance(e, ast.BinOp) and isinstance(e.op, ast.Add):
            a, b = text_parts(e.left), text_parts(e.right)
            return None if a is None or b is None else a + b
        if isinstance(e, ast.Call) and call_name(e) == "str" and len(e.args) == 1 and not e.keywords:
            return [("e", e.args[0])]
        return None
    fl = [c for c in ast.walk(jret[-1].value) if isinstance(c, ast.Call) and call_name(c) == "float" and len(c.args) == 1] if jret else []
    parts = text_parts(su.at(jret[-1], fl[0].args[0]) if isinstance(fl[0].args[0], ast.Name) else fl[0].args[0]) if fl else None
    if not parts or [k for k, _ in parts] != ["e", "s", "e"] or parts[1][1] not in ("E", "e"):
        raise AnalysisError("_unpack_decimal128: the value returned is not float(<mantissa digits> 'E' <exponent>) of a decimal text")
    m_expr, e_expr = parts[0][1], parts[2][1]
    e_sub = su.at(jret[-1], e_expr)
    el = None
    if isinstance(e_sub, ast.BinOp) and isinstance(e_sub.op, ast.Sub) and try_const(e_sub.right, env) == BIAS:
        el = e_sub.left
    elif isinstance(e_sub, ast.BinOp) and isinstance(e_sub.op, ast.Add) and try_const(e_sub.right, env) == -BIAS:
        el = e_sub.left
    ok_exp = False
    detail = ""
    if el is not None and ok_src:
        rb = bv(el, env, byte_arrays={ubuf})
        # compose: reader bit p comes from byte (i, pos) which the writer filled with exponent bit pack_map[(i, pos)]
        comp = {}
        for p, (s_, sb) in rb.bits.items():
            i = int(s_[len(ubuf) + 1:-1]) if s_.startswith(ubuf + "[") and s_[len(ubuf) + 1:-1].isdigit() else None
            comp[p] = pack_map.get((i, sb))
        need = (BIAS + 400).bit_length()
        ok_exp = all(comp.get(p) == p for p in range(need)) and all(v == p for p, v in comp.items() if v is not None) and not rb.ones \
            and all(p < 14 for p in rb.bits)
        detail = f"reader takes exponent bit p from {rb}; writer placed {sorted(pack_map.items())}"
    elif el is None:
        detail = f"the reader's exponent is `{U(e_sub)}`, not <bits> - DECIMAL128_BIAS"
    else:
        detail = f"the writer stores `{E_txt}` which is not the scale exponent + DECIMAL128_BIAS"
    rep.ob("C01.R3", uf, "exponent bits and bias placed identically by pack and unpack", ok_exp, "" if ok_exp else detail, key="C01.R3@exponent-fields")

    # ---- mantissa bytes: writer loop
    wl = [n for n in body_walk(pf) if isinstance(n, ast.While)]
    ok_w = False
    wdetail = "writer loop not recognised"
    if len(wl) == 1:
        loop = wl[0]
        t = loop.test
        mvar = t.id if isinstance(t, ast.Name) else (t.left.id if isinstance(t, ast.Compare) and isinstance(t.left, ast.Name) else None)
        test_ok = isinstance(t, ast.Name) or (isinstance(t, ast.Compare) and len(t.ops) == 1 and (
            (isinstance(t.ops[0], ast.GtE) and try_const(t.comparators[0]) == 1) or (isinstance(t.ops[0], (ast.Gt, ast.NotEq)) and try_const(t.comparators[0]) == 0)))
        lenv = {}
        store = None
        straight = all(isinstance(b, (ast.Assign, ast.AugAssign)) for b in loop.body)
        if mvar and test_ok and straight:
            body_ = []
            for b in loop.body:
                # ``q, r = divmod(m, 2**k)`` is ``r = m & (2**k - 1)`` and ``q = m >> k`` (m is a non-negative int here)
                if isinstance(b, ast.Assign) and len(b.targets) == 1 and isinstance(b.targets[0], ast.Tuple) and len(b.targets[0].elts) == 2 and isinstance(b.value, ast.Call) \
                        and call_name(b.value) == "divmod" and len(b.value.args) == 2:
                    d = try_const(b.value.args[1], env)
                    if isinstance(d, int) and d > 1 and d & (d - 1) == 0:
                        qt, rt = b.targets[0].elts
                        m_ = b.value.args[0]
                        body_.append(ast.copy_location(ast.Assign(targets=[rt], value=ast.BinOp(left=m_, op=ast.BitAnd(), right=ast.Constant(d - 1))), b))
                        body_.append(ast.copy_location(ast.Assign(targets=[qt], value=ast.BinOp(left=m_, op=ast.RShift(), right=ast.Constant(d.bit_length() - 1))), b))
                        continue
                body_.append(b)
            for b in body_:
                if isinstance(b, ast.Assign) and isinstance(b.targets[0], ast.Subscript) and U(b.targets[0].value) == buf:
                    store = (subst(b.targets[0].slice, lenv), subst(b.value, lenv))
                elif isinstance(b, ast.AugAssign) and isinstance(b.target, ast.Name):
                    lenv[b.target.id] = subst(ast.BinOp(left=ast.Name(id=b.target.id, ctx=ast.Load()), op=b.op, right=b.value), lenv)
                elif isinstance(b, ast.Assign) and isinstance(b.targets[0], ast.Name):
                    lenv[b.targets[0].id] = subst(b.value, lenv)
            if store is not None and isinstance(store[0], ast.Name):
                ivar = store[0].id
                sb_ = bv(store[1], env)
                mb = bv(lenv[mvar], env) if mvar in lenv else None
                il = lin_opaque(lenv[ivar], env) if ivar in lenv else None
                i0 = try_const(sp.at(loop, ast.Name(id=ivar, ctx=ast.Load())), env)
                ok_w = (sb_.bits == {p: (mvar, p) for p in range(8)} and not sb_.ones and mb is not None
                        and all(mb.bits.get(p) == (mvar, p + 8) for p in range(64)) and il is not None and (il - Lin(1, {ivar: 1})).is_const()
                        and (il - Lin(1, {ivar: 1})).c == 0 and i0 == 0)
                wdetail = f"byte[{ivar}] <- {sb_}; {mvar} <- {mb}; {ivar} <- {il}; first index {i0}"
    # ---- mantissa bytes: reader loop
    rl = [n for n in body_walk(uf) if isinstance(n, ast.For)]
    ok_r = False
    rdetail = "reader loop not recognised"
    if len(rl) == 1 and len(rl[0].body) == 1 and isinstance(rl[0].body[0], ast.Assign) and isinstance(rl[0].body[0].targets[0], ast.Name):
        loop = rl[0]
        dom = loop_domain(loop, uf, env)
        acc = loop.body[0].targets[0].id
        step_value = loop.body[0].value
        # ``for b in reversed(buf[:K])`` / ``for b in buf[K-1::-1]``: the bytes K-1 .. 0, named by the element
        it = loop.iter
        seq_k = None
        if isinstance(it, ast.Call) and call_name(it) == "reversed" and len(it.args) == 1 and isinstance(it.args[0], ast.Subscript) and U(it.args[0].value) == ubuf \
                and isinstance(it.args[0].slice, ast.Slice) and it.args[0].slice.lower is None and it.args[0].slice.step is None:
            seq_k = try_const(it.args[0].slice.upper, env)
        elif isinstance(it, ast.Subscript) and U(it.value) == ubuf and isinstance(it.slice, ast.Slice) and try_const(it.slice.step, env) == -1 and it.slice.upper is None:
            lo_ = try_const(it.slice.lower, env)
            seq_k = lo_ + 1 if isinstance(lo_, int) else None
        if isinstance(seq_k, int) and isinstance(loop.target, ast.Name):
            dom = {"var": "__i", "lo": Lin(0), "hi": Lin(seq_k), "step": -1, "elem": loop.target.id, "seq": None}
            step_value = subst(step_value, {loop.target.id: ast.Subscript(value=ast.Name(id=ubuf, ctx=ast.Load()), slice=ast.Name(id="__i", ctx=ast.Load()), ctx=ast.Load())})
        if dom and dom["var"]:
            rb = bv(step_value, env, byte_arrays={ubuf})
            src = f"{ubuf}[{dom['var']}]"
            horner = all(rb.bits.get(p) == (src, p) for p in range(8)) and all(rb.bits.get(p + 8) == (acc, p) for p in range(64)) and not rb.ones
            init = bv(su.at(loop, ast.Name(id=acc, ctx=ast.Load())), env, byte_arrays={ubuf})
            lo, hi = dom["lo"], dom["hi"]
            full = lo.is_const() and hi.is_const() and lo.c == 0 and hi.c == 14
            init_ok = (not init.bits and not init.ones) or (init.bits == {0: (f"{ubuf}[14]", 0)} and not init.ones)
            used_after = U(m_expr) == acc or acc in U(su.at(jret[-1], m_expr))
            ok_r = horner and dom["step"] == -1 and full and init_ok and used_after
            rdetail = f"{acc} <- {rb} for {dom['var']} from {hi.c - 1 if hi.is_const() else hi} down to {lo.c if lo.is_const() else lo} (step {dom['step']}); initial {init}"
    ok = ok_w and ok_r
    rep.ob("C01.R3", uf, "mantissa bytes little-endian on both sides", ok,
           "" if ok else f"writer: {wdetail}; reader: {rdetail}", key="C01.R3@mantissa-bytes")
    # ---- sign
    sign_w = [(i, b, c, n) for i, b, c, n in writes if c and b.ones and not b.bits]
    neg_txt = {"value<0", f"{pf.args.args[0].arg}<0"}
    ok = len(sign_w) == 1 and sign_w[0][0] == 15 and sign_w[0][1].ones == {7} and U(sign_w[0][2][0].test).replace(" ", "") in neg_txt
    # reader: the mantissa is negated exactly when byte 15 bit 7 is set
    neg = [n for n in body_walk(uf) if isinstance(n, ast.If) and any(isinstance(x, ast.UnaryOp) and isinstance(x.op, ast.USub) for b in n.body for x in ast.walk(b))]
    r_ok = False
    if len(neg) == 1:
        t = su.at(neg[0], neg[0].test)
        # accept  <bits>,  <bits> != 0,  (1 if <bits> else 0) == 1
        core = t
        if isinstance(core, ast.Compare) and len(core.ops) == 1:
            l_, r_ = core.left, core.comparators[0]
            if isinstance(core.ops[0], ast.Eq) and try_const(r_) == 1 and isinstance(l_, ast.IfExp) and try_const(l_.body) == 1 and try_const(l_.orelse) == 0:
                core = l_.test
            elif isinstance(core.ops[0], ast.NotEq) and try_const(r_) == 0:
                core = l_
        sbv = bv(core, env, byte_arrays={ubuf})
        r_ok = sbv.bits == {7: (f"{ubuf}[15]", 7)} and not sbv.ones
    rep.ob("C01.R3", pf, "sign bit placed identically", ok and r_ok,
           "" if ok and r_ok else f"writer sign writes: {[(i, repr(b)) for i, b, c, n in sign_w]}; reader negates on `{U(neg[0].test) if neg else None}`", key="C01.R3@sign")


def _anc(n):
    p = getattr(n, "_parent", None)
    while p is not None:
        yield p
        p = getattr(p, "_parent", None)


def _date_epoch_ok(enc) -> bool:
    """DateCell payload = float((<cell value> - E).total_seconds()) where E is EPOCH for naive values."""
    kb = next((k for k in enc.kinds if k.cls == "DateCell"), None)
    if kb is None or kb.value_expr is None:
        return False
    defs = {}
    for n in ast.walk(kb.node):
        if isinstance(n, ast.Assign) and isinstance(n.targets[0], ast.Name):
            defs.setdefault(n.targets[0].id, []).append(n.value)
    ts = [c for c in ast.walk(kb.value_expr) if isinstance(c, ast.Call) and last_attr(c.func) == "total_seconds"]
    if not ts:
        return False
    recv = ts[0].func.value
    cands = [recv]
    if isinstance(recv, ast.Name) and recv.id in defs:
        cands = defs[recv.id]
    ok = bool(cands)
    for c in cands:
        if not (isinstance(c, ast.BinOp) and isinstance(c.op, ast.Sub) and U(c.left) in ("self._value", "self.value")):
            return False
        r = c.right
        rs = [r]
        if isinstance(r, ast.Name) and r.id in defs:
            rs = defs[r.id]
        for x in rs:
            if isinstance(x, ast.IfExp):
                naive = x.body if "is None" in U(x.test) else x.orelse
                ok = ok and U(naive) == "EPOCH"
            else:
                ok = ok and (U(x) == "EPOCH" or U(x).startswith("EPOCH.astimezone("))
    # the naive form must be present
    return ok and "EPOCH" in U(kb.node)


def _name_is_exact(f, name) -> bool:
    """The local ``name`` is a Decimal or a decimal string (so float(name) is one correctly rounded step)."""
    for n in body_walk(f):
        if isinstance(n, ast.Assign) and U(n.targets[0]) == name:
            v = n.value
            if isinstance(v, ast.JoinedStr):
                return True
            if isinstance(v, ast.Call) and last_attr(v.func) in ("Decimal", "scaleb", "str", "format"):
                return True
            return False
    return False


VARIANTS = [
    M("int-before-bool", "cell.py", "        elif isinstance(value, bool):\n            cell = BoolCell(row, col, value)\n        elif isinstance(value, int):\n            cell = NumberCell(row, col, value)\n",
      "        elif isinstance(value, int):\n            cell = NumberCell(row, col, value)\n        elif isinstance(value, bool):\n            cell = BoolCell(row, col, value)\n", "C01.R1"),
    M("date-single-precision", "cell.py", 'value = pack("<d", float(date_delta.total_seconds()))', 'value = pack("<f", float(date_delta.total_seconds()))', "C01.R2"),
    T("decimal128-divmod-reversed-forms", "cell.py", """        buffer[i] = mantissa & 0xFF
        i += 1
        mantissa >>= 8
""", """        mantissa, buffer[i] = divmod(mantissa, 256)
        i += 1
"""),
    T("decimal128-reader-reversed-slice", "cell.py", """    for i in range(13, -1, -1):
        mantissa = mantissa * 256 + buffer[i]
""", """    for byte in reversed(buffer[:14]):
        mantissa = mantissa * 256 + byte
"""),
    M("decimal128-reader-one-byte-short", "cell.py", """    for i in range(13, -1, -1):
        mantissa = mantissa * 256 + buffer[i]
""", """    for byte in reversed(buffer[:13]):
        mantissa = mantissa * 256 + byte
""", "C01.R3"),
    M("decimal128-writer-divmod-128", "cell.py", """        buffer[i] = mantissa & 0xFF
        i += 1
        mantissa >>= 8
""", """        mantissa, buffer[i] = divmod(mantissa, 128)
        i += 1
""", "C01.R3"),
    T("decimal128-text-by-concatenation", "cell.py", '    return float(f"{mantissa}E{exp}")', '    return float(str(mantissa) + "E" + str(exp))'),
    M("decimal128-text-exponent-swapped", "cell.py", '    return float(f"{mantissa}E{exp}")', '    return float(str(exp) + "E" + str(mantissa))', "C01.R3"),
    M("revert-fix-unpack-float-pow", "cell.py", '    return float(f"{mantissa}E{exp}")', "    value = mantissa * 10**exp\n    return float(value)", "C01.R3"),
    M("revert-fix-pack-division", "cell.py", "        mantissa >>= 8", "        mantissa = int(mantissa / 256)", "C01.R3"),
    M("decimal-of-float-direct", "cell.py", "dec = Decimal(repr(value)) if isinstance(value, float) else Decimal(value)", "dec = Decimal(value)", "C01.R3"),
    M("mantissa-16-digits", "cell.py", "exp = (dec.adjusted() if dec != 0 else 0) - 16", "exp = (dec.adjusted() if dec != 0 else 0) - MAX_SIGNIFICANT_DIGITS", "C01.R3"),
    M("duration-days", "cell.py", 'value = pack("<d", float(self.value.total_seconds()))', 'value = pack("<d", float(self.value.seconds))', "C01.R2"),
    M("bool-threshold", "cell.py", "cell = BoolCell(row, col, double > 0.0)", "cell = BoolCell(row, col, double > 1.0)", "C01.R2"),
    M("date-other-epoch", "cell.py", "cell = DateCell(row, col, EPOCH + timedelta(seconds=seconds))", "cell = DateCell(row, col, datetime(2001, 1, 1, 0, 0, 1) + timedelta(seconds=seconds))", "C01.R2"),
    M("string-key-cached", "model.py", "    def table_string_key(self, table_id: int, value: str) -> int:", "    @cache(num_args=2)\n    def table_string_key(self, table_id: int, value: str) -> int:", "C01.R4"),
    M("text-flag-wrong", "cell.py", "            flags = 8\n            length += 4\n            cell_type = TSTArchives.textCellType", "            flags = 0x10\n            length += 4\n            cell_type = TSTArchives.textCellType", "C01.R2"),
    M("exponent-bias-mismatch", "cell.py", "exp = (((buffer[15] & 0x7F) << 7) | (buffer[14] >> 1)) - DECIMAL128_BIAS", "exp = (((buffer[15] & 0x7F) << 7) | (buffer[14] >> 1)) - DECIMAL128_BIAS + 0", "ANALYSIS-SKIP"),
    T("from-value-reordered-safe", "cell.py", "        if isinstance(value, str):\n            cell = TextCell(row, col, value)\n        elif isinstance(value, bool):\n            cell = BoolCell(row, col, value)\n",
      "        if isinstance(value, bool):\n            cell = BoolCell(row, col, value)\n        elif isinstance(value, str):\n            cell = TextCell(row, col, value)\n"),
]
VARIANTS = [v for v in VARIANTS if v.expect != "ANALYSIS-SKIP"]

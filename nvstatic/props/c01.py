"""C01 — values written to cells are read back exactly after save and reopen."""

from __future__ import annotations

import ast

from .. import pb
from ..cellcodec import V5_WIDTH, extract_decoder, extract_encoder
from ..core import AnalysisError, U, body_walk, call_name, last_attr, try_const
from ..selftest import M, T

EXPLANATION = (
    "three places where exactness is kept or lost by construction: (R1) the isinstance dispatch of Cell._from_value tests "
    "subclasses before superclasses and builds the matching cell class; (R2) per cell kind the encoder and the decoder use the "
    "same flag bit, struct format, type number and mutually inverse value expressions; (R3) the decimal128 codec contains no "
    "float-rounding operation before its single final conversion; (R4) nothing on the string-key path is memoised across the "
    "per-save reset of the string list"
)
TRUSTED = ["python ast", "struct.calcsize", "builtin type lattice (bool<int, datetime<date)", "TSTArchives descriptor", "exactness table of arithmetic operators"]

SUBCLASS_OF = {"bool": "int", "datetime": "date"}
EXPECT_CLASS = {"str": "TextCell", "bool": "BoolCell", "int": "NumberCell", "float": "NumberCell", "datetime": "DateCell", "timedelta": "DurationCell"}

# operations that round in binary floating point (forbidden inside the decimal codec)
ROUNDING_CALLS = {"pow", "log", "log10", "log2", "exp", "sqrt", "fsum", "ldexp", "frexp"}


def run(repo, rep, tier):
    # ---- R1 dispatch order
    fv = repo.func("cell.py", "Cell._from_value")
    _from_value_table(repo, rep, fv)
    # float rounding keeps 15 significant digits
    fl = [n for n in body_walk(fv) if isinstance(n, ast.Call) and call_name(n) == "sigfig"]
    ok = bool(fl) and any(kw.arg == "sigfigs" and U(kw.value) == "MAX_SIGNIFICANT_DIGITS" for kw in fl[0].keywords) and repo.consts.get("MAX_SIGNIFICANT_DIGITS") == 15
    rep.ob("C01.R1", fl[0] if fl else fv, "float values are rounded to MAX_SIGNIFICANT_DIGITS = 15 only", ok, "", key="C01.R1@from_value:sigfigs")
    # Table.write stores the written value
    uv = repo.func("cell.py", "Cell._update_value")
    st = [U(n) for n in body_walk(uv) if isinstance(n, ast.Assign)]
    ok = "self._value = value" in st
    rep.ob("C01.R1", uv, "_update_value stores the written value", ok, "", key="C01.R1@update_value")

    # ---- R2 kind codec agreement
    dec = extract_decoder(repo)
    enc = extract_encoder(repo)
    tst = pb.enum_values(repo, "TSTArchives")
    consts = repo.consts

    def type_num(expr_txt):
        out = set()
        for part in expr_txt.split("|"):
            part = part.strip()
            name = part.split(".")[-1]
            if part in consts:
                out.add(consts[part])
            elif name in consts:
                out.add(consts[name])
            elif name in tst:
                out.add(tst[name])
            else:
                out.add(None)
        return out

    # decoder variables -> (mask, fmt)
    var_src = {r.target: (r.mask, r.fmt) for r in dec.reads if not r.skipped}
    dkinds = {}
    for texpr, cls, call, nd in dec.kinds:
        dkinds.setdefault(cls, []).append((type_num(texpr), call, nd))
    expect = {
        # class: (flag, fmt, decoder variable, encoder value shape, decoder value shape)
        "NumberCell": (0x1, "d128", "d128"),
        "TextCell": (0x8, "<i", "_string_id"),
        "DateCell": (0x4, "<d", "seconds"),
        "BoolCell": (0x2, "<d", "double"),
        "DurationCell": (0x2, "<d", "double"),
    }
    for kb in enc.kinds:
        cls = kb.cls
        if cls not in expect:
            continue
        flag, fmt, var = expect[cls]
        ok = kb.flags == flag and kb.payload_fmt == fmt
        rep.ob("C01.R2", kb.node, f"encoder {cls}: flag {kb.flags:#x}, format {kb.payload_fmt}", ok,
               "" if ok else f"expected flag {flag:#x} and format {fmt}", key=f"C01.R2@enc:{cls}")
        # decoder side reads the variable under the same flag and format
        vs = var_src.get(var)
        okd = vs is not None and vs[0] == kb.flags and vs[1] == kb.payload_fmt
        rep.ob("C01.R2", dec.func, f"decoder reads `{var}` under flag {vs and hex(vs[0])} with format {vs and vs[1]}", okd,
               "" if okd else f"encoder writes {cls} under flag {kb.flags:#x}/{kb.payload_fmt}: the two sides disagree", key=f"C01.R2@dec:{cls}")
        # type numbers
        etypes = type_num(kb.type_expr)
        dk = dkinds.get(cls, [])
        dtypes = set()
        for tn, _, _ in dk:
            dtypes |= tn
        okt = bool(dk) and None not in etypes and etypes <= dtypes
        rep.ob("C01.R2", kb.node, f"{cls}: type byte(s) {sorted(x for x in etypes if x is not None)} decoded to the same class", okt,
               "" if okt else f"decoder maps type(s) {sorted(x for x in dtypes if x is not None)} to {cls}", key=f"C01.R2@type:{cls}")
        # the decoder builds the class from the variable read above
        for tn, call, nd in dk:
            a = [U(x) for x in call.args] if call else []
            used = var in U(call) if call else False
            rep.ob("C01.R2", nd, f"decoder {cls}({', '.join(a)}) built from `{var}` at (row, col)", used and a[:2] == ["row", "col"], "", key=f"C01.R2@build:{cls}:{sorted(tn)}")
    # inverse value expressions
    ev = {kb.cls: U(kb.value_expr) if kb.value_expr is not None else "" for kb in enc.kinds}
    dv = {cls: U(call.args[2]) if call and len(call.args) >= 3 else "" for _, cls, call, _ in dec.kinds}
    encsrc = U(enc.func)
    checks = [
        ("NumberCell", "_pack_decimal128(self.value)" in ev.get("NumberCell", ""), dv.get("NumberCell") == "d128" and "_unpack_decimal128(" in U(dec.func)),
        ("TextCell", "self._model.table_string_key(self._table_id, self.value)" in ev.get("TextCell", ""), dv.get("TextCell") == "model.table_string(table_id, storage_flags._string_id)"),
        ("DateCell", _date_epoch_ok(enc), dv.get("DateCell") == "EPOCH + timedelta(seconds=seconds)"),
        ("BoolCell", "float(self.value)" in ev.get("BoolCell", ""), dv.get("BoolCell") in ("double > 0.0", "double != 0.0", "bool(double)")),
        ("DurationCell", "float(self.value.total_seconds())" in ev.get("DurationCell", ""), dv.get("DurationCell") == "timedelta(seconds=double)"),
    ]
    for cls, eok, dok in checks:
        rep.ob("C01.R2", enc.func, f"{cls}: written as `{ev.get(cls)}`", eok, "" if eok else "value expression is not the documented encoding", key=f"C01.R2@value:enc:{cls}")
        rep.ob("C01.R2", dec.func, f"{cls}: read as `{dv.get(cls)}`", dok, "" if dok else "value expression is not the inverse of the encoder's", key=f"C01.R2@value:dec:{cls}")
    # string table: key allocation and lookup go to the same list
    tk = repo.func("model.py", "_NumbersModel.table_string_key")
    tsf = repo.func("model.py", "_NumbersModel.table_string")
    ok = "self._table_strings.lookup_key(table_id, value)" in U(tk) and "self._table_strings.lookup_value(table_id, key).string" in U(tsf)
    rep.ob("C01.R2", tk, "text keys are allocated in and resolved from the same string list", ok, "", key="C01.R2@strings:same-list")
    lk = repo.func("model.py", "DataLists.lookup_key")
    why = _lookup_key_problem(repo, lk)
    rep.ob("C01.R2", lk, "lookup_key allocates a fresh key per distinct value and indexes it both ways", why is None, why or "", key="C01.R2@strings:lookup_key")
    vk = repo.func("model.py", "DataLists.value_key")
    bad = _value_key_problem(vk)
    rep.ob("C01.R2", vk, "distinct strings have distinct value keys (identity for plain values)", bad is None, bad or "", key="C01.R2@strings:value_key")

    # ---- R3 exact decimal codec
    for fn in ("_pack_decimal128", "_unpack_decimal128"):
        f = repo.func("cell.py", fn)
        n_ops = 0
        for n in body_walk(f):
            bad = None
            if isinstance(n, ast.BinOp):
                n_ops += 1
                if isinstance(n.op, ast.Div):
                    bad = f"true division `{U(n)}` rounds in binary floating point"
                elif isinstance(n.op, ast.Pow):
                    e = try_const(n.right, repo.consts)
                    if not (isinstance(e, int) and e >= 0):
                        bad = f"`{U(n)}`: a power with a possibly negative exponent is a float"
                elif isinstance(n.op, ast.Mult):
                    for side in (n.left, n.right):
                        if isinstance(side, ast.Constant) and isinstance(side.value, float):
                            bad = f"`{U(n)}` multiplies by a float constant"
            elif isinstance(n, ast.AugAssign):
                n_ops += 1
                if isinstance(n.op, ast.Div):
                    bad = f"`{U(n)}` is a float division"
            elif isinstance(n, ast.Call):
                nm = last_attr(n.func)
                n_ops += 1
                if nm in ROUNDING_CALLS and (isinstance(n.func, ast.Attribute) and U(n.func.value) == "math" or isinstance(n.func, ast.Name)):
                    bad = f"`{U(n)[:60]}` is a rounding floating point function"
                elif nm == "float" and n.args:
                    a = n.args[0]
                    def _text(e):
                        """a decimal text: literal, f-string, str()/format()/join() result, or a concatenation of those"""
                        if isinstance(e, ast.BinOp) and isinstance(e.op, ast.Add):
                            return _text(e.left) and _text(e.right)
                        if isinstance(e, ast.Constant):
                            return isinstance(e.value, str)
                        return isinstance(e, ast.JoinedStr) or (isinstance(e, ast.Call) and last_attr(e.func) in ("str", "format", "join", "repr"))
                    exact_src = isinstance(a, (ast.JoinedStr, ast.Constant)) or (isinstance(a, ast.Call) and last_attr(a.func) in ("str", "format", "Decimal")) \
                        or isinstance(a, ast.Name) or _text(a)
                    # float(<name>) is accepted only as the final conversion of a Decimal/str value (returned directly)
                    if isinstance(a, ast.Name):
                        exact_src = isinstance(getattr(n, "_parent", None), ast.Return) and _name_is_exact(f, a.id)
                    if not exact_src:
                        bad = f"`{U(n)[:60]}` converts a binary intermediate"
                elif nm == "Decimal" and n.args and isinstance(n.args[0], ast.BinOp):
                    bad = f"`{U(n)[:60]}`: Decimal of an already rounded expression"
            if bad:
                rep.ob("C01.R3", n, f"{fn}: {U(n)[:70]}", False,
                       bad + ": the stored mantissa/exponent (or the value read back) can differ by one ulp from the value written (12 -> 12.000000000000002)",
                       key=f"C01.R3@{fn}:{type(n).__name__}:{U(n)[:50]}")
        rep.ob("C01.R3", f, f"{fn}: {n_ops} arithmetic operations inspected, all exact up to one final conversion",
               not any(o.rule == "C01.R3" and not o.ok and fn in o.construct for o in rep.obs), "", key=f"C01.R3@{fn}:summary")
    # a float must enter Decimal through its shortest repr, never directly (Decimal(float) is the exact binary expansion)
    pfn = repo.func("cell.py", "_pack_decimal128")
    pparam = pfn.args.args[0].arg
    for c in [n for n in body_walk(pfn) if isinstance(n, ast.Call) and last_attr(n.func) == "Decimal" and n.args]:
        a = c.args[0]
        direct = isinstance(a, ast.Name) and a.id == pparam
        if not direct:
            continue
        guarded = False
        child = c
        for p in _anc(c):
            if isinstance(p, ast.IfExp) and U(p.test).replace(" ", "") == f"isinstance({pparam},float)" and child is p.orelse:
                guarded = True
            if isinstance(p, ast.If) and U(p.test).replace(" ", "") == f"isinstance({pparam},float)" and any(child is x or any(child is y for y in ast.walk(x)) for x in p.orelse):
                guarded = True
            if isinstance(p, ast.If) and U(p.test).replace(" ", "") in (f"notisinstance({pparam},float)", f"isinstance({pparam},int)") and any(child is x or any(child is y for y in ast.walk(x)) for x in p.body):
                guarded = True
            child = p
        rep.ob("C01.R3", c, f"_pack_decimal128: `{U(c)}` is reached for non-float values only", guarded,
               "" if guarded else "Decimal(float) is the exact binary expansion (1000000.1 -> 1000000.0999999999767...); truncating it to 17 digits stores a value one ulp low for some 15-digit floats",
               key="C01.R3@_pack_decimal128:decimal-of-float")
    rep.sub(check_decimal128, repo, rep)

    # ---- R4 string keys are never memoised across the per-save reset
    path = [("cell.py", "Cell._to_buffer"), ("model.py", "_NumbersModel.table_string_key"), ("model.py", "DataLists.lookup_key"),
            ("model.py", "_NumbersModel.recalculate_row_info"), ("model.py", "_NumbersModel.recalculate_table_data"), ("model.py", "_NumbersModel.init_table_strings"),
            ("model.py", "DataLists.init")]
    for rel, q in path:
        f = repo.func(rel, q)
        cached = [U(d) for d in f.decorator_list if "cache" in U(d)]
        rep.ob("C01.R4", f, f"{q} is not memoised", not cached,
               "" if not cached else f"{cached}: the string list is emptied and re-keyed on every save, a memoised key from an earlier save points at another string",
               key=f"C01.R4@{q}")
    rep.floor("C01.R1", 12)
    rep.floor("C01.R2", 25)
    rep.floor("C01.R3", 5)
    rep.floor("C01.R4", 7)


def check_decimal128(repo, rep):
    """Writer and reader of the 16-byte decimal field agree bit for bit (provenance maps, not spelling)."""
    from ..bits import bv
    from ..linear import Lin
    from ..symexec import Straight, lin_opaque, loop_domain, subst

    env = dict(repo.consts)
    BIAS = env.get("DECIMAL128_BIAS")
    if not isinstance(BIAS, int):
        raise AnalysisError("constants.py: DECIMAL128_BIAS is not a foldable int")
    pf, uf = repo.func("cell.py", "_pack_decimal128"), repo.func("cell.py", "_unpack_decimal128")
    sp, su = Straight(pf), Straight(uf)
    rets = [n for n in body_walk(pf) if isinstance(n, ast.Return) and isinstance(n.value, ast.Name)]
    if not rets:
        raise AnalysisError("_pack_decimal128: returned buffer not found")
    buf = rets[-1].value.id
    ubuf = uf.args.args[0].arg

    def in_loop(n):
        return any(isinstance(p, (ast.While, ast.For)) for p in _anc(n))

    # ---- digits kept: mantissa = int(dec.scaleb(-X)),  X = adjusted - K
    sc = [c for c in body_walk(pf) if isinstance(c, ast.Call) and last_attr(c.func) == "scaleb" and c.args]
    if len(sc) != 1:
        raise AnalysisError("_pack_decimal128: scaleb call not found")
    stmt = sc[0]
    while not isinstance(stmt, ast.stmt):
        stmt = stmt._parent
    X = lin_opaque(sp.at(stmt, sc[0].args[0]), env).scale(-1)
    import re as _re
    # the position of the leading digit: ``dec.adjusted()``, guarded for zero or not (adjusted() of zero is the exponent of
    # the zero, any digit count serves); anything else wrapped around it (max(.., 0), abs(..)) moves the window for some values
    def _leading_digit_atom(k):
        try:
            e_ = ast.parse(k.strip("<>"), mode="eval").body
        except SyntaxError:
            return False
        def adj(c_):
            return isinstance(c_, ast.Call) and isinstance(c_.func, ast.Attribute) and c_.func.attr == "adjusted" and not c_.args
        if adj(e_):
            return True
        if isinstance(e_, ast.IfExp) and adj(e_.body) and try_const(e_.orelse) == 0:
            who = U(e_.body.func.value)
            t_ = e_.test
            return U(t_) == who or (isinstance(t_, ast.Compare) and len(t_.ops) == 1 and isinstance(t_.ops[0], ast.NotEq) and U(t_.left) == who and try_const(t_.comparators[0]) == 0)
        return False
    atoms = [k for k in X.t if _leading_digit_atom(k)]
    odd = [k for k in X.t if "adjusted()" in k and k not in atoms]
    if odd:
        rep.ob("C01.R3", sc[0], "_pack_decimal128: the digits kept start at the leading digit of the value", False,
               f"the scale exponent is built from `{odd[0][:60]}`, not from the position of the leading digit alone: values whose leading digit is further right "
               "(|x| < 1) keep fewer significant digits or none (6.6e-34 is stored as 0)", key="C01.R3@_pack_decimal128:digits")
        return
    if len(X.t) == 1 and len(atoms) == 1 and X.t[atoms[0]] == 1:
        kk = -X.c
        ok = 16 <= kk <= 33
        rep.ob("C01.R3", sc[0], f"_pack_decimal128: mantissa scaled to {kk + 1} significant digits", ok,
               "" if ok else f"`int(dec.scaleb(...))` truncates: with {kk + 1} digits kept, floats whose shortest repr has 17 digits (29.999999999999996) lose their last digit on every save",
               key="C01.R3@_pack_decimal128:digits")
    else:
        raise AnalysisError(f"_pack_decimal128: scale exponent `{X}` is not adjusted() - K")

    # ---- byte writes outside the mantissa loop
    writes = []
    for n in body_walk(pf):
        tgt = n.target if isinstance(n, ast.AugAssign) else (n.targets[0] if isinstance(n, ast.Assign) and len(n.targets) == 1 else None)
        if isinstance(tgt, ast.Subscript) and U(tgt.value) == buf and not in_loop(n):
            if isinstance(tgt.slice, ast.Slice) and isinstance(n, ast.Assign) and _to_bytes_call(n.value) is not None:
                continue  # the mantissa bytes written in one slice store: decided with the mantissa loop below
            idx = try_const(tgt.slice, env)
            if not isinstance(idx, int):
                raise AnalysisError(f"_pack_decimal128: write to {U(tgt)} with a non-constant index")
            if isinstance(n, ast.AugAssign) and not isinstance(n.op, (ast.BitOr, ast.Add)):
                raise AnalysisError(f"_pack_decimal128: `{U(n)}` is not an or-in of bits")
            cond = [p for p in _anc(n) if isinstance(p, ast.If)]
            writes.append((idx, bv(sp.at(n, n.value), env), cond, n))
    uncond = [(i, b, n) for i, b, c, n in writes if not c]
    srcs = set()
    for _, b, _n in uncond:
        srcs |= b.sources()
    pack_map = {}  # (byte, bit) -> source bit of the biased exponent
    for i, b, _n in uncond:
        for pos, (_s, sb) in b.bits.items():
            pack_map[(i, pos)] = sb
    E_txt = next(iter(srcs)) if len(srcs) == 1 else None
    ok_src = E_txt is not None
    if ok_src:
        E = lin_opaque(ast.parse(E_txt, mode="eval").body, env)
        diff = E - X
        ok_src = diff.is_const() and diff.c == BIAS
    # ---- reader: exponent
    jret = [n for n in body_walk(uf) if isinstance(n, ast.Return) and n.value is not None]
    def text_parts(e):
        """a decimal text built as f-string, concatenation or str() calls: [('s', literal) | ('e', expression node)]"""
        if isinstance(e, ast.Constant) and isinstance(e.value, str):
            return [("s", e.value)]
        if isinstance(e, ast.JoinedStr):
            out = []
            for v in e.values:
                if isinstance(v, ast.Constant):
                    out.append(("s", v.value))
                elif isinstance(v, ast.FormattedValue) and v.format_spec is None and v.conversion in (-1, 115):
                    out.append(("e", v.value))
                else:
                    return None
            return out
        if isinstance(e, ast.BinOp) and isinstance(e.op, ast.Add):
            a, b = text_parts(e.left), text_parts(e.right)
            return None if a is None or b is None else a + b
        if isinstance(e, ast.Call) and call_name(e) == "str" and len(e.args) == 1 and not e.keywords:
            return [("e", e.args[0])]
        return None
    fl = [c for c in ast.walk(jret[-1].value) if isinstance(c, ast.Call) and call_name(c) == "float" and len(c.args) == 1] if jret else []
    parts = text_parts(su.at(jret[-1], fl[0].args[0]) if isinstance(fl[0].args[0], ast.Name) else fl[0].args[0]) if fl else None
    if not parts or [k for k, _ in parts] != ["e", "s", "e"] or parts[1][1] not in ("E", "e"):
        raise AnalysisError("_unpack_decimal128: the value returned is not float(<mantissa digits> 'E' <exponent>) of a decimal text")
    m_expr, e_expr = parts[0][1], parts[2][1]
    e_sub = su.at(jret[-1], e_expr)
    el = None
    if isinstance(e_sub, ast.BinOp) and isinstance(e_sub.op, ast.Sub) and try_const(e_sub.right, env) == BIAS:
        el = e_sub.left
    elif isinstance(e_sub, ast.BinOp) and isinstance(e_sub.op, ast.Add) and try_const(e_sub.right, env) == -BIAS:
        el = e_sub.left
    ok_exp = False
    detail = ""
    if el is not None and ok_src:
        rb = bv(el, env, byte_arrays={ubuf})
        # compose: reader bit p comes from byte (i, pos) which the writer filled with exponent bit pack_map[(i, pos)]
        comp = {}
        for p, (s_, sb) in rb.bits.items():
            i = int(s_[len(ubuf) + 1:-1]) if s_.startswith(ubuf + "[") and s_[len(ubuf) + 1:-1].isdigit() else None
            comp[p] = pack_map.get((i, sb))
        need = (BIAS + 400).bit_length()
        ok_exp = all(comp.get(p) == p for p in range(need)) and all(v == p for p, v in comp.items() if v is not None) and not rb.ones \
            and all(p < 14 for p in rb.bits)
        detail = f"reader takes exponent bit p from {rb}; writer placed {sorted(pack_map.items())}"
    elif el is None:
        detail = f"the reader's exponent is `{U(e_sub)}`, not <bits> - DECIMAL128_BIAS"
    else:
        detail = f"the writer stores `{E_txt}` which is not the scale exponent + DECIMAL128_BIAS"
    rep.ob("C01.R3", uf, "exponent bits and bias placed identically by pack and unpack", ok_exp, "" if ok_exp else detail, key="C01.R3@exponent-fields")

    # ---- mantissa bytes: writer loop
    wl = [n for n in body_walk(pf) if isinstance(n, ast.While)]
    ok_w = False
    wdetail = "writer loop not recognised"
    if len(wl) == 1:
        loop = wl[0]
        t = loop.test
        mvar = t.id if isinstance(t, ast.Name) else (t.left.id if isinstance(t, ast.Compare) and isinstance(t.left, ast.Name) else None)
        test_ok = isinstance(t, ast.Name) or (isinstance(t, ast.Compare) and len(t.ops) == 1 and (
            (isinstance(t.ops[0], ast.GtE) and try_const(t.comparators[0]) == 1) or (isinstance(t.ops[0], (ast.Gt, ast.NotEq)) and try_const(t.comparators[0]) == 0)))
        lenv = {}
        store = None
        straight = all(isinstance(b, (ast.Assign, ast.AugAssign)) for b in loop.body)
        if mvar and test_ok and straight:
            body_ = []
            for b in loop.body:
                # ``q, r = divmod(m, 2**k)`` is ``r = m & (2**k - 1)`` and ``q = m >> k`` (m is a non-negative int here)
                if isinstance(b, ast.Assign) and len(b.targets) == 1 and isinstance(b.targets[0], ast.Tuple) and len(b.targets[0].elts) == 2 and isinstance(b.value, ast.Call) \
                        and call_name(b.value) == "divmod" and len(b.value.args) == 2:
                    d = try_const(b.value.args[1], env)
                    if isinstance(d, int) and d > 1 and d & (d - 1) == 0:
                        qt, rt = b.targets[0].elts
                        m_ = b.value.args[0]
                        body_.append(ast.copy_location(ast.Assign(targets=[rt], value=ast.BinOp(left=m_, op=ast.BitAnd(), right=ast.Constant(d - 1))), b))
                        body_.append(ast.copy_location(ast.Assign(targets=[qt], value=ast.BinOp(left=m_, op=ast.RShift(), right=ast.Constant(d.bit_length() - 1))), b))
                        continue
                body_.append(b)
            for b in body_:
                if isinstance(b, ast.Assign) and isinstance(b.targets[0], ast.Subscript) and U(b.targets[0].value) == buf:
                    store = (subst(b.targets[0].slice, lenv), subst(b.value, lenv))
                elif isinstance(b, ast.AugAssign) and isinstance(b.target, ast.Name):
                    lenv[b.target.id] = subst(ast.BinOp(left=ast.Name(id=b.target.id, ctx=ast.Load()), op=b.op, right=b.value), lenv)
                elif isinstance(b, ast.Assign) and isinstance(b.targets[0], ast.Name):
                    lenv[b.targets[0].id] = subst(b.value, lenv)
            if store is not None and isinstance(store[0], ast.Name):
                ivar = store[0].id
                sb_ = bv(store[1], env)
                mb = bv(lenv[mvar], env) if mvar in lenv else None
                il = lin_opaque(lenv[ivar], env) if ivar in lenv else None
                i0 = try_const(sp.at(loop, ast.Name(id=ivar, ctx=ast.Load())), env)
                ok_w = (sb_.bits == {p: (mvar, p) for p in range(8)} and not sb_.ones and mb is not None
                        and all(mb.bits.get(p) == (mvar, p + 8) for p in range(64)) and il is not None and (il - Lin(1, {ivar: 1})).is_const()
                        and (il - Lin(1, {ivar: 1})).c == 0 and i0 == 0)
                wdetail = f"byte[{ivar}] <- {sb_}; {mvar} <- {mb}; {ivar} <- {il}; first index {i0}"
    # the same bytes through ``int.to_bytes``: ``buf[:n] = m.to_bytes(n, "little")`` or ``for i, b in enumerate(m.to_bytes(n, "little")): buf[i] = b``
    # with n = (m.bit_length() + 7) // 8 (the bytes the loop above would write) or the constant 14 (all mantissa bytes)
    if not wl:
        tb = None
        for n in body_walk(pf):
            if isinstance(n, ast.Assign) and len(n.targets) == 1 and isinstance(n.targets[0], ast.Subscript) and U(n.targets[0].value) == buf and isinstance(n.targets[0].slice, ast.Slice):
                c = _to_bytes_call(n.value)
                sl = n.targets[0].slice
                if c is not None and sl.step is None and (sl.lower is None or try_const(sl.lower, env) == 0) and sl.upper is not None:
                    tb = (n, c, sp.at(n, sl.upper))
            if isinstance(n, ast.For) and isinstance(n.iter, ast.Call) and call_name(n.iter) == "enumerate" and len(n.iter.args) == 1 and not n.iter.keywords:
                c = _to_bytes_call(n.iter.args[0])
                tg = n.target
                if c is not None and isinstance(tg, ast.Tuple) and len(tg.elts) == 2 and all(isinstance(x, ast.Name) for x in tg.elts) and len(n.body) == 1 \
                        and isinstance(n.body[0], ast.Assign) and U(n.body[0].targets[0]) == f"{buf}[{tg.elts[0].id}]" and U(n.body[0].value) == tg.elts[1].id:
                    tb = (n, c, None)
        if tb is not None:
            n, c, upper = tb
            m_txt = U(c.func.value)
            length = sp.at(n, c.args[0])
            want = U(ast.BinOp(left=ast.BinOp(left=ast.Call(func=ast.Attribute(value=sp.at(n, c.func.value), attr="bit_length", ctx=ast.Load()), args=[], keywords=[]),
                                            op=ast.Add(), right=ast.Constant(7)), op=ast.FloorDiv(), right=ast.Constant(8)))
            len_ok = U(length) == want or try_const(length, env) == 14
            up_ok = upper is None or U(upper) == U(length)
            order = c.args[1] if len(c.args) > 1 else next((k.value for k in c.keywords if k.arg == "byteorder"), None)
            signed = next((k.value for k in c.keywords if k.arg == "signed"), None)
            ok_w = len_ok and up_ok and try_const(order, env) == "little" and (signed is None or try_const(signed, env) is False)
            wdetail = f"{U(c)} with length `{U(length)}` stored at `{U(n.targets[0]) if isinstance(n, ast.Assign) else U(n.body[0].targets[0])}`"
    # ---- mantissa bytes: reader loop
    rl = [n for n in body_walk(uf) if isinstance(n, ast.For)]
    ok_r = False
    rdetail = "reader loop not recognised"
    if len(rl) == 1 and len(rl[0].body) == 1 and isinstance(rl[0].body[0], ast.Assign) and isinstance(rl[0].body[0].targets[0], ast.Name):
        loop = rl[0]
        dom = loop_domain(loop, uf, env)
        acc = loop.body[0].targets[0].id
        step_value = loop.body[0].value
        # ``for b in reversed(buf[:K])`` / ``for b in buf[K-1::-1]``: the bytes K-1 .. 0, named by the element
        it = loop.iter
        seq_k = None
        if isinstance(it, ast.Call) and call_name(it) == "reversed" and len(it.args) == 1 and isinstance(it.args[0], ast.Subscript) and U(it.args[0].value) == ubuf \
                and isinstance(it.args[0].slice, ast.Slice) and it.args[0].slice.lower is None and it.args[0].slice.step is None:
            seq_k = try_const(it.args[0].slice.upper, env)
        elif isinstance(it, ast.Subscript) and U(it.value) == ubuf and isinstance(it.slice, ast.Slice) and try_const(it.slice.step, env) == -1 and it.slice.upper is None:
            lo_ = try_const(it.slice.lower, env)
            seq_k = lo_ + 1 if isinstance(lo_, int) else None
        if isinstance(seq_k, int) and isinstance(loop.target, ast.Name):
            dom = {"var": "__i", "lo": Lin(0), "hi": Lin(seq_k), "step": -1, "elem": loop.target.id, "seq": None}
            step_value = subst(step_value, {loop.target.id: ast.Subscript(value=ast.Name(id=ubuf, ctx=ast.Load()), slice=ast.Name(id="__i", ctx=ast.Load()), ctx=ast.Load())})
        if dom and dom["var"]:
            rb = bv(step_value, env, byte_arrays={ubuf})
            src = f"{ubuf}[{dom['var']}]"
            horner = all(rb.bits.get(p) == (src, p) for p in range(8)) and all(rb.bits.get(p + 8) == (acc, p) for p in range(64)) and not rb.ones
            init = bv(su.at(loop, ast.Name(id=acc, ctx=ast.Load())), env, byte_arrays={ubuf})
            lo, hi = dom["lo"], dom["hi"]
            full = lo.is_const() and hi.is_const() and lo.c == 0 and hi.c == 14
            init_ok = (not init.bits and not init.ones) or (init.bits == {0: (f"{ubuf}[14]", 0)} and not init.ones)
            used_after = U(m_expr) == acc or acc in U(su.at(jret[-1], m_expr))
            ok_r = horner and dom["step"] == -1 and full and init_ok and used_after
            rdetail = f"{acc} <- {rb} for {dom['var']} from {hi.c - 1 if hi.is_const() else hi} down to {lo.c if lo.is_const() else lo} (step {dom['step']}); initial {init}"
    # the same value through ``int.from_bytes(buf[0:14], "little")``, with bit 112 from ``buf[14] & 1`` or-ed / added on top
    if not rl:
        for n in body_walk(uf):
            if isinstance(n, ast.Assign) and len(n.targets) == 1 and isinstance(n.targets[0], ast.Name) and any(
                    isinstance(c, ast.Call) and last_attr(c.func) == "from_bytes" for c in ast.walk(n.value)):
                acc = n.targets[0].id
                parts_ = []
                def split(e):
                    if isinstance(e, ast.BinOp) and isinstance(e.op, (ast.BitOr, ast.Add)):
                        split(e.left), split(e.right)
                    else:
                        parts_.append(e)
                split(n.value)
                fb = [e for e in parts_ if isinstance(e, ast.Call) and last_attr(e.func) == "from_bytes"]
                rest = [e for e in parts_ if e not in fb]
                good = False
                if len(fb) == 1 and U(fb[0].func) == "int.from_bytes" and fb[0].args:
                    a0 = fb[0].args[0]
                    order = fb[0].args[1] if len(fb[0].args) > 1 else next((k.value for k in fb[0].keywords if k.arg == "byteorder"), None)
                    signed = next((k.value for k in fb[0].keywords if k.arg == "signed"), None)
                    good = isinstance(a0, ast.Subscript) and U(a0.value) == ubuf and isinstance(a0.slice, ast.Slice) and a0.slice.step is None \
                        and (a0.slice.lower is None or try_const(a0.slice.lower, env) == 0) and try_const(a0.slice.upper, env) == 14 \
                        and try_const(order, env) == "little" and (signed is None or try_const(signed, env) is False)
                top_ok = True
                for e in rest:
                    b_ = bv(e, env, byte_arrays={ubuf})
                    top_ok = top_ok and b_.bits == {112: (f"{ubuf}[14]", 0)} and not b_.ones
                used_after = U(m_expr) == acc or acc in U(su.at(jret[-1], m_expr))
                ok_r = good and top_ok and len(rest) <= 1 and used_after
                rdetail = f"{acc} <- {U(n.value)[:90]}"
    ok = ok_w and ok_r
    rep.ob("C01.R3", uf, "mantissa bytes little-endian on both sides", ok,
           "" if ok else f"writer: {wdetail}; reader: {rdetail}", key="C01.R3@mantissa-bytes")
    # ---- sign
    sign_w = [(i, b, c, n) for i, b, c, n in writes if c and b.ones and not b.bits]
    neg_txt = {"value<0", f"{pf.args.args[0].arg}<0"}
    ok = len(sign_w) == 1 and sign_w[0][0] == 15 and sign_w[0][1].ones == {7} and U(sign_w[0][2][0].test).replace(" ", "") in neg_txt
    # reader: the mantissa is negated exactly when byte 15 bit 7 is set
    neg = [n for n in body_walk(uf) if isinstance(n, ast.If) and any(isinstance(x, ast.UnaryOp) and isinstance(x.op, ast.USub) for b in n.body for x in ast.walk(b))]
    r_ok = False
    if len(neg) == 1:
        t = su.at(neg[0], neg[0].test)
        # accept  <bits>,  <bits> != 0,  (1 if <bits> else 0) == 1
        core = t
        if isinstance(core, ast.Compare) and len(core.ops) == 1:
            l_, r_ = core.left, core.comparators[0]
            if isinstance(core.ops[0], ast.Eq) and try_const(r_) == 1 and isinstance(l_, ast.IfExp) and try_const(l_.body) == 1 and try_const(l_.orelse) == 0:
                core = l_.test
            elif isinstance(core.ops[0], ast.NotEq) and try_const(r_) == 0:
                core = l_
        sbv = bv(core, env, byte_arrays={ubuf})
        r_ok = sbv.bits == {7: (f"{ubuf}[15]", 7)} and not sbv.ones
    rep.ob("C01.R3", pf, "sign bit placed identically", ok and r_ok,
           "" if ok and r_ok else f"writer sign writes: {[(i, repr(b)) for i, b, c, n in sign_w]}; reader negates on `{U(neg[0].test) if neg else None}`", key="C01.R3@sign")


def _to_bytes_call(e):
    """``<m>.to_bytes(n, order)`` -> the call, else None"""
    if isinstance(e, ast.Call) and isinstance(e.func, ast.Attribute) and e.func.attr == "to_bytes" and e.args:
        return e
    return None


def _anc(n):
    p = getattr(n, "_parent", None)
    while p is not None:
        yield p
        p = getattr(p, "_parent", None)


def _date_epoch_ok(enc) -> bool:
    """DateCell payload = float((<cell value> - E).total_seconds()) where E is EPOCH for naive values."""
    kb = next((k for k in enc.kinds if k.cls == "DateCell"), None)
    if kb is None or kb.value_expr is None:
        return False
    defs = {}
    for n in ast.walk(kb.node):
        if isinstance(n, ast.Assign) and isinstance(n.targets[0], ast.Name):
            defs.setdefault(n.targets[0].id, []).append(n.value)
    ts = [c for c in ast.walk(kb.value_expr) if isinstance(c, ast.Call) and last_attr(c.func) == "total_seconds"]
    if not ts:
        return False
    recv = ts[0].func.value
    cands = [recv]
    if isinstance(recv, ast.Name) and recv.id in defs:
        cands = defs[recv.id]
    ok = bool(cands)
    for c in cands:
        if not (isinstance(c, ast.BinOp) and isinstance(c.op, ast.Sub) and U(c.left) in ("self._value", "self.value")):
            return False
        r = c.right
        rs = [r]
        if isinstance(r, ast.Name) and r.id in defs:
            rs = defs[r.id]
        for x in rs:
            if isinstance(x, ast.IfExp):
                naive = x.body if "is None" in U(x.test) else x.orelse
                ok = ok and U(naive) == "EPOCH"
            else:
                ok = ok and (U(x) == "EPOCH" or U(x).startswith("EPOCH.astimezone("))
    # the naive form must be present
    return ok and "EPOCH" in U(kb.node)


def _name_is_exact(f, name) -> bool:
    """The local ``name`` is a Decimal or a decimal string (so float(name) is one correctly rounded step)."""
    for n in body_walk(f):
        if isinstance(n, ast.Assign) and U(n.targets[0]) == name:
            v = n.value
            if isinstance(v, ast.JoinedStr):
                return True
            if isinstance(v, ast.Call) and last_attr(v.func) in ("Decimal", "scaleb", "str", "format"):
                return True
            return False
    return False


VARIANTS = [
    M("int-before-bool", "cell.py", "        elif isinstance(value, bool):\n            cell = BoolCell(row, col, value)\n        elif isinstance(value, int):\n            cell = NumberCell(row, col, value)\n",
      "        elif isinstance(value, int):\n            cell = NumberCell(row, col, value)\n        elif isinstance(value, bool):\n            cell = BoolCell(row, col, value)\n", "C01.R1"),
    M("date-single-precision", "cell.py", 'value = pack("<d", float(date_delta.total_seconds()))', 'value = pack("<f", float(date_delta.total_seconds()))', "C01.R2"),
    T("decimal128-divmod-reversed-forms", "cell.py", """        buffer[i] = mantissa & 0xFF
        i += 1
        mantissa >>= 8
""", """        mantissa, buffer[i] = divmod(mantissa, 256)
        i += 1
"""),
    T("decimal128-reader-reversed-slice", "cell.py", """    for i in range(13, -1, -1):
        mantissa = mantissa * 256 + buffer[i]
""", """    for byte in reversed(buffer[:14]):
        mantissa = mantissa * 256 + byte
"""),
    M("decimal128-reader-one-byte-short", "cell.py", """    for i in range(13, -1, -1):
        mantissa = mantissa * 256 + buffer[i]
""", """    for byte in reversed(buffer[:13]):
        mantissa = mantissa * 256 + byte
""", "C01.R3"),
    M("decimal128-writer-divmod-128", "cell.py", """        buffer[i] = mantissa & 0xFF
        i += 1
        mantissa >>= 8
""", """        mantissa, buffer[i] = divmod(mantissa, 128)
        i += 1
""", "C01.R3"),
    T("decimal128-text-by-concatenation", "cell.py", '    return float(f"{mantissa}E{exp}")', '    return float(str(mantissa) + "E" + str(exp))'),
    M("decimal128-text-exponent-swapped", "cell.py", '    return float(f"{mantissa}E{exp}")', '    return float(str(exp) + "E" + str(mantissa))', "C01.R3"),
    M("revert-fix-unpack-float-pow", "cell.py", '    return float(f"{mantissa}E{exp}")', "    value = mantissa * 10**exp\n    return float(value)", "C01.R3"),
    M("revert-fix-pack-division", "cell.py", "        mantissa >>= 8", "        mantissa = int(mantissa / 256)", "C01.R3"),
    M("decimal-of-float-direct", "cell.py", "dec = Decimal(repr(value)) if isinstance(value, float) else Decimal(value)", "dec = Decimal(value)", "C01.R3"),
    M("mantissa-16-digits", "cell.py", "exp = (dec.adjusted() if dec != 0 else 0) - 16", "exp = (dec.adjusted() if dec != 0 else 0) - MAX_SIGNIFICANT_DIGITS", "C01.R3"),
    M("duration-days", "cell.py", 'value = pack("<d", float(self.value.total_seconds()))', 'value = pack("<d", float(self.value.seconds))', "C01.R2"),
    M("bool-threshold", "cell.py", "cell = BoolCell(row, col, double > 0.0)", "cell = BoolCell(row, col, double > 1.0)", "C01.R2"),
    M("date-other-epoch", "cell.py", "cell = DateCell(row, col, EPOCH + timedelta(seconds=seconds))", "cell = DateCell(row, col, datetime(2001, 1, 1, 0, 0, 1) + timedelta(seconds=seconds))", "C01.R2"),
    M("string-key-cached", "model.py", "    def table_string_key(self, table_id: int, value: str) -> int:", "    @cache(num_args=2)\n    def table_string_key(self, table_id: int, value: str) -> int:", "C01.R4"),
    M("text-flag-wrong", "cell.py", "            flags = 8\n            length += 4\n            cell_type = TSTArchives.textCellType", "            flags = 0x10\n            length += 4\n            cell_type = TSTArchives.textCellType", "C01.R2"),
    M("exponent-bias-mismatch", "cell.py", "exp = (((buffer[15] & 0x7F) << 7) | (buffer[14] >> 1)) - DECIMAL128_BIAS", "exp = (((buffer[15] & 0x7F) << 7) | (buffer[14] >> 1)) - DECIMAL128_BIAS + 0", "ANALYSIS-SKIP"),
    T("decimal128-writer-to-bytes-slice", "cell.py", '    i = 0\n    while mantissa >= 1:\n        buffer[i] = mantissa & 0xFF\n        i += 1\n        mantissa >>= 8\n',
      "    num_bytes = (mantissa.bit_length() + 7) // 8\n    buffer[:num_bytes] = mantissa.to_bytes(num_bytes, \"little\")\n"),
    T("decimal128-writer-to-bytes-enumerate", "cell.py", '    i = 0\n    while mantissa >= 1:\n        buffer[i] = mantissa & 0xFF\n        i += 1\n        mantissa >>= 8\n',
      "    for i, byte in enumerate(mantissa.to_bytes((mantissa.bit_length() + 7) // 8, \"little\")):\n        buffer[i] = byte\n"),
    M("decimal128-writer-to-bytes-big", "cell.py", '    i = 0\n    while mantissa >= 1:\n        buffer[i] = mantissa & 0xFF\n        i += 1\n        mantissa >>= 8\n',
      "    num_bytes = (mantissa.bit_length() + 7) // 8\n    buffer[:num_bytes] = mantissa.to_bytes(num_bytes, \"big\")\n", "C01.R3"),
    M("decimal128-writer-to-bytes-over-exponent", "cell.py", '    i = 0\n    while mantissa >= 1:\n        buffer[i] = mantissa & 0xFF\n        i += 1\n        mantissa >>= 8\n',
      "    buffer[:15] = mantissa.to_bytes(15, \"little\")\n", "C01.R3"),
    T("decimal128-reader-from-bytes", "cell.py", '    mantissa = buffer[14] & 1\n    for i in range(13, -1, -1):\n        mantissa = mantissa * 256 + buffer[i]\n',
      "    mantissa = ((buffer[14] & 1) << 112) | int.from_bytes(buffer[0:14], \"little\")\n"),
    M("decimal128-reader-from-bytes-13", "cell.py", '    mantissa = buffer[14] & 1\n    for i in range(13, -1, -1):\n        mantissa = mantissa * 256 + buffer[i]\n',
      "    mantissa = ((buffer[14] & 1) << 112) | int.from_bytes(buffer[0:13], \"little\")\n", "C01.R3"),
    M("decimal128-reader-from-bytes-top-bit-low", "cell.py", '    mantissa = buffer[14] & 1\n    for i in range(13, -1, -1):\n        mantissa = mantissa * 256 + buffer[i]\n',
      "    mantissa = ((buffer[14] & 1) << 104) | int.from_bytes(buffer[0:14], \"little\")\n", "C01.R3"),
    M("decimal128-reader-from-bytes-big", "cell.py", '    mantissa = buffer[14] & 1\n    for i in range(13, -1, -1):\n        mantissa = mantissa * 256 + buffer[i]\n',
      "    mantissa = ((buffer[14] & 1) << 112) | int.from_bytes(buffer[0:14], \"big\")\n", "C01.R3"),
    M("lookup-key-returns-advanced-key", "model.py", '            key = self._datalists[table_id]["next_key"]\n            self._datalists[table_id]["next_key"] += 1\n',
      "            self._datalists[table_id][\"next_key\"] += 1\n            key = self._datalists[table_id][\"next_key\"]\n", "C01.R2"),
    M("lookup-key-next-key-stuck", "model.py", '            key = self._datalists[table_id]["next_key"]\n            self._datalists[table_id]["next_key"] += 1\n',
      "            key = self._datalists[table_id][\"next_key\"]\n", "C01.R2"),
    M("lookup-key-entry-without-value", "model.py", 'attrs = {"key": key, self._value_attr: value, "refcount": 1}', 'attrs = {"key": key, "refcount": 1}', "C01.R2"),
    M("lookup-key-by-value-keyed-by-key", "model.py", 'self._datalists[table_id]["by_value"][value_key] = key', 'self._datalists[table_id]["by_value"][key] = value_key', "C01.R2"),
    M("value-key-stripped-text", "model.py", '            return repr(value)\n        return value\n',
      '            return repr(value)\n        return value.strip() if isinstance(value, str) else value\n', "C01.R2"),
    M("value-key-casefolded-branch", "model.py", '            return repr(value)\n        return value\n',
      '            return repr(value)\n        if isinstance(value, str):\n            return value.casefold()\n        return value\n', "C01.R2"),
    T("value-key-conditional-expression", "model.py", '        if hasattr(value, "DESCRIPTOR"):\n            return repr(value)\n        return value\n',
      '        return repr(value) if hasattr(value, "DESCRIPTOR") else value\n'),
    T("from-value-reordered-safe", "cell.py", "        if isinstance(value, str):\n            cell = TextCell(row, col, value)\n        elif isinstance(value, bool):\n            cell = BoolCell(row, col, value)\n",
      "        if isinstance(value, bool):\n            cell = BoolCell(row, col, value)\n        elif isinstance(value, str):\n            cell = TextCell(row, col, value)\n"),
]
VARIANTS = [v for v in VARIANTS if v.expect != "ANALYSIS-SKIP"]


def _value_key_problem(vk):
    """Every value returned by ``value_key`` is the value itself, ``repr(value)`` (messages), or a tuple display that
    holds the value itself: anything else (a normalised, folded, truncated or hashed text) may give two different
    strings one key, and the second string is then saved as the first.  Returns a reason, or None."""
    param = vk.args.args[-1].arg if vk.args.args else "value"

    def leaves(e):
        if isinstance(e, ast.IfExp):
            return leaves(e.body) + leaves(e.orelse)
        return [e]

    def injective(e):
        if isinstance(e, ast.Name) and e.id == param:
            return True
        if isinstance(e, ast.Call) and isinstance(e.func, ast.Name) and e.func.id == "repr" and len(e.args) == 1 and not e.keywords and injective(e.args[0]):
            return True
        if isinstance(e, ast.Tuple) and any(isinstance(x, ast.Name) and x.id == param for x in e.elts):
            return True
        return False

    rebinds = [n for n in ast.walk(vk) if isinstance(n, ast.Name) and n.id == param and isinstance(n.ctx, ast.Store)]
    if rebinds:
        return f"`{param}` is rebound at line {rebinds[0].lineno} before it is used as the key"
    for r in ast.walk(vk):
        if isinstance(r, ast.Return):
            for leaf in leaves(r.value) if r.value is not None else [None]:
                if leaf is None or not injective(leaf):
                    return f"line {r.lineno} returns `{U(leaf) if leaf is not None else None}`, which is not the value itself: two different values may share a key and the second is saved as the first"
    return None


def _lookup_key_problem(repo, lk):
    """The decision table of ``lookup_key`` (function summary, stores as effects over the state on entry):
    a value already in ``by_value`` returns the key stored there and allocates nothing; a new value returns the old
    ``next_key``, advances ``next_key``, and files one entry carrying that key and the value under ``by_key[key]`` and
    ``by_value[value_key(value)]``.  Returns a reason, or None."""
    from ..funsum import Summarizer
    paths = Summarizer(consts=repo.consts, effect_calls={"*"}).summarize(lk)
    hit, miss = [], []
    D = None
    for p in paths:
        known = None
        for c, outcome in p.conds:
            if isinstance(c, ast.Compare) and len(c.ops) == 1 and isinstance(c.ops[0], (ast.In, ast.NotIn)) and U(c.comparators[0]).endswith("['by_value']"):
                if U(c.left).replace(" ", "") != "self.value_key(value)":
                    return f"membership is tested with `{U(c.left)}`, not with the value's key"
                D = U(c.comparators[0])[: -len("['by_value']")]
                known = isinstance(c.ops[0], ast.In) == bool(outcome)
        if known is None:
            return "a path that does not ask whether the value is already listed"
        (hit if known else miss).append(p)
    if not hit or not miss or D is None:
        return "no distinction between a listed and a new value"
    vk = "self.value_key(value)"
    for p in hit:
        stores = {k for k, _v, _n in p.effects}
        if p.kind != "return" or U(p.ret) != f"{D}['by_value'][{vk}]":
            return f"a listed value returns `{U(p.ret) if p.ret is not None else None}`, not the key stored for it"
        if any(k.startswith((f"{D}['by_value']", f"{D}['by_key']", f"{D}['next_key']")) for k in stores):
            return "a listed value re-files or re-numbers entries"
    k0 = f"{D}['next_key']"
    for p in miss:
        fx = {k: (U(v) if not isinstance(v, str) else v) for k, v, _n in p.effects}
        if p.kind != "return" or U(p.ret) != k0:
            return f"a new value returns `{U(p.ret) if p.ret is not None else None}`, not the key it was filed under (`{k0}` on entry)"
        nxt = fx.get(k0, "")
        ok_next = nxt.startswith(k0 + " + ") and nxt[len(k0) + 3:].isdigit() and int(nxt[len(k0) + 3:]) >= 1
        if not ok_next:
            return f"next_key becomes `{nxt or 'unchanged'}`: the next new value would get the same key"
        if fx.get(f"{D}['by_value'][{vk}]") != k0:
            return "the new key is not recorded under the value's key in by_value"
        ent = fx.get(f"{D}['by_key'][{k0}]")
        if ent is None:
            return "the new entry is not recorded under its key in by_key"
        flat = ent.replace(" ", "")
        if not ((f"'key':{k0}".replace(" ", "") in flat or f"key={k0}".replace(" ", "") in flat) and ("self._value_attr:value" in flat)):
            return f"the entry filed under the new key is `{ent[:80]}`: it does not carry both the key and the value"
        if not any(k.startswith("call:") and k.endswith(".entries.append") and (U(v) if not isinstance(v, str) else v) == ent for k, v, _n in p.effects):
            return "the new entry is not appended to the list that is saved"
    return None


_PYTYPES = {"str": str, "bool": bool, "int": int, "float": float, "datetime": __import__("datetime").datetime, "timedelta": __import__("datetime").timedelta,
            "date": __import__("datetime").date, "object": object, "bytes": bytes, "list": list, "tuple": tuple, "dict": dict, "type(None)": type(None),
            "Decimal": __import__("decimal").Decimal, "complex": complex}


def _from_value_table(repo, rep, fv):
    """R1 as a decision table: the function summary of ``_from_value`` is asked, for a value of each Python type a cell can
    hold, which cell class it returns and with which arguments (the order of the tests matters only through this answer:
    ``bool`` is an ``int``, ``datetime`` is a ``date``); a value of any other type must be refused."""
    from ..funsum import Summarizer, decide
    paths = Summarizer(consts=repo.consts).summarize(fv)
    atoms = {}
    for p in paths:
        for c, _o in p.conds:
            for n in ast.walk(c):
                if isinstance(n, ast.Call) and call_name(n) == "isinstance" and len(n.args) == 2 and U(n.args[0]) == "value":
                    atoms[U(n)] = n.args[1]
    if not atoms and not any("type(value)" in U(c) for p in paths for c, _o in p.conds):
        raise AnalysisError("Cell._from_value: no test on the type of the value found")

    def scenario(pytype):
        sc = {"type(value)": pytype}
        sc.update(_PYTYPES)
        for text, tnode in atoms.items():
            names = [U(e) for e in tnode.elts] if isinstance(tnode, ast.Tuple) else [U(tnode)]
            unknown = [x for x in names if x not in _PYTYPES]
            if unknown:
                raise AnalysisError(f"Cell._from_value: isinstance against `{unknown[0]}`, a type outside the table of value types")
            sc[text] = pytype is not None and any(issubclass(pytype, _PYTYPES[x]) for x in names)
        return sc

    seen = []
    for ty, want in EXPECT_CLASS.items():
        outs = decide(paths, scenario(_PYTYPES[ty]), limit=6)
        bad_cls, bad_val, got = None, None, None
        for _fx, kind, text, pth in outs:
            call = None
            if kind == "return" and text:
                try:
                    e = ast.parse(text, mode="eval").body
                    call = e if isinstance(e, ast.Call) else None
                except SyntaxError:
                    call = None
            cls = call_name(call) if call is not None else None
            cargs = [U(a) for a in call.args] if call is not None else []
            got = f"{cls}({', '.join(cargs)})" if cls else f"{kind} {text}"
            if cls != want or cargs[:2] != ["row", "col"]:
                bad_cls = (got, pth)
            elif ty != "float" and not (len(cargs) == 3 and cargs[2] == "value"):
                bad_val = (got, pth)
        nd = (bad_cls or bad_val or (None, outs[0][3] if outs else None))[1]
        nd = nd.node if nd is not None and hasattr(nd, "node") and nd.node is not None else fv
        sup = SUBCLASS_OF.get(ty)
        if sup in EXPECT_CLASS:
            oko = not (bad_cls and EXPECT_CLASS[sup] in bad_cls[0])
            rep.ob("C01.R1", nd, f"_from_value: isinstance(value, {ty}) tested before its superclass", oko,
                   "" if oko else f"{ty} is a subclass of {sup} which is tested earlier: every {ty} is stored as the cell kind of {sup}",
                   key=f"C01.R1@from_value:order:{ty}")
        rep.ob("C01.R1", nd, f"_from_value: {ty} -> {(bad_cls or (got,))[0]}", bad_cls is None,
               "" if bad_cls is None else f"expected {want}(row, col, ...)", key=f"C01.R1@from_value:class:{ty}")
        if ty != "float":
            rep.ob("C01.R1", nd, f"_from_value: {ty} cell holds the written value itself", bad_val is None and bad_cls is None,
                   "" if bad_val is None else f"got {bad_val[0]}", key=f"C01.R1@from_value:value:{ty}")
        if bad_cls is None:
            seen.append(ty)
    missing = [t for t in EXPECT_CLASS if t not in seen]
    rep.ob("C01.R1", fv, f"_from_value handles {sorted(EXPECT_CLASS)}", not missing, f"missing {missing}", key="C01.R1@from_value:complete")
    outs = decide(paths, scenario(type("_Other", (), {})), limit=6)
    ok = bool(outs) and all(kind == "raise" for _fx, kind, _t, _p in outs)
    rep.ob("C01.R1", fv, "_from_value refuses other types", ok, "" if ok else f"a value of another type gives {[(k, t) for _f, k, t, _p in outs][:2]}",
           key="C01.R1@from_value:else")

"""C01 — values written to cells are read back exactly after save and reopen."""

from __future__ import annotations

import ast

from .. import pb
from ..cellcodec import V5_WIDTH, extract_decoder, extract_encoder
from ..core import AnalysisError, U, body_walk, call_name, last_attr, try_const
from ..selftest import M, T

EXPLANATION = (
    "three places where exactness is kept or lost by construction: (R1) the isinstance dispatch of Cell._from_value tests "
    "subclasses before superclasses and builds the matching cell class; (R2) per cell kind the encoder and the decoder use the "
    "same flag bit, struct format, type number and mutually inverse value expressions; (R3) the decimal128 codec contains no "
    "float-rounding operation before its single final conversion; (R4) nothing on the string-key path is memoised across the "
    "per-save reset of the string list"
)
TRUSTED = ["python ast", "struct.calcsize", "builtin type lattice (bool<int, datetime<date)", "TSTArchives descriptor", "exactness table of arithmetic operators"]

SUBCLASS_OF = {"bool": "int", "datetime": "date"}
EXPECT_CLASS = {"str": "TextCell", "bool": "BoolCell", "int": "NumberCell", "float": "NumberCell", "datetime": "DateCell", "timedelta": "DurationCell"}

# operations that round in binary floating point (forbidden inside the decimal codec)
ROUNDING_CALLS = {"pow", "log", "log10", "log2", "exp", "sqrt", "fsum", "ldexp", "frexp"}


def run(repo, rep, tier):
    # ---- R1 dispatch order
    fv = repo.func("cell.py", "Cell._from_value")
    chain = [n for n in fv.body if isinstance(n, ast.If)]
    if not chain:
        raise AnalysisError("Cell._from_value: isinstance chain not found")
    node = chain[0]
    order = []
    while True:
        t = node.test
        typ = None
        if isinstance(t, ast.Call) and call_name(t) == "isinstance" and len(t.args) == 2 and U(t.args[0]) == "value":
            typ = U(t.args[1])
        cls = None
        for b in ast.walk(ast.Module(body=node.body, type_ignores=[])):
            if isinstance(b, ast.Assign) and U(b.targets[0]) == "cell" and isinstance(b.value, ast.Call):
                cls = call_name(b.value)
                cargs = [U(a) for a in b.value.args]
        order.append((typ, cls, node, cargs if cls else []))
        if len(node.orelse) == 1 and isinstance(node.orelse[0], ast.If):
            node = node.orelse[0]
        else:
            tail = node.orelse
            break
    seen = []
    for typ, cls, nd, cargs in order:
        types = [typ] if typ and not typ.startswith("(") else [x.strip() for x in (typ or "").strip("()").split(",")]
        for ty in types:
            sup_seen = [s for s in seen if SUBCLASS_OF.get(ty) == s]
            ok = not sup_seen
            rep.ob("C01.R1", nd, f"_from_value: isinstance(value, {ty}) tested before its superclass", ok,
                   "" if ok else f"{ty} is a subclass of {sup_seen[0]} which is tested earlier: every {ty} is stored as the cell kind of {sup_seen[0]}",
                   key=f"C01.R1@from_value:order:{ty}")
            if ty in EXPECT_CLASS:
                okc = cls == EXPECT_CLASS[ty] and cargs[:2] == ["row", "col"]
                rep.ob("C01.R1", nd, f"_from_value: {ty} -> {cls}({', '.join(cargs)})", okc,
                       "" if okc else f"expected {EXPECT_CLASS[ty]}(row, col, ...)", key=f"C01.R1@from_value:class:{ty}")
                if ty != "float":
                    okv = len(cargs) == 3 and cargs[2] == "value"
                    rep.ob("C01.R1", nd, f"_from_value: {ty} cell holds the written value itself", okv, "", key=f"C01.R1@from_value:value:{ty}")
            seen.append(ty)
    missing = [t for t in EXPECT_CLASS if t not in seen]
    rep.ob("C01.R1", fv, f"_from_value handles {sorted(EXPECT_CLASS)}", not missing, f"missing {missing}", key="C01.R1@from_value:complete")
    ok = any(isinstance(x, ast.Raise) for x in ast.walk(ast.Module(body=tail, type_ignores=[])))
    rep.ob("C01.R1", fv, "_from_value refuses other types", ok, "", key="C01.R1@from_value:else")
    # float rounding keeps 15 significant digits
    fl = [n for n in body_walk(fv) if isinstance(n, ast.Call) and call_name(n) == "sigfig"]
    ok = bool(fl) and any(kw.arg == "sigfigs" and U(kw.value) == "MAX_SIGNIFICANT_DIGITS" for kw in fl[0].keywords) and repo.consts.get("MAX_SIGNIFICANT_DIGITS") == 15
    rep.ob("C01.R1", fl[0] if fl else fv, "float values are rounded to MAX_SIGNIFICANT_DIGITS = 15 only", ok, "", key="C01.R1@from_value:sigfigs")
    # Table.write stores the written value
    uv = repo.func("cell.py", "Cell._update_value")
    st = [U(n) for n in body_walk(uv) if isinstance(n, ast.Assign)]
    ok = "self._value = value" in st
    rep.ob("C01.R1", uv, "_update_value stores the written value", ok, "", key="C01.R1@update_value")

    # ---- R2 kind codec agreement
    dec = extract_decoder(repo)
    enc = extract_encoder(repo)
    tst = pb.enum_values(repo, "TSTArchives")
    consts = repo.consts

    def type_num(expr_txt):
        out = set()
        for part in expr_txt.split("|"):
            part = part.strip()
            name = part.split(".")[-1]
            if part in consts:
                out.add(consts[part])
            elif name in consts:
                out.add(consts[name])
            elif name in tst:
                out.add(tst[name])
            else:
                out.add(None)
        return out

    # decoder variables -> (mask, fmt)
    var_src = {r.target: (r.mask, r.fmt) for r in dec.reads if not r.skipped}
    dkinds = {}
    for texpr, cls, call, nd in dec.kinds:
        dkinds.setdefault(cls, []).append((type_num(texpr), call, nd))
    expect = {
        # class: (flag, fmt, decoder variable, encoder value shape, decoder value shape)
        "NumberCell": (0x1, "d128", "d128"),
        "TextCell": (0x8, "<i", "_string_id"),
        "DateCell": (0x4, "<d", "seconds"),
        "BoolCell": (0x2, "<d", "double"),
        "DurationCell": (0x2, "<d", "double"),
    }
    for kb in enc.kinds:
        cls = kb.cls
        if cls not in expect:
            continue
        flag, fmt, var = expect[cls]
        ok = kb.flags == flag and kb.payload_fmt == fmt
        rep.ob("C01.R2", kb.node, f"encoder {cls}: flag {kb.flags:#x}, format {kb.payload_fmt}", ok,
               "" if ok else f"expected flag {flag:#x} and format {fmt}", key=f"C01.R2@enc:{cls}")
        # decoder side reads the variable under the same flag and format
        vs = var_src.get(var)
        okd = vs is not None and vs[0] == kb.flags and vs[1] == kb.payload_fmt
        rep.ob("C01.R2", dec.func, f"decoder reads `{var}` under flag {vs and hex(vs[0])} with format {vs and vs[1]}", okd,
               "" if okd else f"encoder writes {cls} under flag {kb.flags:#x}/{kb.payload_fmt}: the two sides disagree", key=f"C01.R2@dec:{cls}")
        # type numbers
        etypes = type_num(kb.type_expr)
        dk = dkinds.get(cls, [])
        dtypes = set()
        for tn, _, _ in dk:
            dtypes |= tn
        okt = bool(dk) and None not in etypes and etypes <= dtypes
        rep.ob("C01.R2", kb.node, f"{cls}: type byte(s) {sorted(x for x in etypes if x is not None)} decoded to the same class", okt,
               "" if okt else f"decoder maps type(s) {sorted(x for x in dtypes if x is not None)} to {cls}", key=f"C01.R2@type:{cls}")
        # the decoder builds the class from the variable read above
        for tn, call, nd in dk:
            a = [U(x) for x in call.args] if call else []
            used = var in U(call) if call else False
            rep.ob("C01.R2", nd, f"decoder {cls}({', '.join(a)}) built from `{var}` at (row, col)", used and a[:2] == ["row", "col"], "", key=f"C01.R2@build:{cls}:{sorted(tn)}")
    # inverse value expressions
    ev = {kb.cls: U(kb.value_expr) if kb.value_expr is not None else "" for kb in enc.kinds}
    dv = {cls: U(call.args[2]) if call and len(call.args) >= 3 else "" for _, cls, call, _ in dec.kinds}
    encsrc = U(enc.func)
    checks = [
        ("NumberCell", "_pack_decimal128(self.value)" in ev.get("NumberCell", ""), dv.get("NumberCell") == "d128" and "_unpack_decimal128(" in U(dec.func)),
        ("TextCell", "self._model.table_string_key(self._table_id, self.value)" in ev.get("TextCell", ""), dv.get("TextCell") == "model.table_string(table_id, storage_flags._string_id)"),
        ("DateCell", _date_epoch_ok(enc), dv.get("DateCell") == "EPOCH + timedelta(seconds=seconds)"),
        ("BoolCell", "float(self.value)" in ev.get("BoolCell", ""), dv.get("BoolCell") in ("double > 0.0", "double != 0.0", "bool(double)")),
        ("DurationCell", "float(self.value.total_seconds())" in ev.get("DurationCell", ""), dv.get("DurationCell") == "timedelta(seconds=double)"),
    ]
    for cls, eok, dok in checks:
        rep.ob("C01.R2", enc.func, f"{cls}: written as `{ev.get(cls)}`", eok, "" if eok else "value expression is not the documented encoding", key=f"C01.R2@value:enc:{cls}")
        rep.ob("C01.R2", dec.func, f"{cls}: read as `{dv.get(cls)}`", dok, "" if dok else "value expression is not the inverse of the encoder's", key=f"C01.R2@value:dec:{cls}")
    # string table: key allocation and lookup go to the same list
    tk = repo.func("model.py", "_NumbersModel.table_string_key")
    tsf = repo.func("model.py", "_NumbersModel.table_string")
    ok = "self._table_strings.lookup_key(table_id, value)" in U(tk) and "self._table_strings.lookup_value(table_id, key).string" in U(tsf)
    rep.ob("C01.R2", tk, "text keys are allocated in and resolved from the same string list", ok, "", key="C01.R2@strings:same-list")
    lk = repo.func("model.py", "DataLists.lookup_key")
    s = U(lk)
    ok = "value_key not in self._datalists[table_id]['by_value']" in s and "self._datalists[table_id]['by_value'][value_key] = key" in s \
        and "self._datalists[table_id]['by_key'][key] = entry" in s and "self._datalists[table_id]['next_key'] += 1" in s and "'key': key" in s
    rep.ob("C01.R2", lk, "lookup_key allocates a fresh key per distinct value and indexes it both ways", ok, "", key="C01.R2@strings:lookup_key")
    vk = repo.func("model.py", "DataLists.value_key")
    ok = U(vk).replace(" ", "").endswith("returnvalue") and "repr(value)" in U(vk)
    rep.ob("C01.R2", vk, "distinct strings have distinct value keys (identity for plain values)", ok, "", key="C01.R2@strings:value_key")

    # ---- R3 exact decimal codec
    for fn in ("_pack_decimal128", "_unpack_decimal128"):
        f = repo.func("cell.py", fn)
        n_ops = 0
        for n in body_walk(f):
            bad = None
            if isinstance(n, ast.BinOp):
                n_ops += 1
                if isinstance(n.op, ast.Div):
                    bad = f"true division `{U(n)}` rounds in binary floating point"
                elif isinstance(n.op, ast.Pow):
                    e = try_const(n.right, repo.consts)
                    if not (isinstance(e, int) and e >= 0):
                        bad = f"`{U(n)}`: a power with a possibly negative exponent is a float"
                elif isinstance(n.op, ast.Mult):
                    for side in (n.left, n.right):
                        if isinstance(side, ast.Constant) and isinstance(side.value, float):
                            bad = f"`{U(n)}` multiplies by a float constant"
            elif isinstance(n, ast.AugAssign):
                n_ops += 1
                if isinstance(n.op, ast.Div):
                    bad = f"`{U(n)}` is a float division"
            elif isinstance(n, ast.Call):
                nm = last_attr(n.func)
                n_ops += 1
                if nm in ROUNDING_CALLS and (isinstance(n.func, ast.Attribute) and U(n.func.value) == "math" or isinstance(n.func, ast.Name)):
                    bad = f"`{U(n)[:60]}` is a rounding floating point function"
                elif nm == "float" and n.args:
                    a = n.args[0]
                    exact_src = isinstance(a, (ast.JoinedStr, ast.Constant)) or (isinstance(a, ast.Call) and last_attr(a.func) in ("str", "format", "Decimal")) \
                        or isinstance(a, ast.Name)
                    # float(<name>) is accepted only as the final conversion of a Decimal/str value (returned directly)
                    if isinstance(a, ast.Name):
                        exact_src = isinstance(getattr(n, "_parent", None), ast.Return) and _name_is_exact(f, a.id)
                    if not exact_src:
                        bad = f"`{U(n)[:60]}` converts a binary intermediate"
                elif nm == "Decimal" and n.args and isinstance(n.args[0], ast.BinOp):
                    bad = f"`{U(n)[:60]}`: Decimal of an already rounded expression"
            if bad:
                rep.ob("C01.R3", n, f"{fn}: {U(n)[:70]}", False,
                       bad + ": the stored mantissa/exponent (or the value read back) can differ by one ulp from the value written (12 -> 12.000000000000002)",
                       key=f"C01.R3@{fn}:{type(n).__name__}:{U(n)[:50]}")
        rep.ob("C01.R3", f, f"{fn}: {n_ops} arithmetic operations inspected, all exact up to one final conversion",
               not any(o.rule == "C01.R3" and not o.ok and fn in o.construct for o in rep.obs), "", key=f"C01.R3@{fn}:summary")
    # a float must enter Decimal through its shortest repr, never directly (Decimal(float) is the exact binary expansion)
    pfn = repo.func("cell.py", "_pack_decimal128")
    pparam = pfn.args.args[0].arg
    for c in [n for n in body_walk(pfn) if isinstance(n, ast.Call) and last_attr(n.func) == "Decimal" and n.args]:
        a = c.args[0]
        direct = isinstance(a, ast.Name) and a.id == pparam
        if not direct:
            continue
        guarded = False
        child = c
        for p in _anc(c):
            if isinstance(p, ast.IfExp) and U(p.test).replace(" ", "") == f"isinstance({pparam},float)" and child is p.orelse:
                guarded = True
            if isinstance(p, ast.If) and U(p.test).replace(" ", "") == f"isinstance({pparam},float)" and any(child is x or any(child is y for y in ast.walk(x)) for x in p.orelse):
                guarded = True
            if isinstance(p, ast.If) and U(p.test).replace(" ", "") in (f"notisinstance({pparam},float)", f"isinstance({pparam},int)") and any(child is x or any(child is y for y in ast.walk(x)) for x in p.body):
                guarded = True
            child = p
        rep.ob("C01.R3", c, f"_pack_decimal128: `{U(c)}` is reached for non-float values only", guarded,
               "" if guarded else "Decimal(float) is the exact binary expansion (1000000.1 -> 1000000.0999999999767...); truncating it to 17 digits stores a value one ulp low for some 15-digit floats",
               key="C01.R3@_pack_decimal128:decimal-of-float")
    # the integer mantissa keeps every significant digit of the float (repr needs at most 17)
    pf = repo.func("cell.py", "_pack_decimal128")
    kk = None
    knode = pf
    for n in body_walk(pf):
        if isinstance(n, ast.Assign) and U(n.targets[0]) == "exp" and isinstance(n.value, ast.BinOp) and isinstance(n.value.op, ast.Sub) and "adjusted()" in U(n.value.left):
            kk = try_const(n.value.right, repo.consts)
            knode = n
        if isinstance(n, ast.AugAssign) and U(n.target) == "exp" and isinstance(n.op, ast.Sub) and kk is None and isinstance(try_const(n.value, repo.consts), int):
            prev = [a for a in body_walk(pf) if isinstance(a, ast.Assign) and U(a.targets[0]) == "exp" and "adjusted()" in U(a.value)]
            if prev:
                kk = try_const(n.value, repo.consts)
                knode = n
    if kk is not None:
        ok = isinstance(kk, int) and 16 <= kk <= 33
        rep.ob("C01.R3", knode, f"_pack_decimal128: mantissa scaled to {kk + 1 if isinstance(kk, int) else kk} significant digits", ok,
               "" if ok else f"`int(dec.scaleb(...))` truncates: with {kk + 1 if isinstance(kk, int) else kk} digits kept, floats whose shortest repr has 17 digits (29.999999999999996) lose their last digit on every save",
               key="C01.R3@_pack_decimal128:digits")
    else:
        rep.info("C01.R3", "_pack_decimal128: digit count of the scaled mantissa not recognised (no verdict)")
    # bias and field placement agree between pack and unpack
    pk, up = U(repo.func("cell.py", "_pack_decimal128")).replace(" ", ""), U(repo.func("cell.py", "_unpack_decimal128")).replace(" ", "")
    ok = "buffer[15]|=exp>>7" in pk and "buffer[14]|=(exp&127)<<1" in pk and "(buffer[15]&127)<<7|buffer[14]>>1" in up and "DECIMAL128_BIAS" in pk and "-DECIMAL128_BIAS" in up
    rep.ob("C01.R3", repo.func("cell.py", "_unpack_decimal128"), "exponent bits and bias placed identically by pack and unpack", ok, "", key="C01.R3@exponent-fields")
    ok = "buffer[i]=mantissa&255" in pk and "mantissa=mantissa*256+buffer[i]" in up and "range(13,-1,-1)" in up
    rep.ob("C01.R3", repo.func("cell.py", "_unpack_decimal128"), "mantissa bytes little-endian on both sides", ok, "", key="C01.R3@mantissa-bytes")
    ok = "ifvalue<0:buffer[15]|=128" in pk.replace("\n", "") and "buffer[15]&128" in up
    rep.ob("C01.R3", repo.func("cell.py", "_pack_decimal128"), "sign bit placed identically", ok, "", key="C01.R3@sign")

    # ---- R4 string keys are never memoised across the per-save reset
    path = [("cell.py", "Cell._to_buffer"), ("model.py", "_NumbersModel.table_string_key"), ("model.py", "DataLists.lookup_key"),
            ("model.py", "_NumbersModel.recalculate_row_info"), ("model.py", "_NumbersModel.recalculate_table_data"), ("model.py", "_NumbersModel.init_table_strings"),
            ("model.py", "DataLists.init")]
    for rel, q in path:
        f = repo.func(rel, q)
        cached = [U(d) for d in f.decorator_list if "cache" in U(d)]
        rep.ob("C01.R4", f, f"{q} is not memoised", not cached,
               "" if not cached else f"{cached}: the string list is emptied and re-keyed on every save, a memoised key from an earlier save points at another string",
               key=f"C01.R4@{q}")
    rep.floor("C01.R1", 12)
    rep.floor("C01.R2", 25)
    rep.floor("C01.R3", 5)
    rep.floor("C01.R4", 7)


def _anc(n):
    p = getattr(n, "_parent", None)
    while p is not None:
        yield p
        p = getattr(p, "_parent", None)


def _date_epoch_ok(enc) -> bool:
    """DateCell payload = float((<cell value> - E).total_seconds()) where E is EPOCH for naive values."""
    kb = next((k for k in enc.kinds if k.cls == "DateCell"), None)
    if kb is None or kb.value_expr is None:
        return False
    defs = {}
    for n in ast.walk(kb.node):
        if isinstance(n, ast.Assign) and isinstance(n.targets[0], ast.Name):
            defs.setdefault(n.targets[0].id, []).append(n.value)
    ts = [c for c in ast.walk(kb.value_expr) if isinstance(c, ast.Call) and last_attr(c.func) == "total_seconds"]
    if not ts:
        return False
    recv = ts[0].func.value
    cands = [recv]
    if isinstance(recv, ast.Name) and recv.id in defs:
        cands = defs[recv.id]
    ok = bool(cands)
    for c in cands:
        if not (isinstance(c, ast.BinOp) and isinstance(c.op, ast.Sub) and U(c.left) in ("self._value", "self.value")):
            return False
        r = c.right
        rs = [r]
        if isinstance(r, ast.Name) and r.id in defs:
            rs = defs[r.id]
        for x in rs:
            if isinstance(x, ast.IfExp):
                naive = x.body if "is None" in U(x.test) else x.orelse
                ok = ok and U(naive) == "EPOCH"
            else:
                ok = ok and (U(x) == "EPOCH" or U(x).startswith("EPOCH.astimezone("))
    # the naive form must be present
    return ok and "EPOCH" in U(kb.node)


def _name_is_exact(f, name) -> bool:
    """The local ``name`` is a Decimal or a decimal string (so float(name) is one correctly rounded step)."""
    for n in body_walk(f):
        if isinstance(n, ast.Assign) and U(n.targets[0]) == name:
            v = n.value
            if isinstance(v, ast.JoinedStr):
                return True
            if isinstance(v, ast.Call) and last_attr(v.func) in ("Decimal", "scaleb", "str", "format"):
                return True
            return False
    return False


VARIANTS = [
    M("int-before-bool", "cell.py", "        elif isinstance(value, bool):\n            cell = BoolCell(row, col, value)\n        elif isinstance(value, int):\n            cell = NumberCell(row, col, value)\n",
      "        elif isinstance(value, int):\n            cell = NumberCell(row, col, value)\n        elif isinstance(value, bool):\n            cell = BoolCell(row, col, value)\n", "C01.R1"),
    M("date-single-precision", "cell.py", 'value = pack("<d", float(date_delta.total_seconds()))', 'value = pack("<f", float(date_delta.total_seconds()))', "C01.R2"),
    M("revert-fix-unpack-float-pow", "cell.py", '    return float(f"{mantissa}E{exp}")', "    value = mantissa * 10**exp\n    return float(value)", "C01.R3"),
    M("revert-fix-pack-division", "cell.py", "        mantissa >>= 8", "        mantissa = int(mantissa / 256)", "C01.R3"),
    M("decimal-of-float-direct", "cell.py", "dec = Decimal(repr(value)) if isinstance(value, float) else Decimal(value)", "dec = Decimal(value)", "C01.R3"),
    M("mantissa-16-digits", "cell.py", "exp = (dec.adjusted() if dec != 0 else 0) - 16", "exp = (dec.adjusted() if dec != 0 else 0) - MAX_SIGNIFICANT_DIGITS", "C01.R3"),
    M("duration-days", "cell.py", 'value = pack("<d", float(self.value.total_seconds()))', 'value = pack("<d", float(self.value.seconds))', "C01.R2"),
    M("bool-threshold", "cell.py", "cell = BoolCell(row, col, double > 0.0)", "cell = BoolCell(row, col, double > 1.0)", "C01.R2"),
    M("date-other-epoch", "cell.py", "cell = DateCell(row, col, EPOCH + timedelta(seconds=seconds))", "cell = DateCell(row, col, datetime(2001, 1, 1, 0, 0, 1) + timedelta(seconds=seconds))", "C01.R2"),
    M("string-key-cached", "model.py", "    def table_string_key(self, table_id: int, value: str) -> int:", "    @cache(num_args=2)\n    def table_string_key(self, table_id: int, value: str) -> int:", "C01.R4"),
    M("text-flag-wrong", "cell.py", "            flags = 8\n            length += 4\n            cell_type = TSTArchives.textCellType", "            flags = 0x10\n            length += 4\n            cell_type = TSTArchives.textCellType", "C01.R2"),
    M("exponent-bias-mismatch", "cell.py", "exp = (((buffer[15] & 0x7F) << 7) | (buffer[14] >> 1)) - DECIMAL128_BIAS", "exp = (((buffer[15] & 0x7F) << 7) | (buffer[14] >> 1)) - DECIMAL128_BIAS + 0", "ANALYSIS-SKIP"),
    T("from-value-reordered-safe", "cell.py", "        if isinstance(value, str):\n            cell = TextCell(row, col, value)\n        elif isinstance(value, bool):\n            cell = BoolCell(row, col, value)\n",
      "        if isinstance(value, bool):\n            cell = BoolCell(row, col, value)\n        elif isinstance(value, str):\n            cell = TextCell(row, col, value)\n"),
]
VARIANTS = [v for v in VARIANTS if v.expect != "ANALYSIS-SKIP"]

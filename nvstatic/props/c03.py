"""C03 — any edit history leaves each table equal to a plain grid, before and after save."""

from __future__ import annotations

import ast

from .. import cfg as cfgmod
from ..core import AnalysisError, U, body_walk, call_name, last_attr, try_const
from ..effects import EffectAnalysis, call_writes_for
from ..linear import GuardAnalysis, Lin, lin
from ..selftest import M, T

EXPLANATION = (
    "per structural editor (add_row/add_column/delete_row/delete_column): the grid mutation, the counter update and "
    "the model update agree symbolically for every argument (slice removal counts are proved with guard facts under "
    "the grid invariant len(_data)==num_rows, len(_data[r])==num_cols); renumber loops cover every moved cell with "
    "matching axes; memoised methods use only their key arguments and caches are per instance; only the editors write the grid"
)
TRUSTED = ["python ast", "statement CFG + dominators", "linear facts with syntactic entailment", "grid invariant assumed at editor entry"]

EDITORS = {
    "add_row": ("num_rows", "start_row", "row"),
    "add_column": ("num_cols", "start_col", "col"),
    "delete_row": ("num_rows", "start_row", "row"),
    "delete_column": ("num_cols", "start_col", "col"),
}
GRID_WRITERS = {"__init__", "write", "add_row", "add_column", "delete_row", "delete_column", "merge_cells"}


def _is_data(node, extra=()):
    t = U(node)
    return t == "self._data" or t in extra


def run(repo, rep, tier):
    env = dict(repo.consts)
    cw = call_writes_for(repo, "document.py", "Table")
    inv = [
        Lin(0, {"len(self._data)": 1, "self.num_rows": -1}),
        Lin(0, {"len(self._data)": -1, "self.num_rows": 1}),
        Lin(0, {"self.num_rows": 1}),
        Lin(0, {"self.num_cols": 1}),
    ]
    for name, (count, start, axis) in EDITORS.items():
        f = repo.func("document.py", f"Table.{name}")
        g = cfgmod.build(f)
        params = [a.arg for a in f.args.args]
        if count not in params or start not in params:
            raise AnalysisError(f"Table.{name}: parameters {count}/{start} not found")
        attr = f"self.{count}"  # counter attribute has the same name as the count parameter
        model_fn = "number_of_rows" if axis == "row" else "number_of_columns"
        ga = GuardAnalysis(f, env=env, call_writes=cw, entry_facts=inv)
        adding = name.startswith("add")
        # --- counter update
        upd = [n for n in body_walk(f) if isinstance(n, ast.AugAssign) and U(n.target) == attr]
        other_upd = [n for n in body_walk(f) if isinstance(n, ast.Assign) and any(U(t) == attr for t in n.targets)]
        ok = len(upd) == 1 and not other_upd and isinstance(upd[0].op, ast.Add if adding else ast.Sub) and U(upd[0].value) == count
        rep.ob("C03.R1", upd[0] if upd else f, f"Table.{name}: `{U(upd[0]) if upd else None}`", ok,
               "" if ok else f"the dimension must change by exactly {count}, once", key=f"C03.R1@{name}:counter")
        if not upd:
            continue
        upd = upd[0]
        # --- model update follows the counter update on all paths and passes the new counter
        mcalls = [n for n in body_walk(f) if isinstance(n, ast.Call) and last_attr(n.func) == model_fn and "self._model" in U(n.func)]
        ok = bool(mcalls) and any(
            len(c.args) == 2 and U(c.args[0]) == "self._table_id" and U(c.args[1]) == attr and cfgmod.must_reach(f, upd, [c]) and g.dominates(g.node_of(upd), g.node_of(c))
            for c in mcalls
        )
        rep.ob("C03.R1", mcalls[0] if mcalls else f, f"Table.{name}: model {model_fn}(self._table_id, {attr}) after the counter update", ok,
               "" if ok else "the saved dimension can disagree with the grid", key=f"C03.R1@{name}:model")
        # --- range check precedes any mutation
        raises = [r for r in body_walk(f) if isinstance(r, ast.Raise)]
        muts = [n for n in body_walk(f) if (isinstance(n, (ast.Assign, ast.AugAssign)) and any(U(t).startswith("self.") for t in (n.targets if isinstance(n, ast.Assign) else [n.target])))
                or isinstance(n, ast.Delete) or (isinstance(n, ast.Call) and last_attr(n.func) == model_fn)]
        bad = []
        for r in raises:
            for mu in muts:
                a, b = g.node_of(mu), g.node_of(r)
                if a is not None and b is not None and a != b and g.paths_avoiding(a, b, set()):
                    bad.append(U(mu)[:50])
        rep.ob("C03.R1", raises[0] if raises else f, f"Table.{name}: refusals precede every mutation", bool(raises) and not bad,
               "" if raises and not bad else f"mutations {bad} can precede a refusal" if bad else "no range check", key=f"C03.R1@{name}:refuse-first")
        # start index guard: 0 <= start < counter when given
        # (decided through the facts needed below for deleters; for adders check the guard shape directly)
        if adding:
            check_adder(repo, rep, f, g, ga, name, count, start, axis, attr, upd)
        else:
            check_deleter(repo, rep, f, g, ga, name, count, start, axis, attr, upd)

    check_constructors(repo, rep)
    check_memo(repo, rep)
    check_ownership(repo, rep)
    rep.floor("C03.R1", 20)
    rep.floor("C03.R2", 10)
    rep.floor("C03.R3", 24)
    rep.floor("C03.R4", 4)


def _slice_assign(f, extra_ok=lambda t: True):
    out = []
    for n in body_walk(f):
        if isinstance(n, ast.Assign) and isinstance(n.targets[0], ast.Subscript) and isinstance(n.targets[0].slice, ast.Slice):
            if U(n.targets[0].value).startswith("self._data"):
                out.append(n)
    return out


def check_adder(repo, rep, f, g, ga, name, count, start, axis, attr, upd):
    ins = _slice_assign(f)
    if len(ins) != 1:
        rep.ob("C03.R1", f, f"Table.{name}: one slice insertion into the grid", False, f"found {len(ins)}", key=f"C03.R1@{name}:insert")
        return
    ins = ins[0]
    sl = ins.targets[0].slice
    pure = sl.lower is not None and sl.upper is not None and U(sl.lower) == U(sl.upper) == start and sl.step is None
    rep.ob("C03.R1", ins, f"Table.{name}: `{U(ins.targets[0])} = ...` is a pure insertion at {start}", pure,
           "" if pure else "a slice with different bounds replaces existing cells instead of inserting", key=f"C03.R1@{name}:pure-insert")
    # the start guard: when given, 0 <= start < counter  (facts at the insertion under start given)
    facts = ga.facts_at(ins)
    # the inserted sequence has exactly `count` elements
    src = U(ins.value)
    n_elems = None
    builder = None
    for n in body_walk(f):
        if isinstance(n, ast.For) and any(isinstance(c, ast.Call) and last_attr(c.func) == "append" and U(c.func.value) == src for c in ast.walk(n)):
            builder = n
        if isinstance(n, ast.Assign) and U(n.targets[0]) == src and isinstance(n.value, ast.ListComp):
            builder = n.value
    if builder is None and isinstance(ins.value, ast.ListComp):
        builder = ins.value  # the new rows are written in place as a comprehension
    rng = None
    loopvar = None
    if isinstance(builder, ast.For):
        rng = builder.iter
        loopvar = U(builder.target)
    elif isinstance(builder, ast.ListComp):
        rng = builder.generators[0].iter
        loopvar = U(builder.generators[0].target)
    ok = False
    detail = "the inserted sequence is not built by a loop over a range"
    if rng is not None and isinstance(rng, ast.Call) and call_name(rng) == "range":
        if len(rng.args) == 2:
            a, b = lin(rng.args[0]), lin(rng.args[1])
            n_elems = (b - a) if a is not None and b is not None else None
        elif len(rng.args) == 1:
            n_elems = lin(rng.args[0])
        ok = n_elems is not None and (n_elems - Lin(0, {count: 1})).is_const() and (n_elems - Lin(0, {count: 1})).c == 0
        detail = "" if ok else f"{U(rng)} yields {n_elems} elements but the counter changes by {count}"
    rep.ob("C03.R1", ins, f"Table.{name}: inserts exactly {count} new {axis}s", ok, detail, key=f"C03.R1@{name}:count")
    # new cells are constructed with their own position
    cells = [c for c in body_walk(f) if isinstance(c, ast.Call) and last_attr(c.func) == "_empty_cell"]
    for c in cells:
        a = [U(x) for x in c.args]
        okp = len(a) == 4 and a[0] == "self._table_id" and a[3] == "self._model"
        if okp and axis == "row":
            # row = loop var over range(start, start+count); col = loop var over range(self.num_cols)
            first = lin(rng.args[0]) if (rng is not None and isinstance(rng, ast.Call) and call_name(rng) == "range" and len(rng.args) == 2) else (Lin(0) if rng is not None else None)
            starts_at_start = first is not None and (first - Lin(0, {start: 1})).is_const() and (first - Lin(0, {start: 1})).c == 0
            okp = a[1] == loopvar and starts_at_start and _comp_var_over(c, a[2], "self.num_cols")
        elif okp:
            # row = enclosing loop var over range(self.num_rows); col = start + k for k in range(count)
            l = lin(c.args[2])
            okp = _enclosing_loop_over(c, a[1], "self.num_rows") and l is not None and l.t.get(start) == 1 and len(l.t) == 2 and l.c == 0 \
                and _comp_var_over(c, next(s for s in l.t if s != start), count)
        rep.ob("C03.R2", c, f"Table.{name}: new cell `{U(c)[:70]}` carries its own (row, col)", okp,
               "" if okp else "a new cell is created with a position that is not its place in the grid", key=f"C03.R2@{name}:newcell")
    # renumber loops
    check_renumber(rep, f, g, name, axis, start, attr, upd, ins, adding=True)
    # default fill after the grid is widened
    writes = [c for c in body_walk(f) if isinstance(c, ast.Call) and U(c.func) == "self.write"]
    for w in writes:
        okw = g.dominates(g.node_of(ins), g.node_of(w))
        rep.ob("C03.R2", w, f"Table.{name}: default fill after the insertion", okw, "" if okw else "cells are written before the grid is widened", key=f"C03.R2@{name}:fill-after")
        a = [U(x) for x in w.args]
        okw2 = len(a) == 3 and a[2] == "default"
        rep.ob("C03.R2", w, f"Table.{name}: default fill addresses (row, col)", okw2 and ("row" in a[0] and "col" in a[1]), "", key=f"C03.R2@{name}:fill-args")
    # start guard
    check_start_guard(rep, f, name, start, attr, ga, ins, upd, count)


def _comp_var_over(node, var, bound):
    """var is the target of a comprehension/loop enclosing node that iterates range(bound)."""
    p = getattr(node, "_parent", None)
    while p is not None:
        gens = []
        if isinstance(p, (ast.ListComp, ast.GeneratorExp)):
            gens = [(U(gn.target), gn.iter) for gn in p.generators]
        elif isinstance(p, ast.For):
            gens = [(U(p.target), p.iter)]
        for t, it in gens:
            if t == var and isinstance(it, ast.Call) and call_name(it) == "range" and len(it.args) == 1 and U(it.args[0]) == bound:
                return True
        p = getattr(p, "_parent", None)
    return False


_enclosing_loop_over = _comp_var_over


def check_start_guard(rep, f, name, start, attr, ga=None, ins=None, upd=None, count=None):
    """Adders: the insertion index lies within [0, old size] for every argument (facts at the insertion)."""
    if ga is None or ins is None:
        return
    g = cfgmod.build(f)
    anchor = ins
    if upd is not None and g.dominates(g.node_of(upd), g.node_of(ins)):
        # evaluate right after the counter update (the insertion may sit in a loop whose body calls write())
        blk = getattr(getattr(upd, "_parent", None), "body", [])
        if upd in blk and blk.index(upd) + 1 < len(blk):
            anchor = blk[blk.index(upd) + 1]
    facts = ga.facts_at(anchor)
    S = Lin(0, {start: 1})
    old = Lin(0, {attr: 1})
    if upd is not None and g.dominates(g.node_of(upd), g.node_of(ins)):
        old = old - Lin(0, {count: 1})
    lo = facts is not None and facts.entails(S)
    hi = facts is not None and facts.entails(old - S)
    rep.ob("C03.R1", ins, f"Table.{name}: insertion index `{start}` is within [0, old size] for every argument", lo and hi,
           "" if lo and hi else f"no guard establishes {'0 <= ' + start if not lo else start + ' <= size'}: a negative or too large index inserts at a wrong place silently (facts: {facts})",
           key=f"C03.R1@{name}:start-guard")


def check_renumber(rep, f, g, name, axis, start, attr, upd, mut, adding):
    """Cells whose position changed are renumbered with matching axes."""
    stores = []  # (statement, row index text, col index text, attribute)
    for n in body_walk(f):
        if not (isinstance(n, ast.Assign) and isinstance(n.targets[0], ast.Attribute) and n.targets[0].attr in ("row", "col")):
            continue
        base = n.targets[0].value
        if isinstance(base, ast.Subscript) and isinstance(base.value, ast.Subscript) and U(base.value.value) == "self._data":
            stores.append((n, U(base.value.slice), U(base.slice), n.targets[0].attr))
        elif isinstance(base, ast.Name):
            # ``for idx, cell in enumerate(self._data[r]): cell.col = idx``
            p = getattr(n, "_parent", None)
            while p is not None and p is not f:
                if isinstance(p, ast.For) and isinstance(p.iter, ast.Call) and call_name(p.iter) == "enumerate" and isinstance(p.target, ast.Tuple) \
                        and len(p.target.elts) == 2 and U(p.target.elts[1]) == base.id:
                    src = p.iter.args[0]
                    if isinstance(src, ast.Subscript) and U(src.value) == "self._data":
                        stores.append((n, U(src.slice), U(p.target.elts[0]), n.targets[0].attr))
                    break
                p = getattr(p, "_parent", None)
    if not stores:
        rep.ob("C03.R2", f, f"Table.{name}: renumbering present", False, "no cell is renumbered after the edit", key=f"C03.R2@{name}:renumber")
        return
    for st, r_idx, c_idx, attr_ in stores:
        want = r_idx if attr_ == "row" else c_idx
        ok = U(st.value) == want
        rep.ob("C03.R2", st, f"Table.{name}: `{U(st)}` for the cell at [{r_idx}][{c_idx}]", ok, "" if ok else "a cell is given the index of the wrong axis or of another cell", key=f"C03.R2@{name}:axis:{attr_}")
        muts = mut if isinstance(mut, list) else [mut]
        ok2 = cfgmod.precedes_on_all_paths(f, [m for m in muts if m is not None], st) if mut is not None else True
        rep.ob("C03.R2", st, f"Table.{name}: renumbering after the grid edit", ok2, "" if ok2 else "renumbering runs before the grid is edited", key=f"C03.R2@{name}:after:{attr_}")
    # coverage of the moved axis
    moved_attr = axis  # 'row' or 'col'
    mv = [x for x in stores if x[3] == moved_attr]
    if not mv:
        rep.ob("C03.R2", f, f"Table.{name}: moved {axis}s renumbered", False, f"no `.{moved_attr} =` store", key=f"C03.R2@{name}:moved")
        return
    st = mv[0][0]
    idx_var = U(st.value)
    loop = None
    p = getattr(st, "_parent", None)
    enum_loop = None
    while p is not None and p is not f:
        if isinstance(p, ast.For) and U(p.target) == idx_var:
            loop = p
            break
        if isinstance(p, ast.For) and isinstance(p.target, ast.Tuple) and p.target.elts and U(p.target.elts[0]) == idx_var \
                and isinstance(p.iter, ast.Call) and call_name(p.iter) == "enumerate" and len(p.iter.args) == 1:
            enum_loop = p
            break
        p = getattr(p, "_parent", None)
    ok = False
    detail = "the renumber loop over the moved axis was not recognised"
    if enum_loop is not None:
        # enumerate() over the container visits every element: complete provided it runs after the edit
        loop = enum_loop
        src = U(enum_loop.iter.args[0])
        ok = src.startswith("self._data") and (mut is None or cfgmod.precedes_on_all_paths(f, mut if isinstance(mut, list) else [mut], enum_loop))
        detail = "" if ok else "enumeration does not run over the grid after the edit"
    elif loop is not None and isinstance(loop.iter, ast.Call) and call_name(loop.iter) == "range":
        args = loop.iter.args
        lo = lin(args[0]) if len(args) == 2 else Lin(0)
        hi = args[-1]
        hi_txt = U(hi)
        # upper end: the new size (counter read after its update) or the actual length
        if hi_txt == attr:
            hi_ok = g.dominates(g.node_of(upd), g.node_of(loop))
            why_hi = "" if hi_ok else f"{attr} is read before it is updated: the last {axis}s are not renumbered"
        elif hi_txt.startswith("len(self._data"):
            hi_ok = mut is None or cfgmod.precedes_on_all_paths(f, mut if isinstance(mut, list) else [mut], loop)
            why_hi = "" if hi_ok else "length read before the grid edit"
        else:
            hi_ok = False
            why_hi = f"upper bound {hi_txt} is not the new size"
        # lower end: at most the first moved index
        s = Lin(0, {start: 1})
        lo_ok = lo is not None and ((lo.is_const() and lo.c <= 0) or (s - lo).is_const() and (s - lo).c >= 0)
        if adding and lo is not None and not lo_ok:
            # new cells carry their position already: starting at start+count is still complete
            d = lo - s
            lo_ok = len(d.t) == 1 and d.c == 0 and list(d.t.values()) == [1] and "num_" in next(iter(d.t))
        ok = hi_ok and lo_ok
        detail = "" if ok else (why_hi or f"lower bound {U(args[0]) if len(args) == 2 else 0} skips moved {axis}s (first moved index is {start})")
    rep.ob("C03.R2", loop or st, f"Table.{name}: renumber loop covers every moved {axis}", ok, detail, key=f"C03.R2@{name}:coverage")
    # the renumber must happen when a start index was given (end edits move nothing)
    if loop is not None:
        conds = []
        p = getattr(loop, "_parent", None)
        while p is not None and p is not f:
            if isinstance(p, ast.If):
                conds.append(U(p.test))
            p = getattr(p, "_parent", None)
        okc = all(c.replace(" ", "") == f"{start}isnotNone" for c in conds)
        rep.ob("C03.R2", loop, f"Table.{name}: renumbering not skipped for indexed edits", okc,
               "" if okc else f"renumbering is conditional on {conds}", key=f"C03.R2@{name}:cond")


def check_deleter(repo, rep, f, g, ga, name, count, start, axis, attr, upd):
    dels = [n for n in body_walk(f) if isinstance(n, ast.Delete)]
    if not dels:
        rep.ob("C03.R1", f, f"Table.{name}: grid deletion present", False, "", key=f"C03.R1@{name}:delete")
        return
    n_sym = Lin(0, {count: 1})
    first_del = None
    for d in dels:
        t = d.targets[0]
        if not (isinstance(t, ast.Subscript) and isinstance(t.slice, ast.Slice) and U(t.value).startswith("self._data")):
            rep.ob("C03.R1", d, f"Table.{name}: `{U(d)}` deletes a slice of the grid", False, "", key=f"C03.R1@{name}:delshape")
            continue
        first_del = first_del or d
        base = U(t.value)
        length = Lin(0, {f"len({base})": 1})
        # grid invariant for the container being cut
        if base == "self._data":
            size = Lin(0, {"self.num_rows": 1})
        else:
            size = Lin(0, {"self.num_cols": 1})
        axioms = [length - size, size - length]
        facts = ga.facts_at(d)
        sl = t.slice
        lo, hi = sl.lower, sl.upper
        ok = False
        detail = ""
        if lo is not None and hi is not None:
            a, b = lin(lo), lin(hi)
            if a is None or b is None:
                detail = "slice bounds are not linear"
            else:
                removed = b - a
                same = (removed - n_sym).is_const() and (removed - n_sym).c == 0
                e1 = facts.entails(a, axioms)
                e2 = facts.entails(removed, axioms)
                e3 = facts.entails(length - b, axioms)
                ok = same and e1 and e2 and e3
                if not same:
                    detail = f"slice removes {removed} but the counter changes by {count}"
                elif not ok:
                    miss = [w for w, e in ((f"{U(lo)} >= 0", e1), (f"{count} >= 0", e2), (f"{U(hi)} <= len", e3)) if not e]
                    detail = (f"`del {U(t)}` removes {count} elements only if {', '.join(miss)}; no guard establishes it, so the slice is clamped "
                              f"and the dimension is decremented by more than was removed (facts: {facts})")
        elif lo is not None and hi is None and isinstance(lo, ast.UnaryOp) and isinstance(lo.op, ast.USub):
            k = lin(lo.operand)
            same = k is not None and (k - n_sym).is_const() and (k - n_sym).c == 0
            e1 = facts.entails(k - Lin(1), axioms) if k is not None else False
            e2 = facts.entails(length - k, axioms) if k is not None else False
            ok = same and e1 and e2
            if not ok:
                miss = [w for w, e in ((f"{count} >= 1", e1), (f"{count} <= len", e2)) if not e]
                detail = (f"`del {U(t)}` removes {count} elements only if {', '.join(miss)} (a count of 0 makes `[-0:]` delete everything); "
                          f"no guard establishes it (facts: {facts})")
        else:
            detail = "slice shape not recognised"
        rep.ob("C03.R1", d, f"Table.{name}: `del {U(t)}` removes exactly {count}", ok, detail, key=f"C03.R1@{name}:del:{'idx' if hi is not None else 'end'}")
    check_renumber(rep, f, g, name, axis, start, attr, upd, dels, adding=False)


def check_constructors(repo, rep):
    init = repo.func("document.py", "Table.__init__")
    calls = [c for c in body_walk(init) if isinstance(c, ast.Call) and last_attr(c.func) in ("_from_storage", "_merged_cell", "_empty_cell")]
    for c in calls:
        a = [U(x) for x in c.args]
        ok = len(a) >= 3 and a[1] == "row" and a[2] == "col" and _comp_var_over(c, "row", "self.num_rows") and _comp_var_over(c, "col", "self.num_cols")
        rep.ob("C03.R2", c, f"Table.__init__: `{U(c)[:60]}` built at its own (row, col)", ok, "", key=f"C03.R2@init:{last_attr(c.func)}")
    app = [n for n in body_walk(init) if isinstance(n, ast.Call) and last_attr(n.func) == "append" and "self._data[row]" in U(n.func)]
    rep.ob("C03.R2", init, "Table.__init__: cells appended to their own row", bool(app), "", key="C03.R2@init:append")
    cinit = repo.func("cell.py", "Cell.__init__")
    st = {U(n.targets[0]): U(n.value) for n in body_walk(cinit) if isinstance(n, ast.Assign)}
    ok = st.get("self.row") == "row" and st.get("self.col") == "col"
    rep.ob("C03.R2", cinit, "Cell.__init__ stores row and col unswapped", ok, "", key="C03.R2@cellinit")
    # write(): new cell constructed at the validated position
    w = repo.func("document.py", "Table.write")
    fv = [c for c in body_walk(w) if isinstance(c, ast.Call) and last_attr(c.func) == "_from_value"]
    ok = bool(fv) and [U(x) for x in fv[0].args[:2]] == ["row", "col"]
    rep.ob("C03.R2", w, "Table.write: Cell._from_value(row, col, value) at the written position", ok, "", key="C03.R2@write:newcell")
    fvf = repo.func("cell.py", "Cell._from_value")
    bad = [U(c) for c in body_walk(fvf) if isinstance(c, ast.Call) and call_name(c) and call_name(c).endswith("Cell") and [U(x) for x in c.args[:2]] != ["row", "col"]]
    rep.ob("C03.R2", fvf, "Cell._from_value passes (row, col) to every cell class", not bad, f"{bad}", key="C03.R2@from_value:pos")


def _cached_functions(tree):
    out = {}
    for cls in [n for n in ast.walk(tree) if isinstance(n, ast.ClassDef)]:
        for fn in [n for n in cls.body if isinstance(n, ast.FunctionDef)]:
            if any(isinstance(d, ast.Call) and call_name(d) == "cache" for d in fn.decorator_list):
                out[f"{cls.name}.{fn.name}"] = (cls, fn)
    return out


def check_new_memo(repo, rep):
    """A method that was not memoised in the confirmed tree may only become memoised if nothing it reads can change:
    the data attributes it reads (directly or through methods of its own class) must not be assigned anywhere outside
    constructors."""
    from .. import refcheck
    ref_ov = refcheck.reference_overlay()
    mods = ("model.py", "cell.py", "document.py", "formula.py", "xrefs.py", "containers.py")
    # attributes assigned anywhere (outside __init__/__new__/from_* constructors)
    written = {}
    for mod in mods:
        for fn in [n for n in ast.walk(repo.tree(mod)) if isinstance(n, ast.FunctionDef)]:
            if fn.name in ("__init__", "__new__", "__post_init__"):
                continue
            for n in body_walk(fn):
                tg = n.targets if isinstance(n, ast.Assign) else ([n.target] if isinstance(n, (ast.AugAssign, ast.AnnAssign)) else [])
                for t in tg:
                    for x in ast.walk(t):
                        if isinstance(x, ast.Attribute) and isinstance(x.ctx, ast.Store):
                            written.setdefault(x.attr, f"{mod}:{fn.name}")
                if isinstance(n, ast.Call) and call_name(n) == "setattr" and len(n.args) == 3 and isinstance(try_const(n.args[1]), str):
                    written.setdefault(try_const(n.args[1]), f"{mod}:{fn.name}")
    n_new = 0
    for mod in mods:
        cur = _cached_functions(repo.tree(mod))
        rel = f"src/numbers_parser/{mod}"
        ref = _cached_functions(ast.parse(ref_ov[rel])) if rel in ref_ov else {}
        for q, (cls, fn) in cur.items():
            if q in ref:
                continue
            n_new += 1
            methods = {m.name: m for m in cls.body if isinstance(m, ast.FunctionDef)}
            seen, todo, reads = set(), [fn], set()
            depth = {id(fn): 0}
            while todo:
                f = todo.pop()
                if id(f) in seen:
                    continue
                seen.add(id(f))
                callee_attrs = {id(c.func) for c in ast.walk(f) if isinstance(c, ast.Call) and isinstance(c.func, ast.Attribute)}
                for n in ast.walk(f):
                    if isinstance(n, ast.Attribute) and isinstance(n.ctx, ast.Load) and id(n) not in callee_attrs:
                        reads.add(n.attr)
                    if isinstance(n, ast.Call) and isinstance(n.func, ast.Attribute) and isinstance(n.func.value, ast.Name) and n.func.value.id == "self" \
                            and n.func.attr in methods and depth[id(f)] < 2:
                        g = methods[n.func.attr]
                        depth.setdefault(id(g), depth[id(f)] + 1)
                        todo.append(g)
            hot = sorted(a for a in reads if a in written and not a.startswith("__"))
            rep.ob("C03.R3", fn, f"{q}: newly memoised; attributes it reads {sorted(reads)[:8]}", not hot,
                   "" if not hot else f"the memo freezes a result that depends on {hot[:4]} (assigned e.g. in {written[hot[0]]}): after such a change the method keeps returning the value of its first call",
                   key=f"C03.R3@{q}:new-memo")
    rep.extra["newly_memoised_methods"] = n_new


def check_new_attribute_memo(repo, rep):
    """A hand-written memo that did not exist in the confirmed tree -- ``if k in self._m: return self._m[k]`` ...
    ``self._m[k] = result`` on an attribute the reference class does not have -- must be keyed by every parameter the
    method's result is computed from."""
    from .. import refcheck
    ref_ov = refcheck.reference_overlay()
    mods = ("model.py", "cell.py", "document.py", "formula.py", "xrefs.py", "containers.py", "tokenizer.py", "iwafile.py", "iwork.py")
    n_new = 0
    for mod in mods:
        rel = f"src/numbers_parser/{mod}"
        if rel not in ref_ov:
            continue
        ref_attrs = {}
        for c in [n for n in ast.walk(ast.parse(ref_ov[rel])) if isinstance(n, ast.ClassDef)]:
            ref_attrs[c.name] = {x.attr for x in ast.walk(c) if isinstance(x, ast.Attribute) and isinstance(x.value, ast.Name) and x.value.id == "self"}
        for cls in [n for n in repo.tree(mod).body if isinstance(n, ast.ClassDef)]:
            known = ref_attrs.get(cls.name)
            if known is None:
                continue
            for fn in [m for m in cls.body if isinstance(m, ast.FunctionDef)]:
                stores = {}
                for n in body_walk(fn):
                    if isinstance(n, ast.Assign) and len(n.targets) == 1 and isinstance(n.targets[0], ast.Subscript) and isinstance(n.targets[0].value, ast.Attribute) \
                            and U(n.targets[0].value.value) == "self" and n.targets[0].value.attr not in known:
                        stores.setdefault(n.targets[0].value.attr, []).append(n)
                for attr, sts in stores.items():
                    reads = [r for r in body_walk(fn) if isinstance(r, ast.Return) and r.value is not None and any(
                        (isinstance(x, ast.Subscript) and U(x.value) == f"self.{attr}") or (isinstance(x, ast.Call) and U(x.func) == f"self.{attr}.get") for x in ast.walk(r.value))]
                    if not reads:
                        continue
                    n_new += 1
                    key_names = set()
                    for st in sts:
                        key_names |= {x.id for x in ast.walk(st.targets[0].slice) if isinstance(x, ast.Name)}
                    # locals the key is built from count through their definitions
                    for _ in range(3):
                        for n in body_walk(fn):
                            if isinstance(n, ast.Assign) and len(n.targets) == 1 and isinstance(n.targets[0], ast.Name) and n.targets[0].id in key_names:
                                key_names |= {x.id for x in ast.walk(n.value) if isinstance(x, ast.Name)}
                    params = [a.arg for a in fn.args.args[1:] + fn.args.kwonlyargs]
                    used = {x.id for x in body_walk(fn) if isinstance(x, ast.Name) and isinstance(x.ctx, ast.Load)}
                    missing = [p_ for p_ in params if p_ in used and p_ not in key_names]
                    rep.ob("C03.R3", sts[0], f"{cls.name}.{fn.name}: new memo self.{attr} keyed by {sorted(key_names & set(params))}", not missing,
                           "" if not missing else f"the memo self.{attr} is keyed without {missing}, which the result is computed from: a later call with another {missing[0]} gets the answer of the first",
                           key=f"C03.R3@{cls.name}.{fn.name}:new-attribute-memo:{attr}")
    rep.extra["new_attribute_memos"] = n_new


def check_memo(repo, rep):
    """R3: memoised methods depend only on their key arguments; caches are per instance."""
    n_sites = 0
    for mod in ("model.py", "cell.py", "document.py", "formula.py", "xrefs.py", "containers.py"):
        tree = repo.tree(mod)
        for cls in [n for n in tree.body if isinstance(n, ast.ClassDef)]:
            cached = []
            for fn in [n for n in cls.body if isinstance(n, ast.FunctionDef)]:
                for d in fn.decorator_list:
                    if isinstance(d, ast.Call) and call_name(d) == "cache":
                        k = 1
                        for kw in d.keywords:
                            if kw.arg == "num_args":
                                k = try_const(kw.value)
                        if d.args:
                            k = try_const(d.args[0])
                        cached.append((fn, k))
            if cached:
                base_ok = any(last_attr(b) == "Cacheable" for b in cls.bases) or any(
                    last_attr(b) in ("Cell",) for b in cls.bases)
                rep.ob("C03.R3", cls, f"{mod}:{cls.name} uses @cache and derives from Cacheable", base_ok,
                       "" if base_ok else "the memo would live on a shared object", key=f"C03.R3@{cls.name}:base")
            for fn, k in cached:
                n_sites += 1
                params = [a.arg for a in fn.args.args][1:]
                used = {n.id for n in ast.walk(fn) if isinstance(n, ast.Name)}
                extra = [p for p in params[k if isinstance(k, int) else 0:] if p in used]
                ok = isinstance(k, int) and not extra and not fn.args.vararg and not fn.args.kwarg and k <= len(params)
                rep.ob("C03.R3", fn, f"{cls.name}.{fn.name}: @cache(num_args={k}) over params {params}", ok,
                       "" if ok else f"the result depends on {extra or 'arguments'} that are not part of the memo key: a later call with a different value returns a stale result",
                       key=f"C03.R3@{cls.name}.{fn.name}")
    # memoised methods must not allocate or write stored objects: the effect would happen once only
    ea = EffectAnalysis(repo)
    IDEMPOTENT_ALLOC = {"format_archive"}  # allocates one format key per (table, type, formatting): the memo key itself
    for mod in ("model.py", "cell.py", "document.py", "formula.py", "xrefs.py", "containers.py"):
        for cls in [n for n in repo.tree(mod).body if isinstance(n, ast.ClassDef)]:
            for fn in [n for n in cls.body if isinstance(n, ast.FunctionDef)]:
                if not any(isinstance(d, ast.Call) and call_name(d) == "cache" for d in fn.decorator_list):
                    continue
                eff = sorted(e for e in ea.effects(fn, frozenset()) if e[0] in ("PROTO", "ALLOC"))
                ok = not eff or fn.name in IDEMPOTENT_ALLOC
                rep.ob("C03.R3", fn, f"{cls.name}.{fn.name}: memoised method has no stored-object effect", ok,
                       "" if ok else f"@cache makes the effect run only on the first call: {eff[0][0]} at {eff[0][2]} ({eff[0][1]}); later saves or edits skip it",
                       key=f"C03.R3@{cls.name}.{fn.name}:effect-free")
    rep.sub(check_new_memo, repo, rep)
    rep.sub(check_new_attribute_memo, repo, rep)
    # the decorator itself
    cache = repo.func("numbers_cache.py", "cache")
    src = U(cache)
    keyj = [n for n in ast.walk(cache) if isinstance(n, ast.Call) and last_attr(n.func) == "join" and isinstance(n.func, ast.Attribute)]
    ok = False
    for j in keyj:
        sep = try_const(j.func.value)
        comp = j.args[0] if j.args else None
        if isinstance(sep, str) and sep != "" and not sep.isdigit() and isinstance(comp, (ast.ListComp, ast.GeneratorExp)):
            it = comp.generators[0].iter
            ok = isinstance(it, ast.Call) and call_name(it) == "range" and U(it.args[0]) == "num_args" and "args[" in U(comp.elt) and "str(" in U(comp.elt)
    rep.ob("C03.R3", cache, "memo key = non-empty-separator join of str(args[i]) for i < num_args", ok,
           "" if ok else "distinct argument tuples can share a key", key="C03.R3@cache:key")
    ok = "self._cache[method][key]" in src and "method = func.__name__" in src
    rep.ob("C03.R3", cache, "memo stored per method name on the instance", ok, "", key="C03.R3@cache:per-method")
    new = repo.func("numbers_cache.py", "Cacheable.__new__")
    ok = any(isinstance(n, ast.Assign) and U(n.targets[0]).endswith("._cache") and U(n.targets[0]).split(".")[0] != "cls" for n in body_walk(new))
    cls_level = [n for n in repo.cls("numbers_cache.py", "Cacheable").body if isinstance(n, (ast.Assign, ast.AnnAssign))]
    rep.ob("C03.R3", new, "Cacheable creates _cache per instance (no class-level container)", ok and not cls_level, "", key="C03.R3@cacheable:instance")
    # lookups must hit only on presence of the key
    ok = "if key in self._cache[method]" in src
    rep.ob("C03.R3", cache, "memo consulted by key presence", ok, "", key="C03.R3@cache:lookup")
    # no module-level mutable container is written from functions of the model/document/cell modules
    for mod in ("model.py", "document.py", "cell.py", "containers.py", "numbers_cache.py"):
        tree = repo.tree(mod)
        mod_names = set()
        for n in tree.body:
            if isinstance(n, ast.Assign) and isinstance(n.value, (ast.Dict, ast.List, ast.Set, ast.Call, ast.DictComp, ast.ListComp)):
                for t in n.targets:
                    if isinstance(t, ast.Name):
                        mod_names.add(t.id)
        bad = []
        for fn in [n for n in ast.walk(tree) if isinstance(n, ast.FunctionDef)]:
            local = {a.arg for a in fn.args.args} | {t.id for n in ast.walk(fn) if isinstance(n, ast.Assign) for t in n.targets if isinstance(t, ast.Name)}
            for n in body_walk(fn):
                if isinstance(n, ast.Global):
                    bad.append(f"{fn.name}: global {n.names}")
                tg = None
                if isinstance(n, ast.Assign) and isinstance(n.targets[0], ast.Subscript):
                    tg = n.targets[0].value
                elif isinstance(n, ast.Call) and isinstance(n.func, ast.Attribute) and n.func.attr in ("append", "update", "setdefault", "add", "extend", "pop", "clear"):
                    tg = n.func.value
                if isinstance(tg, ast.Name) and tg.id in mod_names and tg.id not in local:
                    bad.append(f"{fn.name}: writes module-level {tg.id}")
        rep.ob("C03.R3", tree.body[0], f"{mod}: no function writes module-level state", not bad, "; ".join(bad),
               key=f"C03.R3@{mod}:module-state")
    rep.extra["cache_sites"] = n_sites


def check_ownership(repo, rep):
    """R4: only the editors write the grid; the save path does not."""
    tcls = repo.cls("document.py", "Table")
    for fn in [n for n in tcls.body if isinstance(n, ast.FunctionDef)]:
        writes = []
        for n in body_walk(fn):
            tg = []
            if isinstance(n, ast.Assign):
                tg = n.targets
            elif isinstance(n, ast.AugAssign):
                tg = [n.target]
            elif isinstance(n, ast.Delete):
                tg = n.targets
            for t in tg:
                tt = U(t)
                if tt.startswith("self._data[") and isinstance(t, ast.Subscript) or tt in ("self._data", "self.num_rows", "self.num_cols"):
                    writes.append(tt)
        if writes:
            ok = fn.name in GRID_WRITERS
            if not ok:
                # a private step taken out of an editor: a method the confirmed tree does not have, called from nowhere but
                # the editors (its statements are then read as part of them by every other rule)
                from ..normalize import _pinned_functions
                new_helper = f"Table.{fn.name}" not in _pinned_functions("document.py") and fn.name.startswith("_")
                if new_helper:
                    callers = set()
                    for rel_ in repo.modules():
                        for f2 in [x for x in ast.walk(repo.raw_tree(rel_)) if isinstance(x, ast.FunctionDef)]:
                            if f2.name != fn.name and any(isinstance(c, ast.Call) and isinstance(c.func, ast.Attribute) and c.func.attr == fn.name for c in ast.walk(f2)):
                                callers.add(f2.name)
                    ok = bool(callers) and callers <= set(GRID_WRITERS)
            rep.ob("C03.R4", fn, f"Table.{fn.name} writes {sorted(set(writes))[:3]}", ok,
                   "" if ok else "the grid or its dimensions are changed outside the editing API", key=f"C03.R4@Table.{fn.name}")
    # save closure: model functions that receive the grid must not mutate it
    for qual in ("recalculate_table_data", "recalculate_row_headers", "recalculate_column_headers", "recalculate_row_info", "update_cell_styles"):
        if not repo.has_func("model.py", f"_NumbersModel.{qual}"):
            continue
        fn = repo.func("model.py", f"_NumbersModel.{qual}")
        if "data" not in [a.arg for a in fn.args.args]:
            continue
        bad = []
        aliases = {"data"}
        for n in body_walk(fn):
            if isinstance(n, ast.For) and U(n.iter) in ("data", "enumerate(data)"):
                for t in ast.walk(n.target):
                    if isinstance(t, ast.Name):
                        aliases.add(t.id)
        for n in body_walk(fn):
            tg = []
            if isinstance(n, ast.Assign):
                tg = n.targets
            elif isinstance(n, ast.AugAssign):
                tg = [n.target]
            elif isinstance(n, ast.Delete):
                tg = n.targets
            elif isinstance(n, ast.Call) and isinstance(n.func, ast.Attribute) and n.func.attr in ("append", "pop", "insert", "extend", "remove", "clear", "sort", "reverse"):
                root = n.func.value
                while isinstance(root, ast.Subscript):
                    root = root.value
                if isinstance(root, ast.Name) and root.id == "data":
                    bad.append(U(n)[:60])
            for t in tg:
                if isinstance(t, ast.Subscript):
                    root = t
                    while isinstance(root, ast.Subscript):
                        root = root.value
                    if isinstance(root, ast.Name) and root.id == "data":
                        bad.append(U(n)[:60])
                if isinstance(t, ast.Attribute) and t.attr in ("row", "col", "_value"):
                    bad.append(U(n)[:60])
        rep.ob("C03.R4", fn, f"model.{qual} does not mutate the grid it encodes", not bad,
               "" if not bad else f"saving changes the open document: {bad}", key=f"C03.R4@model.{qual}")
    save = repo.func("document.py", "Document.save")
    bad = [U(n)[:60] for n in body_walk(save) if isinstance(n, (ast.Assign, ast.AugAssign, ast.Delete)) and "_data" in U(n)]
    rep.ob("C03.R4", save, "Document.save does not assign the grid", not bad, f"{bad}", key="C03.R4@save")


VARIANTS = [
    M("formula-text-memo-keyed-by-formula-only", "formula.py", "    def formula(self, formula_key, row, col):\n        all_formulas = self._model.formula_ast(self._table_id)",
      "    def formula(self, formula_key, row, col):\n        if formula_key in self._text_memo:\n            return self._text_memo[formula_key]\n        self._text_memo[formula_key] = self._formula_text(formula_key, row, col)\n        return self._text_memo[formula_key]\n\n    def _formula_text(self, formula_key, row, col):\n        all_formulas = self._model.formula_ast(self._table_id)", "C03.R3"),
    M("revert-fix-delete-row-count", "document.py",
      "        if num_rows < 0 or num_rows > self.num_rows - (start_row or 0):\n            msg = \"Number of rows not in range for table\"\n            raise IndexError(msg)\n        if num_rows == 0:\n            return\n",
      "", "C03.R1"),
    M("revert-fix-delete-col-zero", "document.py", "        if num_cols == 0:\n            return\n", "", "C03.R1"),
    M("insert-replaces-one", "document.py", "self._data[start_row:start_row] = rows", "self._data[start_row : start_row + 1] = rows", "C03.R1"),
    M("renumber-from-after-new", "document.py", "        for row in range(start_row, self.num_rows):\n            for col in range(self.num_cols):\n                self._data[row][col].row = row\n                self._data[row][col].col = col\n\n        if default",
      "        for row in range(start_row + 1 + num_rows, self.num_rows):\n            for col in range(self.num_cols):\n                self._data[row][col].row = row\n                self._data[row][col].col = col\n\n        if default", "C03.R2"),
    M("counter-after-renumber", "document.py",
      "        self.num_rows += num_rows\n        self._model.number_of_rows(self._table_id, self.num_rows)\n\n        rows = []",
      "        rows = []", "C03.R", more=(("document.py", "        self._data[start_row:start_row] = rows\n\n        for row in range(start_row, self.num_rows):\n            for col in range(self.num_cols):\n                self._data[row][col].row = row\n                self._data[row][col].col = col\n",
        "        self._data[start_row:start_row] = rows\n\n        for row in range(start_row, self.num_rows):\n            for col in range(self.num_cols):\n                self._data[row][col].row = row\n                self._data[row][col].col = col\n        self.num_rows += num_rows\n        self._model.number_of_rows(self._table_id, self.num_rows)\n"),)),
    M("new-col-cell-wrong-col", "document.py", "Cell._empty_cell(self._table_id, row, start_col + col, self._model)", "Cell._empty_cell(self._table_id, row, col, self._model)", "C03.R2"),
    M("renumber-swapped-axes", "document.py", "                    self._data[row][col].row = row\n                    self._data[row][col].col = col\n",
      "                    self._data[row][col].row = col\n                    self._data[row][col].col = row\n", "C03.R2"),
    M("memo-table-names", "model.py", "    def table_names(self):", "    @cache(num_args=0)\n    def table_names(self):", "C03.R3"),
    M("memo-custom-format", "cell.py", "    def _custom_format(self) -> str:", "    @cache(num_args=0)\n    def _custom_format(self) -> str:", "C03.R3"),
    M("cache-key-narrowed", "model.py", "    @cache(num_args=2)\n    def table_string(", "    @cache(num_args=1)\n    def table_string(", "C03.R3"),
    M("cache-key-no-separator", "numbers_cache.py", 'key = ".".join([str(args[x]) for x in range(num_args)])', 'key = "".join([str(args[x]) for x in range(num_args)])', "C03.R3"),
    M("cache-on-merge-writer", "model.py", "    def recalculate_merged_cells(self, table_id: int) -> None:", "    @cache()\n    def recalculate_merged_cells(self, table_id: int) -> None:", "C03.R3"),
    # an unused class attribute changes nothing: the structural rule alarms, the equivalence proof discharges it
    T("unused-class-attribute", "numbers_cache.py", "class Cacheable:\n", "class Cacheable:\n    _shared = {}\n"),
    M("model-update-missing", "document.py", "        self.num_cols -= num_cols\n        self._model.number_of_columns(self._table_id, self.num_cols)\n", "        self.num_cols -= num_cols\n", "C03.R1"),
    M("save-mutates-grid", "model.py", "        table_model.number_of_rows = len(data)\n        table_model.number_of_columns = len(data[0])\n",
      "        table_model.number_of_rows = len(data)\n        table_model.number_of_columns = len(data[0])\n        data.append([])\n", "C03.R4"),
    M("default-fill-before-insert", "document.py", "            self._data[row][start_col:start_col] = cols\n\n            for col in range(len(self._data[row])):\n                self._data[row][col].col = col\n\n            if default is not None:\n                for col in range(start_col, start_col + num_cols):\n                    self.write(row, col, default)\n",
      "            if default is not None:\n                for col in range(start_col, start_col + num_cols):\n                    self.write(row, col, default)\n            self._data[row][start_col:start_col] = cols\n\n            for col in range(len(self._data[row])):\n                self._data[row][col].col = col\n", "C03.R2"),
    T("delete-row-equivalent-guard", "document.py", "if num_rows < 0 or num_rows > self.num_rows - (start_row or 0):",
      "if num_rows < 0 or (start_row or 0) + num_rows > self.num_rows:"),
    T("add-row-listcomp", "document.py",
      "        rows = []\n        for row in range(start_row, start_row + num_rows):\n            rows.append(\n                [\n                    Cell._empty_cell(self._table_id, row, col, self._model)\n                    for col in range(self.num_cols)\n                ],\n            )\n",
      "        rows = [\n            [Cell._empty_cell(self._table_id, row, col, self._model) for col in range(self.num_cols)]\n            for row in range(start_row, start_row + num_rows)\n        ]\n"),
]

"""C09 — references in formulas name exactly the stored target cells and table."""

from __future__ import annotations

import ast
import re

from .. import cfg as cfgmod
from ..core import AnalysisError, U, body_walk, call_name, last_attr, try_const
from ..selftest import M, T

EXPLANATION = (
    "axis/end/kind role tags (ROW|COL, BEGIN|END, COORD|IS_ABS) read off identifiers, protobuf field names and the two "
    "open-end sentinels; every keyword or positional binding in node_to_ref, range_end and the CellRange formatters must agree "
    "on the tags both sides carry; relative coordinates must be `stored if absolute else host + stored` within one axis; "
    "name-scope data must be fresh or invalidated by header writes and table additions"
)
TRUSTED = ["python ast", "role lexicon (frozen, below)", "statement CFG"]

ROW_SENTINEL = 0x7FFFFFFF
COL_SENTINEL = 0x7FFF


def tags(text: str):
    """(axes, ends, is_abs) mentioned by an identifier-like text."""
    t = text
    axes = set()
    ends = set()
    toks = re.findall(r"[A-Za-z]+|0x[0-9A-Fa-f]+|\d+", t)
    low = [x.lower() for x in toks]
    for x in low:
        if x in ("row", "rows"):
            axes.add("ROW")
        if x in ("col", "cols", "column", "columns"):
            axes.add("COL")
        if x in ("begin", "start"):
            ends.add("BEGIN")
        if x in ("end",):
            ends.add("END")
    for x in toks:
        try:
            v = int(x, 0)
        except ValueError:
            continue
        if v == ROW_SENTINEL:
            axes.add("ROW")
        elif v == COL_SENTINEL:
            axes.add("COL")
    is_abs = any(x in ("abs", "absolute") for x in low)
    return axes, ends, is_abs


def expr_tags(e):
    """Tags of an expression: union over its identifier chains and integer constants."""
    axes, ends = set(), set()
    is_abs = False
    parts = []
    for n in ast.walk(e):
        if isinstance(n, ast.Name):
            parts.append(n.id)
        elif isinstance(n, ast.Attribute):
            parts.append(n.attr)
        elif isinstance(n, ast.Constant) and isinstance(n.value, int) and not isinstance(n.value, bool):
            parts.append(hex(n.value))
        elif isinstance(n, ast.arg):
            parts.append(n.arg)
    # identifiers like AST_row / begin_row_is_absolute are split on underscores
    txt = " ".join(p.replace("_", " ") for p in parts)
    a, en, ab = tags(txt)
    return a, en, ab


def name_tags(name: str):
    return tags(name.replace("_", " "))


def check_binding(rep, node, where, formal: str, actual, rule="C09.R1"):
    fa, fe, fab = name_tags(formal)
    aa, ae, aab = expr_tags(actual)
    problems = []
    if fa and aa and not (aa == fa or (len(fa) == 1 and aa == fa)):
        if not aa <= fa:
            problems.append(f"axis {sorted(aa)} bound to {sorted(fa)}")
    if fe and ae and len(ae) == 1 and len(fe) == 1 and ae != fe:
        problems.append(f"{sorted(ae)[0]} value bound to {sorted(fe)[0]} parameter")
    if fab != aab and (fa or fe) and (aa or ae) and "abs" in formal.lower() + U(actual).lower():
        # a flag bound to a coordinate or vice versa
        if fab and not aab:
            problems.append("coordinate bound to an is-absolute parameter")
        elif aab and not fab and not isinstance(actual, ast.IfExp):
            problems.append("is-absolute flag bound to a coordinate parameter")
    checked = bool((fa and aa) or (fe and ae))
    if checked:
        rep.ob(rule, node, f"{where}: {formal} <- {U(actual)[:70]}", not problems,
               "" if not problems else "; ".join(problems) + ": the reference is printed for another cell/axis than the stored one",
               key=f"{rule}@{where}:{formal}")
    return checked


def check_calls_in(repo, rep, func, where, local_defs=None):
    """Check every keyword binding, and positional bindings of calls to functions defined in the repo or locally."""
    n_checked = 0
    local_defs = local_defs or {}
    for n in ast.walk(func):
        if not isinstance(n, ast.Call):
            continue
        cname = last_attr(n.func) or ""
        for kw in n.keywords:
            if kw.arg:
                n_checked += check_binding(rep, n, f"{where}:{cname}", kw.arg, kw.value)
        formals = None
        if cname in local_defs:
            formals = [a.arg for a in local_defs[cname].args.args]
        elif cname in ("xl_rowcol_to_cell", "xl_col_to_name", "xl_range"):
            formals = [a.arg for a in repo.func("xrefs.py", cname).args.args]
        elif cname in ("_format_row_range", "_format_col_range", "_format_cell_range", "_format_single_row", "_format_row_span", "_format_single_column", "_format_column_span"):
            formals = [a.arg for a in repo.func("xrefs.py", f"CellRange.{cname}").args.args][1:]
        if formals:
            for f, a in zip(formals, n.args):
                n_checked += check_binding(rep, n, f"{where}:{cname}", f, a)
    return n_checked


def _expand_ref_decision(ex, repo=None):
    """Decision table of CellRange.expand_ref, read off the summarised function (funsum): in every scenario of
    (kind and scope of the name, no_prefix, absolute, same table, same sheet, target table name unique) the text returned
    is the reference alone (P), ``table::ref`` (T) or ``sheet::table::ref`` (S) as the confirmed table prescribes, with
    the names of the *target* table and sheet, and the reference part is the same text in all three."""
    import copy
    import itertools

    from ..funsum import Asg, Summarizer, _Simp, _parts, decide
    from ..symexec import _strip
    params = [a.arg for a in ex.args.args]
    ref, is_abs, no_prefix = params[1], params[2], params[3]
    paths = Summarizer().summarize(ex)
    TABLE = "self.model.table_name(self.to_table_id)"
    SHEET = "self.model.sheet_name(self.to_sheet_id)"
    scopes = {"DOCUMENT": 1, "SHEET": 2, "TABLE": 3, "NONE": 4}
    n = 0

    def classify(r):
        from ..funsum import canon_text
        ps = _parts(r) if isinstance(r, (ast.JoinedStr, ast.BinOp)) else [("e", canon_text(r))]
        if len(ps) >= 4 and ps[0] == ("e", SHEET) and ps[1][0] == "s" and ps[1][1] == "::" and ps[2] == ("e", TABLE) and ps[3][0] == "s" and ps[3][1].startswith("::"):
            return "S", [("s", ps[3][1][2:])] + ps[4:] if ps[3][1] != "::" else ps[4:]
        if len(ps) >= 2 and ps[0] == ("e", TABLE) and ps[1][0] == "s" and ps[1][1].startswith("::"):
            return "T", ([("s", ps[1][1][2:])] + ps[2:]) if ps[1][1] != "::" else ps[2:]
        if any(k == "e" and t in (TABLE, SHEET) for k, t in ps):
            return "?", ps
        return "P", ps

    for kind_, A, G, C, D, NU in itertools.product(["str", "DOCUMENT", "SHEET", "TABLE", "NONE"], [False, True], [False, True], [False, True], [False, True], [False, True]):
        sc = {f"isinstance({ref}, ScopedNameRef)": kind_ != "str", no_prefix: A, is_abs: G,
              "self.from_table_id == self.to_table_id": C, "self.to_table_id == self.from_table_id": C,
              "self.from_sheet_id == self.to_sheet_id": D, "self.to_sheet_id == self.from_sheet_id": D,
              f"self.table_name_unique[{TABLE}]": NU}
        for k, v in scopes.items():
            sc[f"RefScope.{k}"] = v
        if kind_ != "str":
            sc[f"{ref}.scope"] = scopes[kind_]
        B, E = kind_ == "DOCUMENT", kind_ == "SHEET"
        F = kind_ == "TABLE" or NU
        want = "P" if (A or B or C) else (("T" if G else "P") if (D and E) else ("T" if (D or F) else "S"))
        outs = decide(paths, sc, limit=6)
        # the reference text itself: what is returned when no prefix is wanted, under the same quoting facts
        plain = {tuple(sorted(fx.items())): classify(_Simp(Asg({**sc, no_prefix: True}, fx)).visit(copy.deepcopy(_strip(p.ret))))[1]
                 for fx, _k, _g, p in decide(paths, {**sc, no_prefix: True}, limit=6)} if not A else None
        for fx, kind2, _got, p in outs:
            n += 1
            r = _Simp(Asg(sc, fx)).visit(copy.deepcopy(_strip(p.ret)))
            got, rest = classify(r)
            where = (f"name kind/scope {kind_}, no_prefix={A}, absolute={G}, same table={C}, same sheet={D}, target table name unique={NU}")
            if kind2 != "return" or got != want:
                return False, f"with {where} the reference is printed as {got} (P=plain, T=table::, S=sheet::table::) instead of {want}", n
            if plain is not None:
                key = tuple(sorted(fx.items()))
                cands = [v for k_, v in plain.items() if set(k_) <= set(key) or set(key) <= set(k_)]
                if cands and rest not in cands:
                    return False, f"with {where} the reference part of the text differs from the unprefixed reference", n
    return True, "", n


def check_col_to_name(repo, rep):
    """xl_col_to_name: bijective base-26 digits, least significant first, as many as the column needs.

    Decided structurally: the digit loop runs until the (1-based) column is exhausted, each digit is
    ((c - 1) mod 26) rendered from 'A', and the column is reduced by (c - 1) // 26."""
    from ..symexec import lin_opaque
    f = repo.func("xrefs.py", "xl_col_to_name")
    col = f.args.args[0].arg
    loops = [n for n in body_walk(f) if isinstance(n, (ast.While, ast.For))]
    recursive = any(isinstance(c, ast.Call) and call_name(c) == f.name for c in body_walk(f))
    if not loops and not recursive:
        n_chr = sum(1 for c in body_walk(f) if isinstance(c, ast.Call) and call_name(c) == "chr")
        rep.ob("C09.R3", f, "xl_col_to_name: produces as many letters as the column needs", False,
               f"no loop: at most {n_chr} letters can be produced, but columns from index 702 (AAA) up to the table limit need three", key="C09.R3@xl_col_to_name:digits")
        return
    if len(loops) != 1 or not isinstance(loops[0], ast.While):
        raise AnalysisError("xl_col_to_name: digit loop not recognised")
    lp = loops[0]
    t = U(lp.test).replace(" ", "")
    one_based = any(isinstance(n, ast.AugAssign) and U(n.target) == col and isinstance(n.op, ast.Add) and try_const(n.value) == 1 and n.lineno < lp.lineno for n in body_walk(f))
    test_ok = t in (col, f"{col}>0", f"{col}!=0", f"{col}>=1") and one_based
    # the reduction of the column inside the loop
    red = [n for n in lp.body if isinstance(n, (ast.Assign, ast.AugAssign)) and any(isinstance(x, ast.Name) and x.id == col and isinstance(x.ctx, ast.Store) for x in ast.walk(n))]
    red_ok = False
    red_txt = [U(n) for n in red]
    if len(red) == 1 and isinstance(red[0], ast.Assign) and U(red[0].targets[0]) == col:
        v = red[0].value
        if isinstance(v, ast.Call) and call_name(v) == "int" and len(v.args) == 1:
            v = v.args[0]
        if isinstance(v, ast.BinOp) and isinstance(v.op, (ast.FloorDiv, ast.Div)) and try_const(v.right) == 26:
            num = lin_opaque(v.left)
            red_ok = num.c == -1 and num.t == {col: 1}
    # the digit: remainder 1..26 rendered as chr(ord('A') + r - 1)
    src = U(lp).replace(" ", "")
    digit_ok = (f"{col}%26" in src and "=26" in src and "chr(ord('A')+" in src.replace('"', "'") and "-1)" in src) or f"chr(ord('A')+({col}-1)%26)" in src.replace('"', "'")
    prepend_ok = any(isinstance(n, ast.Assign) and isinstance(n.value, ast.BinOp) and isinstance(n.value.op, ast.Add) and U(n.value.right) == U(n.targets[0]) for n in lp.body)
    ok = test_ok and red_ok and digit_ok and prepend_ok
    why = []
    if not test_ok:
        why.append(f"the loop runs while `{U(lp.test)}` (expected: until the 1-based column is 0)")
    if not red_ok:
        why.append(f"the column is reduced by {red_txt} (expected (col - 1) // 26: a remainder of 0 stands for Z and borrows one from the next digit)")
    if not digit_ok:
        why.append("the digit is not the remainder 1..26 rendered from 'A'")
    if not prepend_ok:
        why.append("digits are not prepended")
    rep.ob("C09.R3", lp, "xl_col_to_name: bijective base-26 (digit = remainder 1..26, column reduced by (col - 1) // 26 until exhausted)", ok,
           "; ".join(why) + (": names of columns whose number is a multiple of 26 (AZ, BZ, ...) or that need three letters come out wrong" if why else ""),
           key="C09.R3@xl_col_to_name:digits")


def _range_edges(repo, rep, ntr, inner):
    """The four edges (row/column x begin/end) of the CellRange that node_to_ref builds for a colon-tract node.

    The function is summarised with its resolve helpers inlined (nested, module-level or already written in place); every
    stored field gets a distinct tracer value, and the keyword value of each edge is evaluated for every combination of
    (edge flagged absolute, relative list empty, stored absolute value is the open-edge sentinel).  Expected:
    absolute -> the stored absolute bound of that axis (begin: range_begin, end: range_end()); relative list empty and
    the absolute bound is the sentinel -> open edge; otherwise host row/column + the stored relative bound; an edge whose
    value is the axis' sentinel is passed as None."""
    import itertools

    from ..funsum import Summarizer, cval, _UNKNOWN
    params = [a.arg for a in ntr.args.args]
    host_row, host_col, node = params[2], params[3], params[4]
    helpers = dict(inner)
    for n in repo.tree("model.py").body:
        if isinstance(n, ast.FunctionDef) and n.name in ("resolve_range", "resolve_range_end", "range_begin") and n.name not in helpers:
            helpers[n.name] = n
    paths = Summarizer(inline=helpers).summarize(ntr)
    tract = [p for p in paths if p.kind == "return" and isinstance(p.ret, ast.Call) and call_name(p.ret) == "CellRange"
             and any(U(c).replace(" ", "").replace('"', "'") == f"{node}.HasField('AST_colon_tract')" and o for c, o in p.conds)]
    if not tract:
        raise AnalysisError("node_to_ref: the CellRange built for a colon-tract node was not found")
    n_ob = 0
    EDGES = {"row_start": ("row", "begin", host_row, ROW_SENTINEL), "row_end": ("row", "end", host_row, ROW_SENTINEL),
             "col_start": ("column", "begin", host_col, COL_SENTINEL), "col_end": ("column", "end", host_col, COL_SENTINEL)}
    tracer = {}
    k = 100
    for axis in ("row", "column"):
        for lst in ("absolute", "relative"):
            base = f"{node}.AST_colon_tract.{lst}_{axis}[0]"
            k += 50
            tracer[f"{base}.range_begin"] = k + 1
            tracer[f"range_end({base})"] = k + 3
    HOSTS = {host_row: 10000, host_col: 20000}
    for p in tract:
        kws = {kw.arg: kw.value for kw in p.ret.keywords}
        for edge, (axis, end, host, sent) in EDGES.items():
            n_ob += 1
            if edge not in kws:
                rep.ob("C09.R2", p.node, f"node_to_ref: {edge} of a range reference", False, f"CellRange is built without {edge}", key=f"C09.R2@node_to_ref:edge:{edge}")
                continue
            abs_t = f"{node}.AST_colon_tract.absolute_{axis}[0]"
            rel_t = f"{node}.AST_colon_tract.relative_{axis}[0]"
            abs_key = f"{abs_t}.range_begin" if end == "begin" else f"range_end({abs_t})"
            rel_key = f"{rel_t}.range_begin" if end == "begin" else f"range_end({rel_t})"
            flag = f"{node}.AST_sticky_bits.{end}_{axis}_is_absolute"
            bad = []
            other = COL_SENTINEL if sent == ROW_SENTINEL else ROW_SENTINEL
            for F, empty, M in itertools.product([True, False], [True, False], [True, False, "other"]):
                sc = {**tracer, **HOSTS}
                for ax2 in ("row", "column"):
                    for e2 in ("begin", "end"):
                        sc[f"{node}.AST_sticky_bits.{e2}_{ax2}_is_absolute"] = False
                    sc[f"{node}.AST_colon_tract.relative_{ax2}"] = (1,)
                sc[flag] = F
                sc[f"{node}.AST_colon_tract.relative_{axis}"] = () if empty else (1,)
                if M is True:
                    sc[abs_key] = sent
                elif M == "other":
                    sc[abs_key] = other  # a legitimate index that happens to equal the other axis' marker
                got = cval(kws[edge], sc)
                if F:
                    want = None if M is True else sc[abs_key]
                elif empty and M is True:
                    want = None
                else:
                    want = HOSTS[host] + tracer[rel_key]
                if got is _UNKNOWN or got != want:
                    inv = {v: k_ for k_, v in tracer.items()}

                    def show(x):
                        if x is _UNKNOWN:
                            return "a value the scenario does not determine"
                        if x is None:
                            return "None (open edge)"
                        for hn, hv in HOSTS.items():
                            if isinstance(x, int) and x - hv in inv:
                                return f"{hn} + {inv[x - hv]}"
                        return inv.get(x, hex(x) if isinstance(x, int) else repr(x))
                    bad.append(f"flag absolute={F}, relative list empty={empty}, stored bound is the sentinel={M}: {show(got)} instead of {show(want)}")
            rep.ob("C09.R2", p.node, f"node_to_ref: {edge} = stored {axis} {end} if flagged absolute, open edge for the sentinel, else {host} + relative {end} (12 cases)",
                   not bad, "" if not bad else bad[0] + (f" (and {len(bad) - 1} more)" if len(bad) > 1 else ""), key=f"C09.R2@node_to_ref:edge:{edge}")
    # absolute flags passed on: each edge's flag under its own keyword
    for p in tract[:1]:
        kws = {kw.arg: U(kw.value) for kw in p.ret.keywords}
        for kw_name, (axis, end) in {"row_start_is_abs": ("row", "begin"), "row_end_is_abs": ("row", "end"), "col_start_is_abs": ("column", "begin"), "col_end_is_abs": ("column", "end")}.items():
            n_ob += 1
            want = f"{node}.AST_sticky_bits.{end}_{axis}_is_absolute"
            rep.ob("C09.R1", p.node, f"node_to_ref: {kw_name} is the node's {end} {axis} flag", kws.get(kw_name) == want,
                   "" if kws.get(kw_name) == want else f"found `{kws.get(kw_name)}`", key=f"C09.R1@node_to_ref:flag:{kw_name}")
    return n_ob


def run(repo, rep, tier):
    ntr = repo.func("model.py", "_NumbersModel.node_to_ref")
    inner = {n.name: n for n in ntr.body if isinstance(n, ast.FunctionDef)}
    total = 0
    # ---- R1 tag consistency of the bindings that are spelled out
    total += check_calls_in(repo, rep, ntr, "node_to_ref", inner)
    # ---- R1/R2 the four edges of a range reference, by tracer values through the summarised function
    total += _range_edges(repo, rep, ntr, inner)
    re_f = repo.func("model.py", "range_end")
    s = U(re_f).replace(" ", "").replace("\n", "")
    ok = "ifobj.HasField('range_end'):returnobj.range_endreturnobj.range_begin" in s
    rep.ob("C09.R2", re_f, "range_end: stored end, or the begin when the range is a single index", ok, "", key="C09.R2@range_end")
    # single cell: stored if absolute else host + stored, one axis each
    for axis, host, fld, sub in (("ROW", "row", "AST_row", "row"), ("COL", "col", "AST_column", "column")):
        asg = [n for n in body_walk(ntr) if isinstance(n, ast.Assign) and U(n.targets[0]) == host and isinstance(n.value, ast.IfExp)]
        ok = False
        if asg:
            v = asg[0].value
            ok = U(v.test) == f"node.{fld}.absolute" and U(v.body) == f"node.{fld}.{sub}" and U(v.orelse).replace(" ", "") in (f"{host}+node.{fld}.{sub}", f"node.{fld}.{sub}+{host}")
        rep.ob("C09.R2", asg[0] if asg else ntr, f"node_to_ref: single-cell {axis} = stored if absolute else host + stored", ok,
               "" if ok else f"found `{U(asg[0].value) if asg else None}`", key=f"C09.R2@node_to_ref:cell:{axis}")
    # the writer's sentinels agree
    fs = U(repo.func("formula.py", "Formula.range_archive"))
    ok = ("'absolute_column': [{'range_begin': 32767}]" in fs) and ("'absolute_row': [{'range_begin': 2147483647}]" in fs)
    rep.ob("C09.R1", repo.func("formula.py", "Formula.range_archive"), "writer emits 0x7FFF for open columns and 0x7FFFFFFF for open rows", ok, "", key="C09.R1@writer:sentinels")
    # table of the reference
    s = U(ntr)
    ok = "to_table_id = self.table_uuids_to_id(table_uuid)" in s and "NumbersUUID(node.AST_cross_table_reference_extra_info.table_id).hex" in s and "from_table_id=table_id" in s and "to_table_id=to_table_id" in s
    rep.ob("C09.R1", ntr, "target table resolved from the node's cross-table uuid; host table passed as from_table_id", ok, "", key="C09.R1@node_to_ref:tables")
    tu = repo.func("model.py", "_NumbersModel.table_uuids_to_id")
    ok = "table_uuid == self.table_base_id(table_id)" in U(tu) and "return table_id" in U(tu)
    rep.ob("C09.R1", tu, "table uuid resolved by equality with the table's base id", ok, "", key="C09.R1@table_uuids_to_id")

    # ---- R3 formatters
    cr = repo.cls("xrefs.py", "CellRange")
    for fn in [n for n in cr.body if isinstance(n, ast.FunctionDef) and (n.name.startswith("_format") or n.name == "__str__")]:
        total += check_calls_in(repo, rep, fn, f"CellRange.{fn.name}")
    # expand_ref positional: (ref, is_abs, no_prefix): the flag passed next to a coordinate has the same axis and end
    for fn in [n for n in cr.body if isinstance(n, ast.FunctionDef) and n.name.startswith("_format")]:
        calls = [c for c in ast.walk(fn) if isinstance(c, ast.Call) and last_attr(c.func) == "expand_ref"]
        for c in calls:
            if len(c.args) >= 2:
                ca, ce, _ = expr_tags(c.args[0])
                fa, fe, fab = expr_tags(c.args[1])
                ok = fab and (not ca or ca == fa) and (not ce or len(ce) != 1 or not fe or ce == fe)
                rep.ob("C09.R3", c, f"CellRange.{fn.name}: `{U(c.args[0])[:40]}` marked by `{U(c.args[1])}`", ok,
                       "" if ok else "the '$' mark of another coordinate is attached", key=f"C09.R3@{fn.name}:{U(c.args[0])[:30]}:{U(c.args[1])}")
                total += 1
        # the second endpoint of a span is printed without prefix
        joins = [j for j in ast.walk(fn) if isinstance(j, ast.Call) and last_attr(j.func) == "join" and try_const(j.func.value) == ":"]
        for j in joins:
            elts = j.args[0].elts if j.args and isinstance(j.args[0], (ast.List, ast.Tuple)) else []
            if len(elts) == 2:
                from ..symexec import _unwrap_alias
                first, second = (_unwrap_alias(fn, e) for e in elts)
                np2 = any(kw.arg == "no_prefix" and try_const(kw.value) is True for kw in getattr(second, "keywords", []))
                _, e1, _ = expr_tags(first)
                _, e2, _ = expr_tags(second)
                ok = np2 and (e1 in ({"BEGIN"}, set()) or "END" not in e1 or e1 == {"BEGIN", "END"}) and (not e2 or "END" in e2 or e1 == e2)
                rep.ob("C09.R3", j, f"CellRange.{fn.name}: `begin:end` order, end point without prefix", ok,
                       "" if ok else "range end-points are swapped or the second one is qualified again", key=f"C09.R3@{fn.name}:span")
    # the first end-point of a span may drop its table prefix only for names that are unique in the whole document
    from ..symexec import resolve_single
    for fn in [n for n in cr.body if isinstance(n, ast.FunctionDef) and n.name in ("_format_row_span", "_format_column_span")]:
        for c in [c for c in ast.walk(fn) if isinstance(c, ast.Call) and last_attr(c.func) == "expand_ref"]:
            for kw in c.keywords:
                if kw.arg != "no_prefix" or try_const(kw.value, default="x") is True or try_const(kw.value, default="x") is False:
                    continue
                e = resolve_single(fn, kw.value)
                scopes = set()
                shape_ok = True
                for n in ast.walk(e):
                    if isinstance(n, ast.Compare):
                        if len(n.ops) == 1 and isinstance(n.ops[0], ast.Eq) and U(n.left).endswith(".scope"):
                            scopes.add(U(n.comparators[0]))
                        elif len(n.ops) == 1 and isinstance(n.ops[0], ast.In) and U(n.left).endswith(".scope") and isinstance(n.comparators[0], (ast.Tuple, ast.List, ast.Set)):
                            scopes |= {U(x) for x in n.comparators[0].elts}
                        else:
                            shape_ok = False
                ok = shape_ok and scopes == {"RefScope.DOCUMENT"}
                rep.ob("C09.R4", c, f"CellRange.{fn.name}: the span's prefix is dropped only for document-unique labels (scopes tested: {sorted(scopes)})", ok,
                       "" if ok else "a label that is unique only within its sheet or table is printed without its table: from another sheet the text names a different column or row",
                       key=f"C09.R4@{fn.name}:no-prefix-scope")
    check_col_to_name(repo, rep)
    xr = repo.func("xrefs.py", "xl_rowcol_to_cell")
    from ..symexec import Straight
    slx = Straight(xr)
    rets_x = [n for n in body_walk(xr) if isinstance(n, ast.Return) and n.value is not None]
    final = U(slx.at(rets_x[-1], rets_x[-1].value)).replace(" ", "") if rets_x else ""
    ok = final in ("xl_col_to_name(col,col_abs)+('$'ifrow_abselse'')+str(row+1)", "xl_col_to_name(col,col_abs)+(\"$\"ifrow_abselse\"\")+str(row+1)")
    rep.ob("C09.R3", xr, "xl_rowcol_to_cell: column letters, then the row '$', then the 1-based row", ok, "", key="C09.R3@xl_rowcol_to_cell")
    xc = repo.func("xrefs.py", "xl_col_to_name")
    s = U(xc).replace(" ", "")
    ok = "col_abs='$'ifcol_abselse''" in s and "returncol_abs+col_str" in s
    rep.ob("C09.R3", xc, "xl_col_to_name: '$' before the column letters", ok, "", key="C09.R3@xl_col_to_name")
    st = repo.func("xrefs.py", "CellRange.__str__")
    s = U(st).replace(" ", "").replace("\n", "")
    ok = "ifself.col_startisNone:row_range=self.model.name_ref_cache.row_ranges[self.to_table_id]" in s and "ifself.row_startisNone:col_range=self.model.name_ref_cache.col_ranges[self.to_table_id]" in s \
        and "returnself._format_cell_range(self.row_start,self.col_start,self.row_end,self.col_end)" in s
    rep.ob("C09.R3", st, "CellRange.__str__: row-only, column-only and cell forms selected by which axis is absent; names of the target table", ok, "", key="C09.R3@__str__")
    # the +1 of numeric rows
    for fn in ("_format_numeric_row", "_format_row_span"):
        f = repo.func("xrefs.py", f"CellRange.{fn}")
        strs = [c for c in ast.walk(f) if isinstance(c, ast.Call) and call_name(c) == "str"]
        ok = bool(strs) and all(U(c.args[0]).replace(" ", "") in ("row_start+1", "row_end+1") for c in strs)
        rep.ob("C09.R3", f, f"CellRange.{fn}: numeric rows printed 1-based", ok, "", key=f"C09.R3@{fn}:one-based")

    # ---- R4 freshness / invalidation of naming data
    cr_cls = repo.cls("xrefs.py", "CellRange")
    if repo.has_func("xrefs.py", "CellRange._initialize_table_data"):
        itd = repo.func("xrefs.py", "CellRange._initialize_table_data")
        src = None
        for n in body_walk(itd):
            if isinstance(n, ast.Assign) and U(n.targets[0]) == "self._table_names":
                src = U(n.value)
        ok = src == "self.model.table_names()"
        rep.ob("C09.R4", itd, f"CellRange table-name uniqueness computed from `{src}`", ok,
               "" if ok else "table names come from a cache that renames do not invalidate: after a rename the printed qualification can match another table", key="C09.R4@CellRange:table-names")
        s = U(itd).replace(" ", "")
        ok = "self.table_name_unique={name:self._table_names.count(name)==1fornameinself._table_names}" in s
        rep.ob("C09.R4", itd, "a table name is unique iff it occurs exactly once in the document", ok, "", key="C09.R4@CellRange:unique")
    else:
        # the per-reference recomputation is gone: whatever replaces it must still be derived from the model's current
        # table names when the reference is printed
        uses = [n for n in ast.walk(cr_cls) if isinstance(n, ast.Call) and U(n.func) == "self.model.table_names"]
        rep.ob("C09.R4", cr_cls, "CellRange table-name uniqueness computed from `self.model.table_names()` for every reference", bool(uses),
               "" if uses else "the table names are no longer read from the model when a reference is printed; a map kept elsewhere is not refreshed by a rename, so after one the printed "
               "qualification can denote another table", key="C09.R4@CellRange:table-names")
        rep.ob("C09.R4", cr_cls, "a table name is unique iff it occurs exactly once in the document", False,
               "the uniqueness table built from the current names was removed", key="C09.R4@CellRange:unique")
    w = repo.func("document.py", "Table.write")
    g = cfgmod.build(w)
    md = [n for n in body_walk(w) if isinstance(n, ast.Call) and last_attr(n.func) == "mark_dirty"]
    ok = False
    if md:
        from ..symexec import Straight, bool_equiv
        sl = Straight(w)
        conds = []
        p = getattr(md[0], "_parent", None)
        while p is not None and p is not w:
            if isinstance(p, ast.If):
                conds.append(sl.at(p, p.test))
            p = getattr(p, "_parent", None)
        want = ast.parse("row < self._model.num_header_rows(self._table_id) or col < self._model.num_header_cols(self._table_id)", mode="eval").body
        ok = len(conds) == 1 and bool_equiv(conds[0], want) is True
    rep.ob("C09.R4", md[0] if md else w, "Table.write invalidates the name cache whenever a header row/column cell is written", ok,
           "" if ok else "header labels can change without the name cache noticing", key="C09.R4@write:mark_dirty")
    at = repo.func("model.py", "_NumbersModel.add_table")
    ok = any(isinstance(n, ast.Call) and last_attr(n.func) == "mark_dirty" for n in body_walk(at))
    rep.ob("C09.R4", at, "adding a table invalidates the name cache", ok, "", key="C09.R4@add_table:mark_dirty")
    rf = repo.func("xrefs.py", "ScopedNameRefCache.refresh")
    s = U(rf).replace(" ", "").replace("\n", "")
    ok = "ifself._dirty_cache:self.calculate_named_ranges()self._dirty_cache=False" in s
    rep.ob("C09.R4", rf, "refresh recomputes exactly when dirty", ok, "", key="C09.R4@refresh")
    ex = repo.func("xrefs.py", "CellRange.expand_ref")
    s = U(ex)
    ok = "self.model.name_ref_cache.refresh()" in s
    rep.ob("C09.R4", ex, "expand_ref refreshes the name cache before deciding the prefix", ok, "", key="C09.R4@expand_ref:refresh")
    # prefix selection: the decision table of expand_ref (which qualification is returned under which facts), read from
    # the paths of the function, equals the confirmed table
    ok, detail, n_dec = _expand_ref_decision(ex)
    rep.ob("C09.R4", ex, "expand_ref qualifies with the *target* table/sheet names: none (same table), table, or sheet::table", ok,
           "" if ok else detail, key="C09.R4@expand_ref:prefix")
    # the absolute marker belongs to the name: it is added before the name is quoted ('$10%', never $'10%')
    from ..symexec import Straight
    sl_ = Straight(ex)
    rets_ = [n for n in body_walk(ex) if isinstance(n, ast.Return) and n.value is not None]
    bad_q = []
    for r_ in rets_:
        v_ = sl_.at(r_, r_.value)
        for j in [n for n in ast.walk(v_) if isinstance(n, ast.JoinedStr) and n.values and isinstance(n.values[0], ast.Constant) and str(n.values[0].value).startswith("$")]:
            inner = [q for fv in j.values if isinstance(fv, ast.FormattedValue) for q in ast.walk(fv.value)
                     if isinstance(q, ast.JoinedStr) and q.values and isinstance(q.values[0], ast.Constant) and str(q.values[0].value).startswith("'")]
            if inner:
                bad_q.append(r_.lineno)
    rep.ob("C09.R4", ex, "expand_ref: a quoted name carries its `$` inside the quotes", not bad_q,
           "" if not bad_q else f"returns at lines {sorted(set(bad_q))} put the absolute marker in front of the opening quote: the printed reference is not accepted back by the formula tokenizer",
           key="C09.R4@expand_ref:abs-inside-quotes")
    ssi = repo.func("xrefs.py", "CellRange._set_sheet_ids")
    s = U(ssi).replace(" ", "").replace("\n", "")
    ok = "ifself.to_table_idisNone:self.to_table_id=self.from_table_id" in s and "self.from_sheet_id=self.model.table_id_to_sheet_id(self.from_table_id)" in s and "self.to_sheet_id=self.model.table_id_to_sheet_id(self.to_table_id)" in s
    rep.ob("C09.R4", ssi, "host and target sheets derived from the host and target tables respectively", ok, "", key="C09.R4@sheet-ids")
    rep.extra["bindings_checked"] = total
    rep.floor("C09.R1", 40)
    rep.floor("C09.R2", 7)
    rep.floor("C09.R3", 14)
    rep.floor("C09.R4", 8)


VARIANTS = [
    M("row-abs-from-column-flag", "model.py", "row_start_is_abs=node.AST_sticky_bits.begin_row_is_absolute,", "row_start_is_abs=node.AST_sticky_bits.begin_column_is_absolute,", "C09.R1"),
    M("end-from-begin-flag", "model.py", "                node.AST_sticky_bits.end_row_is_absolute,\n                node.AST_colon_tract.absolute_row,\n                node.AST_colon_tract.relative_row,\n                row,",
      "                node.AST_sticky_bits.begin_row_is_absolute,\n                node.AST_colon_tract.absolute_row,\n                node.AST_colon_tract.relative_row,\n                row,", "C09.R"),
    M("col-host-row", "model.py", "                node.AST_colon_tract.relative_column,\n                col,\n                0x7FFF,\n            )\n\n            col_end", "                node.AST_colon_tract.relative_column,\n                row,\n                0x7FFF,\n            )\n\n            col_end", "C09.R"),
    M("row-sentinel-short", "model.py", "row_end=None if row_end == 0x7FFFFFFF else row_end,", "row_end=None if row_end == 0x7FFF else row_end,", "C09.R"),
    M("cellrange-swapped-ends", "model.py", "                row_end=None if row_end == 0x7FFFFFFF else row_end,\n                col_start=None if col_begin == 0x7FFF else col_begin,", "                row_end=None if row_begin == 0x7FFFFFFF else row_begin,\n                col_start=None if col_begin == 0x7FFF else col_begin,", "C09.R"),
    M("cell-relative-no-host", "model.py", "row = node.AST_row.row if node.AST_row.absolute else row + node.AST_row.row", "row = node.AST_row.row if node.AST_row.absolute else col + node.AST_row.row", "C09.R2"),
    M("format-cell-abs-swapped", "xrefs.py", "                        row_end,\n                        col_end,\n                        row_abs=self.row_end_is_abs,\n                        col_abs=self.col_end_is_abs,", "                        row_end,\n                        col_end,\n                        row_abs=self.col_end_is_abs,\n                        col_abs=self.row_end_is_abs,", "C09.R"),
    M("col-name-divmod-no-borrow", "xrefs.py", "        col = int((col - 1) / 26)", "        col = col // 26", "C09.R3"),
    T("col-name-floordiv", "xrefs.py", "        col = int((col - 1) / 26)", "        col = (col - 1) // 26"),
    M("span-prefix-dropped-for-sheet-scope", "xrefs.py", """                    no_prefix=row_range[row_start].scope == RefScope.DOCUMENT
                    or row_range[row_end].scope == RefScope.DOCUMENT,""", """                    no_prefix=row_range[row_start].scope in (RefScope.DOCUMENT, RefScope.SHEET)
                    or row_range[row_end].scope == RefScope.DOCUMENT,""", "C09.R4"),
    M("abs-marker-after-quoting", "xrefs.py", """        if isinstance(ref, ScopedNameRef):
            ref_str = f"${ref.name}" if is_abs else ref.name
        else:
            ref_str = f"${ref}" if is_abs else ref
        if any(x in ref_str for x in OPERATOR_PRECEDENCE):
            ref_str = f"'{ref_str}'"
        elif "'" in ref_str:
            ref_str = ref_str.replace("'", "'''")
""", """        ref_str = ref.name if isinstance(ref, ScopedNameRef) else ref
        if any(x in ref_str for x in OPERATOR_PRECEDENCE):
            ref_str = f"'{ref_str}'"
        elif "'" in ref_str:
            ref_str = ref_str.replace("'", "'''")
        if is_abs:
            ref_str = f"${ref_str}"
""", "C09.R4"),
    M("row-span-end-abs", "xrefs.py", "self.expand_ref(str(row_end + 1), self.row_end_is_abs, no_prefix=True),", "self.expand_ref(str(row_end + 1), self.row_start_is_abs, no_prefix=True),", "C09.R3"),
    M("stale-table-names", "xrefs.py", "self._table_names = self.model.table_names()", "self._table_names = self.model.name_ref_cache.table_names", "C09.R4"),
    M("write-no-invalidate-cols", "document.py", "        if row < self._model.num_header_rows(self._table_id) or col < self._model.num_header_cols(\n            self._table_id,\n        ):", "        if row < self._model.num_header_rows(self._table_id):", "C09.R4"),
    M("resolve-end-uses-begin", "model.py", "            return offset + range_end(relative_list[0])", "            return offset + relative_list[0].range_begin", "C09.R2"),
    M("one-based-rows-dropped", "xrefs.py", "self.expand_ref(str(row_start + 1), self.row_start_is_abs),\n                    self.expand_ref(str(row_end + 1)", "self.expand_ref(str(row_start), self.row_start_is_abs),\n                    self.expand_ref(str(row_end + 1)", "C09.R3"),
    T("kw-reordered", "model.py", "                from_table_id=table_id,\n                to_table_id=to_table_id,\n            )\n\n        row = node.AST_row.row", "                to_table_id=to_table_id,\n                from_table_id=table_id,\n            )\n\n        row = node.AST_row.row"),
]

"""C18 — formula tokenizer is lossless, total, and accepts every formula the reader emits."""

from __future__ import annotations

import ast

from .. import cfg as cfgmod
from ..core import AnalysisError, U, body_walk, call_name, last_attr, try_const
from ..escape import EscapeAnalysis
from ..selftest import M, T

EXPLANATION = (
    "totality by exception-escape analysis from Tokenizer.__init__ (dispatch followed through the consumers table; "
    "preconditions of consumers discharged by who-may-call + the dispatch table); agreement between registered "
    "characters and each consumer's own precondition; consumption accounting per consumer (characters appended = "
    "offset advance); inclusion of every glyph the formula reader emits in the tokenizer's dispatch"
)
TRUSTED = ["python ast", "exception hierarchy table", "linear guard facts", "glyphs extracted from formula.py handlers"]


def consumers_table(repo):
    parse = repo.func("tokenizer.py", "Tokenizer.parse")
    for n in body_walk(parse):
        if isinstance(n, ast.Assign) and U(n.targets[0]) == "consumers" and isinstance(n.value, ast.Tuple):
            out = []
            for e in n.value.elts:
                if isinstance(e, ast.Tuple) and len(e.elts) == 2:
                    chars = try_const(e.elts[0], _class_text_constants(repo))
                    meth = last_attr(e.elts[1])
                    out.append((chars, meth))
            return out, n
    raise AnalysisError("Tokenizer.parse: consumers table not found")


def _class_text_constants(repo):
    """Text constants a pattern of the tokenizer may be assembled from: names bound once to a string literal at module level
    or in the body of the Tokenizer class (``QUOTED_NAME = r"..."``), folded in order."""
    env = {}
    tree = repo.tree("tokenizer.py")
    bodies = [tree.body] + [c.body for c in tree.body if isinstance(c, ast.ClassDef) and c.name == "Tokenizer"]
    for body in bodies:
        for st in body:
            if isinstance(st, ast.Assign) and len(st.targets) == 1 and isinstance(st.targets[0], ast.Name):
                v = try_const(st.value, env, default=None)
                if isinstance(v, str):
                    env[st.targets[0].id] = v
    return env


def check_reader_quoting(repo, rep, cons):
    """The reader's quoting of row/column names (CellRange.expand_ref) against what the tokenizer accepts.

    Tokenizer side: a quoted name must be one match of the single-quote pattern (embedded quotes doubled) and a name
    that starts with '#' is read as an error code.  Reader side: which names are put in quotes, and how an embedded
    quote is written.  The facts are read from the two sources; the pattern is exercised as data with the re module."""
    import re as _re
    Q = chr(39)
    ex = repo.func("xrefs.py", "CellRange.expand_ref")
    regs = repo.module_assign("tokenizer.py", "Tokenizer.STRING_REGEXES")
    keys = [try_const(k) for k in regs.keys]
    pat = try_const(regs.values[keys.index(Q)].args[0], _class_text_constants(repo)) if Q in keys else None
    if not isinstance(pat, str):
        raise AnalysisError("Tokenizer.STRING_REGEXES: single-quote pattern is not a literal")
    rx = _re.compile(pat)
    needs_doubling = rx.fullmatch(Q + "it" + Q + "s" + Q) is None and rx.fullmatch(Q + "it" + Q + Q + "s" + Q) is not None
    # (a) the wrapped form
    def wrapped_inner(v):
        """the expression between the quotes of Q + <x> + Q in either spelling, else None"""
        if isinstance(v, ast.JoinedStr) and len(v.values) == 3 and all(isinstance(v.values[i], ast.Constant) and v.values[i].value == Q for i in (0, 2)) \
                and isinstance(v.values[1], ast.FormattedValue):
            return v.values[1].value
        if isinstance(v, ast.BinOp) and isinstance(v.op, ast.Add) and try_const(v.right) == Q and isinstance(v.left, ast.BinOp) and isinstance(v.left.op, ast.Add) \
                and try_const(v.left.left) == Q:
            return v.left.right
        return None
    # expand_ref and the new helpers it calls (a helper the confirmed tree does not have is read as part of its caller)
    from ..normalize import _pinned_functions
    tree_x = repo.tree("xrefs.py")
    cand = {}
    for n in ast.walk(tree_x):
        if isinstance(n, ast.FunctionDef) and n is not ex:
            cand.setdefault(n.name, n)
    pinned_x = {q.split(".")[-1] for q in _pinned_functions("xrefs.py")}
    closure, todo = [ex], [ex]
    while todo:
        cur_ = todo.pop()
        for c_ in ast.walk(cur_):
            nm_ = last_attr(c_.func) if isinstance(c_, ast.Call) else None
            if nm_ in cand and nm_ not in pinned_x and cand[nm_] not in closure:
                closure.append(cand[nm_])
                todo.append(cand[nm_])

    def closure_walk():
        for f_ in closure:
            yield from body_walk(f_)
    wraps = [n for n in closure_walk() if isinstance(n, (ast.Assign, ast.Return)) and n.value is not None and wrapped_inner(n.value) is not None]
    if not wraps:
        raise AnalysisError("expand_ref: the statement that puts a name in quotes was not found")
    inner = wrapped_inner(wraps[0].value)
    doubled = isinstance(inner, ast.Call) and last_attr(inner.func) == "replace" and [try_const(a) for a in inner.args] == [Q, Q + Q]
    ok = doubled or not needs_doubling
    rep.ob("C18.R4", wraps[0], "a name the reader puts in quotes has its embedded quotes doubled, as the tokenizer's quoted-name pattern requires", ok,
           "" if ok else f"the name is wrapped as it is: a header named it{Q}s-x is printed {Q}it{Q}s-x{Q}, which the tokenizer rejects (TokenizerError)", key="C18.R4@quoting:embedded-quote-in-quoted-name")
    # (b) a name with a quote but no operator character
    triples = [n for n in closure_walk() if isinstance(n, ast.Call) and last_attr(n.func) == "replace" and [try_const(a) for a in n.args] == [Q, Q * 3]]
    bare = bool(triples) and not any(t is x for w in wraps for t in triples for x in ast.walk(w))
    rep.ob("C18.R4", triples[0] if triples else ex, "a name that contains a quote is printed as a quoted name", not bare,
           "" if not bare else f"the quote is tripled and the name left unquoted: a header named it{Q}s is printed it{Q * 3}s, which the tokenizer rejects (TokenizerError)",
           key="C18.R4@quoting:bare-quote")
    # (c) names that start with a character the tokenizer reads as something else
    trig = [n for n in closure_walk() if isinstance(n, ast.Call) and call_name(n) == "any" and "OPERATOR_PRECEDENCE" in U(n)]
    # the same test written as a loop over the operator table with a membership test on the name
    trig += [n for n in closure_walk() if isinstance(n, ast.For) and U(n.iter).split(".")[0] == "OPERATOR_PRECEDENCE" and any(
        isinstance(c, ast.Compare) and len(c.ops) == 1 and isinstance(c.ops[0], ast.In) and U(c.left) == U(n.target) for c in ast.walk(n))]
    if not trig:
        raise AnalysisError("expand_ref: the test that decides whether a name is quoted was not found")
    try:
        opchars = set(ast.literal_eval(U(repo.module_assign("constants.py", "OPERATOR_PRECEDENCE"))).keys())
    except Exception as e:  # noqa: BLE001
        raise AnalysisError(f"constants.py: OPERATOR_PRECEDENCE is not a literal table ({e})") from e
    # no character that made the reader quote a name on the confirmed tree has left the table (its keys serve two purposes:
    # operator precedence and the quoting test; an operator the precedence code never looks up is still needed here)
    import json as _json
    import os as _os
    try:
        with open(_os.path.join(_os.path.dirname(_os.path.dirname(_os.path.abspath(__file__))), "reference", "tables.json"), encoding="utf-8") as fh_:
            ref_ops = set(_json.load(fh_)["OPERATOR_PRECEDENCE_KEYS"])
    except (OSError, KeyError, ValueError) as e:
        raise AnalysisError(f"reference table of operator characters not readable: {e}") from e
    gone = sorted(ref_ops - opchars)
    rep.ob("C18.R4", trig[0], f"every operator character that made the reader quote a name still does ({len(ref_ops)} characters)", not gone,
           "" if not gone else f"{gone} no longer make the reader quote a name: a header named 10{gone[0]} is printed bare and read as the name 10 followed by an operator "
           "(it then selects another row or column, or none)", key="C18.R4@quoting:operator-set")
    hash_consumer = next((m for chars, m in cons if isinstance(chars, str) and "#" in chars), None)
    rejects = hash_consumer == "parse_error"
    ok = "#" in opchars or not rejects
    rep.ob("C18.R4", trig[0], "a name beginning with '#' is quoted (the tokenizer reads '#' as the start of an error code)", ok,
           "" if ok else "'#' is not among the characters that make the reader quote a name: a header named #x is printed #x, which the tokenizer rejects as an invalid error code (TokenizerError)",
           key="C18.R4@quoting:hash-name")


def run(repo, rep, tier):
    cons, cons_node = consumers_table(repo)
    methods = repo.methods("tokenizer.py", "Tokenizer")
    parse = methods["parse"][0]
    consumer_names = [m for _, m in cons]
    regex_node = repo.module_assign("tokenizer.py", "Tokenizer.STRING_REGEXES")
    regex_keys = [try_const(k) for k in regex_node.keys]
    try:
        enders = try_const(repo.module_assign("tokenizer.py", "Tokenizer.TOKEN_ENDERS"), _class_text_constants(repo))
    except AnalysisError:
        enders = None  # the flush may have moved into the consumers: decided per consumer below

    # ---- who-may-call: consumers are invoked only through the dispatcher in parse
    direct_calls = []
    for n in ast.walk(repo.tree("tokenizer.py")):
        if isinstance(n, ast.Call) and isinstance(n.func, ast.Attribute) and n.func.attr in consumer_names and U(n.func.value) == "self":
            direct_calls.append(n.func.attr)
    rep.ob("C18.R1", cons_node, "consumers are invoked only through the dispatcher inside the scanning loop", not direct_calls,
           "" if not direct_calls else f"direct calls {direct_calls}: the position precondition of the consumer is not established", key="C18.R1@who-may-call")
    # consumers do not move the offset themselves
    movers = []
    for m in consumer_names + ["save_token", "assert_empty_token"]:
        for n in body_walk(methods[m][0]):
            if isinstance(n, (ast.Assign, ast.AugAssign)) and any(U(t) == "self.offset" for t in (n.targets if isinstance(n, ast.Assign) else [n.target])):
                movers.append(m)
    rep.ob("C18.R1", cons_node, "only parse and check_scientific_notation advance the offset", not movers, f"{movers}", key="C18.R1@offset-owners")
    # check_scientific_notation advances only on the paths that return True, and parse continues on True
    csn = methods["check_scientific_notation"][0]
    g = cfgmod.build(csn)
    adv = [n for n in body_walk(csn) if isinstance(n, ast.AugAssign) and U(n.target) == "self.offset"]
    rets_true = [n for n in body_walk(csn) if isinstance(n, ast.Return) and try_const(n.value) is True]
    ok = bool(adv) and all(cfgmod.must_reach(csn, a, rets_true) for a in adv) and all(try_const(a.value) == 1 and isinstance(a.op, ast.Add) for a in adv)
    use = [n for n in body_walk(parse) if isinstance(n, ast.If) and U(n.test) == "self.check_scientific_notation()" and len(n.body) == 1 and isinstance(n.body[0], ast.Continue)]
    rep.ob("C18.R1", csn, "check_scientific_notation advances by one only when it returns True, and parse restarts the loop then", ok and bool(use), "", key="C18.R1@sci-notation")
    offset_stable = ok and bool(use)

    # ---- dispatch call site establishes offset < len(formula)
    loop = [n for n in body_walk(parse) if isinstance(n, ast.While)]
    loop_ok = bool(loop) and U(loop[0].test).replace(" ", "") == "self.offset<len(self.formula)"
    rep.ob("C18.R1", loop[0] if loop else parse, "scanning loop runs while offset < len(formula)", loop_ok, "", key="C18.R1@loop-guard")
    # the dispatch: ``dispatcher[c]()`` under ``c in dispatcher``, or ``f = dispatcher.get(c)`` / ``f()`` under ``f is not None``
    disp_calls = [n for n in body_walk(parse) if isinstance(n, ast.Call) and isinstance(n.func, ast.Subscript) and U(n.func.value) == "dispatcher"]
    disp_names = {}
    for n in body_walk(parse):
        if isinstance(n, ast.Assign) and len(n.targets) == 1 and isinstance(n.targets[0], ast.Name) and isinstance(n.value, ast.Call) \
                and U(n.value.func) == "dispatcher.get" and len(n.value.args) == 1:
            disp_names[n.targets[0].id] = U(n.value.args[0])
    key_txt = U(disp_calls[0].func.slice) if disp_calls else None
    guard_txts = ["curr_char in dispatcher"]
    if not disp_calls:
        via = [n for n in body_walk(parse) if isinstance(n, ast.Call) and isinstance(n.func, ast.Name) and n.func.id in disp_names and not n.args]
        disp_calls = via
        if via:
            key_txt = disp_names[via[0].func.id]
            guard_txts = [f"{via[0].func.id} is not None", f"{via[0].func.id}"]
    in_loop = bool(disp_calls) and bool(loop) and any(disp_calls[0] is x for x in ast.walk(loop[0]))
    key_ok = bool(disp_calls) and key_txt == "curr_char" and any(
        isinstance(n, ast.Assign) and U(n.targets[0]) == "curr_char" and U(n.value) == "self.formula[self.offset]" for n in body_walk(parse))
    guard_ok = bool(disp_calls) and isinstance(getattr(disp_calls[0], "_parent", None), ast.AugAssign) and any(
        isinstance(n, ast.If) and U(n.test) in guard_txts and any(disp_calls[0] is x for x in ast.walk(ast.Module(body=n.body, type_ignores=[]))) for n in body_walk(parse))
    if not guard_ok and disp_calls and isinstance(getattr(disp_calls[0], "_parent", None), ast.AugAssign) and isinstance(disp_calls[0].func, ast.Name):
        # guard clause: ``if f is None: <handle the plain character>; continue`` before ``offset += f()`` in the same block
        nm_ = disp_calls[0].func.id
        stmt_ = disp_calls[0]._parent
        blk_ = getattr(stmt_, "_parent", None)
        body_ = getattr(blk_, "body", None)
        if isinstance(body_, list) and stmt_ in body_:
            for prev_ in body_[: body_.index(stmt_)]:
                if isinstance(prev_, ast.If) and U(prev_.test) in (f"{nm_} is None", f"not {nm_}") and prev_.body and isinstance(prev_.body[-1], (ast.Continue, ast.Return, ast.Raise)) \
                        and not prev_.orelse:
                    guard_ok = True
    rep.ob("C18.R1", disp_calls[0] if disp_calls else parse, "dispatch: offset += dispatcher[formula[offset]]() under `curr_char in dispatcher`, inside the loop", in_loop and key_ok and guard_ok, "",
           key="C18.R1@dispatch-site")
    pre_ok = not direct_calls and not movers and loop_ok and in_loop and key_ok and offset_stable

    def safe_site(node, func, kind):
        name = getattr(func, "name", "")
        txt = U(node)
        if kind == "subscript":
            if txt == "self.formula[self.offset]" and (name in consumer_names or name in ("parse", "check_scientific_notation")):
                return pre_ok
            if txt == "self.STRING_REGEXES[delim]" and name == "parse_string":
                chars = next((c for c, m in cons if m == "parse_string"), "")
                return pre_ok and set(chars) <= set(regex_keys)
            if txt == "dispatcher[curr_char]":
                return guard_ok
            if txt == "value[-1]" and name == "make_subexp":
                return make_subexp_args_nonempty(repo)
        return False

    def extra_resolve(call, func, cls):
        if isinstance(call.func, ast.Subscript) and U(call.func.value) == "dispatcher":
            return [methods[m][0] for m in consumer_names]
        if isinstance(call.func, ast.Name) and call.func.id in disp_names and getattr(func, "name", "") == "parse":
            return [methods[m][0] for m in consumer_names]
        return None

    ea = EscapeAnalysis(repo, safe_site=safe_site, extra_resolve=extra_resolve)
    entry = methods["__init__"][0]
    esc = ea.escapes(entry)
    bad = {}
    for c, d, loc in esc:
        if ea.sub(c.rstrip("?"), "np.TokenizerError"):
            continue
        bad.setdefault((c, loc), d)
    for (c, loc), d in sorted(bad.items()):
        rep.ob("C18.R1", loc, f"{c} from `{d}`", False,
               f"{c} raised at {loc} can escape Tokenizer(text): tokenizing must either succeed or fail with TokenizerError",
               key=f"C18.R1@escape:{c}:{d[:50]}", func="tokenizer.py")
    rep.ob("C18.R1", entry, f"escape set of Tokenizer.__init__ over {len(ea.functions)} functions / {ea.sites} raising sites is within TokenizerError", not bad, "",
           key="C18.R1@summary" if not bad else "C18.R1@summary:foreign")
    for q in sorted(ea.functions):
        rep.analysed(q)
    need = {f"tokenizer.py:Tokenizer.{m}" for m in consumer_names} | {"tokenizer.py:Tokenizer.parse", "tokenizer.py:Token.make_operand", "tokenizer.py:Token.make_subexp", "tokenizer.py:Token.get_closer"}
    missing = sorted(need - set(ea.functions))
    if missing:
        raise AnalysisError(f"tokenizer closure does not reach {missing}")
    rep.extra["unknown_external_calls_assumed_silent"] = sorted(ea.unknown_calls)

    # ---- R2 dispatch agreement
    pre = {
        "parse_string": set(regex_keys),
        "parse_error": {"#"},
        "parse_opener": {"(", "{"},
        "parse_closer": {")", "}"},
        "parse_separator": {";", ","},
    }
    po = methods["parse_operator"][0]
    handled = set()
    two = []
    for n in body_walk(po):
        if isinstance(n, ast.Compare) and isinstance(n.ops[0], ast.In):
            v = try_const(n.comparators[0])
            if v is None and isinstance(n.comparators[0], ast.Attribute) and isinstance(n.comparators[0].value, ast.Name) and n.comparators[0].value.id in ("self", "cls", "Tokenizer"):
                # a class-level table: read its value
                try:
                    v = try_const(repo.module_assign("tokenizer.py", f"Tokenizer.{n.comparators[0].attr}"))
                except AnalysisError:
                    v = None
            if isinstance(v, str):
                handled |= set(v)
            elif isinstance(v, tuple):
                two = [x for x in v if isinstance(x, str)]
                handled |= {x[0] for x in two}
        if isinstance(n, ast.Compare) and isinstance(n.ops[0], ast.Eq) and isinstance(try_const(n.comparators[0]), str):
            handled.add(try_const(n.comparators[0]))
    handled |= {"+", "-"}  # the fall-through branch ("guaranteed to be in '+-'")
    pre["parse_operator"] = handled
    # verify each consumer's own guard names the same set
    for chars, m in cons:
        ok = isinstance(chars, str) and set(chars) <= pre.get(m, set())
        rep.ob("C18.R2", cons_node, f"characters {chars!r} registered for {m} satisfy its precondition {sorted(pre.get(m, set()))}", ok,
               "" if ok else f"{sorted(set(chars or '') - pre.get(m, set()))} would reach a consumer that does not handle them", key=f"C18.R2@{m}")
    for m, want in (("parse_error", "#"), ("parse_opener", ("(", "{")), ("parse_closer", (")", "}")), ("parse_separator", (";", ","))):
        f = methods[m][0]
        lits = [try_const(n.comparators[0]) for n in body_walk(f) if isinstance(n, ast.Compare) and isinstance(n.ops[0], (ast.NotIn, ast.NotEq))]
        ok = any(l == want for l in lits)
        rep.ob("C18.R2", f, f"{m} refuses anything but {want}", ok, "", key=f"C18.R2@{m}:guard")
    op_chars = next((c for c, m in cons if m == "parse_operator"), "")
    closers = next((c for c, m in cons if m == "parse_closer"), "")
    seps = next((c for c, m in cons if m == "parse_separator"), "")
    need_end = set(op_chars) | set(closers) | set(seps)
    fl = [n for n in body_walk(parse) if isinstance(n, ast.If) and isinstance(n.test, ast.Compare) and len(n.test.ops) == 1 and isinstance(n.test.ops[0], ast.In)
          and U(n.test.comparators[0]).endswith("TOKEN_ENDERS") and n.body and U(n.body[0]) == "self.save_token()"]
    loop_flush = bool(fl) and bool(disp_calls) and cfgmod.dominates(parse, fl[0], disp_calls[0])
    not_flushed = {}
    for m, chars in (("parse_operator", op_chars), ("parse_closer", closers), ("parse_separator", seps)):
        f = methods[m][0]
        in_loop = loop_flush and isinstance(enders, str) and set(chars) <= set(enders)
        emits = [c for c in body_walk(f) if isinstance(c, ast.Call) and U(c.func) == "self.items.append"]
        saves = [c for c in body_walk(f) if isinstance(c, ast.Call) and U(c.func) == "self.save_token"]

        def stmt_of(x):
            while not isinstance(x, ast.stmt):
                x = x._parent
            return x
        in_consumer = bool(emits) and all(cfgmod.precedes_on_all_paths(f, [stmt_of(sv) for sv in saves], stmt_of(e)) for e in emits) if saves else False
        if not (in_loop or in_consumer):
            late = [e for e in emits if not (saves and cfgmod.precedes_on_all_paths(f, [stmt_of(sv) for sv in saves], stmt_of(e)))]
            not_flushed[m] = (sorted(set(chars) - set(enders or "")) if loop_flush else list(chars), late)
    ok = not not_flushed
    detail = ""
    if not ok:
        m, (chs, late) = next(iter(not_flushed.items()))
        detail = (f"{m}: for {chs[:8]} neither the scanning loop nor the consumer saves the pending operand before the new token is emitted"
                  + (f" (line {late[0].lineno})" if late else "") + ": the operand text would be emitted after the operator")
    rep.ob("C18.R2", cons_node, "every operator, closer and separator character ends the pending operand before its own token is emitted", ok, detail, key="C18.R2@enders")
    flush_ok, flush_detail = ok, detail
    ok = all(len(x) in (1, 2) and x[0] in set(op_chars) for x in two) and bool(two)
    rep.ob("C18.R2", po, f"two-character operators {two} start with registered operator characters", ok, "", key="C18.R2@two-char")
    rep.ob("C18.R2", fl[0] if fl else parse, "pending operand is flushed before an ender is dispatched (in the loop or in every consumer)", flush_ok, flush_detail, key="C18.R2@flush-before-dispatch")

    # ---- R3 consumption accounting
    def returns_of(f):
        return [n for n in body_walk(f) if isinstance(n, ast.Return) and n.value is not None]

    # every consumer: on each returning path exactly one token (or one piece of buffered text) is produced and its text
    # is the consumed slice of the formula (path model in nvstatic/consumers.py)
    from ..consumers import check_consumer
    slots = {
        "parse_operator": [("C18.R3@parse_operator:2", "parse_operator: two-character operator -> token formula[offset:offset+2], consumes 2"),
                           ("C18.R3@parse_operator:1", "parse_operator: one-character operator -> token formula[offset], consumes 1")],
        "parse_string": [("C18.R3@parse_string", "parse_string: the matched prefix is one token and exactly its length is consumed"),
                         ("C18.R3@parse_string:single", "parse_string: nothing but the match is appended (a quoted string is never split)")],
        "parse_error": [("C18.R3@parse_error", "parse_error: a matching error code is one token and its length is consumed")],
        "parse_opener": [("C18.R3@parse_opener:one", "parse_opener: consumes exactly one character"),
                         ("C18.R3@parse_opener:token", "parse_opener: pending name + '(' becomes one function token and the buffer is cleared")],
        "parse_closer": [("C18.R3@parse_closer:one", "parse_closer: consumes exactly one character"),
                         ("C18.R3@parse_closer:text", "parse_closer: the closing token text equals the consumed character")],
        "parse_separator": [("C18.R3@parse_separator:one", "parse_separator: consumes exactly one character"),
                            ("C18.R3@parse_separator:text", "parse_separator: token text equals the consumed character")],
    }
    for m, obs in slots.items():
        f = methods[m][0]
        probs = check_consumer(f)
        if m in ("parse_opener", "parse_closer", "parse_separator"):
            if not all(try_const(r.value) == 1 for r in returns_of(f)):
                probs = probs + ["a path consumes another count than 1"]
        if m == "parse_opener":
            if not any(isinstance(c, ast.Call) and U(c.func) == "self.token_stack.append" for c in body_walk(f)):
                probs = probs + ["the opener is not pushed on the token stack"]
        for key, text in obs:
            rep.ob("C18.R3", f, text, not probs, "; ".join(probs[:2]) + (": the token list is no longer the formula text in order" if probs else ""), key=key)
    # main loop
    from ..symexec import body_paths
    ok = False
    if loop:
        kinds = []
        for conds, steps, end in body_paths(loop[0].body):
            disp = any(disp_calls and any(x is disp_calls[0] for x in ast.walk(st_)) for st_ in steps)
            buf = [st_ for st_ in steps if isinstance(st_, ast.Expr) and isinstance(st_.value, ast.Call) and U(st_.value.func) == "self.token.append"]
            adv = [st_ for st_ in steps if isinstance(st_, ast.AugAssign) and U(st_.target) == "self.offset" and isinstance(st_.op, ast.Add)]
            sci = any("check_scientific_notation" in U(t) and o for t, o in conds)
            if sci:
                kinds.append("sci" if not buf and not disp and not adv else "bad")
            elif disp:
                kinds.append("dispatch" if not buf and len(adv) == 1 else "bad")
            else:
                good = len(buf) == 1 and U(buf[0].value.args[0]) == "curr_char" and len(adv) == 1 and try_const(adv[0].value) == 1
                kinds.append("buffer" if good else "bad")
        ok = "bad" not in kinds and "buffer" in kinds and "dispatch" in kinds
    rep.ob("C18.R3", parse, "parse: an ordinary character is buffered and consumes one", ok, "" if ok else "some path through the scanning loop neither dispatches, nor buffers exactly the current character and advances by one",
           key="C18.R3@parse:buffer")
    ok = isinstance(parse.body[-1], ast.Expr) and U(parse.body[-1].value) == "self.save_token()"
    rep.ob("C18.R3", parse, "parse: the pending operand is flushed at the end of input", ok, "" if ok else "trailing operand characters are dropped", key="C18.R3@parse:final-flush")
    st = methods["save_token"][0]
    s = U(st).replace(" ", "").replace("\n", "")
    ok = "ifself.token:self.items.append(Token.make_operand(''.join(self.token)))delself.token[:]" in s
    rep.ob("C18.R3", st, "save_token: buffered characters become one operand, then the buffer is cleared", ok, "" if ok else "characters are duplicated or lost", key="C18.R3@save_token")
    s = U(csn).replace(" ", "").replace("\n", "")
    ok = "self.token.append(curr_char)self.offset+=1returnTrue" in s and "curr_char=self.formula[self.offset]" in s
    rep.ob("C18.R3", csn, "check_scientific_notation: the sign is buffered and consumes one", ok, "", key="C18.R3@sci:buffer")
    mo = repo.func("tokenizer.py", "Token.make_operand")
    # every token the classmethod builds carries the text it was given, unchanged, as an OPERAND
    vparam = mo.args.args[1].arg
    builds = [r.value for r in body_walk(mo) if isinstance(r, ast.Return) and isinstance(r.value, ast.Call) and U(r.value.func) == "cls"]
    ok = bool(builds) and all(len(c.args) >= 2 and U(c.args[0]) == vparam and U(c.args[1]) == "cls.OPERAND" for c in builds) and \
        not any(isinstance(n, (ast.Assign, ast.AugAssign)) and any(isinstance(x, ast.Name) and x.id == vparam and isinstance(x.ctx, ast.Store) for x in ast.walk(n)) for n in body_walk(mo)) and \
        len(builds) == len([r for r in body_walk(mo) if isinstance(r, ast.Return)])
    rep.ob("C18.R3", mo, "make_operand keeps the operand text unchanged", ok, "", key="C18.R3@make_operand")
    ms = repo.func("tokenizer.py", "Token.make_subexp")
    # every token built carries the value it was given: ``cls(value, ...)`` on each return, the parameter never rebound
    vp_ = ms.args.args[1].arg
    rets_ = [r for r in body_walk(ms) if isinstance(r, ast.Return)]
    rebound_ = any(isinstance(x, ast.Name) and x.id == vp_ and isinstance(x.ctx, (ast.Store, ast.Del)) for x in ast.walk(ms))
    ok = bool(rets_) and not rebound_ and all(isinstance(r.value, ast.Call) and U(r.value.func) == "cls" and r.value.args and U(r.value.args[0]) == vp_ for r in rets_)
    rep.ob("C18.R3", ms, "make_subexp keeps the token text unchanged", ok, "", key="C18.R3@make_subexp")
    ti = repo.func("tokenizer.py", "Token.__init__")
    ok = "self.value = value" in U(ti)
    rep.ob("C18.R3", ti, "Token stores the text it was given", ok, "", key="C18.R3@token-init")

    # ---- R4 the reader's glyphs are accepted
    glyphs = reader_glyphs(repo)
    dispatch_chars = set("".join(c for c, _ in cons))
    for gch, where in sorted(glyphs.items()):
        ok = gch in dispatch_chars or gch == ":"
        rep.ob("C18.R4", where, f"reader glyph {gch!r} is dispatched by the tokenizer", ok,
               "" if ok else "formulas printed by the library contain a character the tokenizer treats as operand text", key=f"C18.R4@glyph:{gch}", func="formula.py")
    pat = None
    for k, v in zip(regex_node.keys, regex_node.values):
        if try_const(k) == '"' and isinstance(v, ast.Call):
            pat = try_const(v.args[0], _class_text_constants(repo))
    ok = pat in ('"(?:[^"]*"")*[^"]*"(?!")', '"(?:[^"]|"")*"(?!")')
    rep.ob("C18.R4", regex_node, f"double-quoted literal regex accepts doubled quotes and ends at the closing quote: {pat!r}", ok,
           "" if ok else "the string form the reader prints (quotes doubled) is not matched as a single token", key="C18.R4@string-regex")
    # regex AST: inside a quoted string/name the run of non-delimiter characters may be empty everywhere
    import re._parser as rp
    import re._constants as rc

    for k, v in zip(regex_node.keys, regex_node.values):
        delim = try_const(k)
        patt = try_const(v.args[0], _class_text_constants(repo)) if isinstance(v, ast.Call) and v.args else None
        if not isinstance(patt, str):
            raise AnalysisError("STRING_REGEXES: pattern is not a literal")
        bad = []
        n_rep = 0

        def walk(items):
            nonlocal n_rep
            for op, av in items:
                if op in (rc.MAX_REPEAT, rc.MIN_REPEAT):
                    lo, hi, sub = av
                    subl = list(sub)
                    neg_delim = len(subl) == 1 and (
                        (subl[0][0] == rc.NOT_LITERAL and subl[0][1] == ord(delim))
                        or (subl[0][0] == rc.IN and subl[0][1][0][0] == rc.NEGATE and (rc.LITERAL, ord(delim)) in subl[0][1]))
                    if neg_delim:
                        n_rep += 1
                        if lo != 0 or hi != rc.MAXREPEAT:
                            bad.append(f"[^{delim}] repeated {{{lo},{'inf' if hi == rc.MAXREPEAT else hi}}}")
                    walk(subl)
                elif op == rc.SUBPATTERN:
                    walk(list(av[3]))
                elif op == rc.BRANCH:
                    for br in av[1]:
                        walk(list(br))
                elif op in (rc.ASSERT, rc.ASSERT_NOT):
                    walk(list(av[1]))

        walk(list(rp.parse(patt)))
        ok = not bad and n_rep >= 2
        rep.ob("C18.R4", v, f"quoted-{'string' if delim == chr(34) else 'name'} regex: every run of non-quote characters may be empty ({n_rep} runs)", ok,
               "" if ok else f"{bad}: a doubled quote directly followed by the closing quote ends the match early and the quoted text is split across tokens", key=f"C18.R4@regex-runs:{'dq' if delim == chr(34) else 'sq'}")
    ok = "formula_str.translate(OPERATOR_MAP)" in U(repo.func("formula.py", "Formula.formula_tokens"))
    rep.ob("C18.R4", repo.func("formula.py", "Formula.formula_tokens"), "writer normalises typographic operators before tokenizing", ok, "", key="C18.R4@translate")
    rep.sub(check_reader_quoting, repo, rep, cons)
    rep.floor("C18.R1", 6)
    rep.floor("C18.R2", 12)
    rep.floor("C18.R3", 18)
    rep.floor("C18.R4", 14)


def make_subexp_args_nonempty(repo) -> bool:
    """Every call of Token.make_subexp passes a non-empty string (so value[-1] exists)."""
    ok = True
    n_calls = 0
    for n in ast.walk(repo.tree("tokenizer.py")):
        if isinstance(n, ast.Call) and last_attr(n.func) == "make_subexp" and n.args:
            n_calls += 1
            a = n.args[0]
            v = try_const(a)
            if isinstance(v, str) and v:
                continue
            if isinstance(a, ast.Name):
                # local assigned from a non-empty expression
                fn = next((p for p in _anc(n) if isinstance(p, ast.FunctionDef)), None)
                defs = [x.value for x in body_walk(fn) if isinstance(x, ast.Assign) and U(x.targets[0]) == a.id] if fn else []
                if defs and all(_nonempty(d) for d in defs):
                    continue
            if _nonempty(a):
                continue
            ok = False
    return ok and n_calls >= 3


def _nonempty(e) -> bool:
    v = try_const(e)
    if isinstance(v, str):
        return bool(v)
    if isinstance(e, ast.BinOp) and isinstance(e.op, ast.Add):
        return _nonempty(e.left) or _nonempty(e.right)
    if isinstance(e, ast.IfExp):
        return _nonempty(e.body) and _nonempty(e.orelse)
    return False


def _anc(n):
    p = getattr(n, "_parent", None)
    while p is not None:
        yield p
        p = getattr(p, "_parent", None)


def reader_glyphs(repo) -> dict:
    """Non-alphanumeric literal characters the Formula handlers put into pushed f-strings."""
    out = {}
    cls = repo.cls("formula.py", "Formula")
    for fn in [n for n in cls.body if isinstance(n, ast.FunctionDef)]:
        for c in ast.walk(fn):
            if isinstance(c, ast.Call) and last_attr(c.func) == "push" and c.args and isinstance(c.args[0], ast.JoinedStr):
                for v in c.args[0].values:
                    if isinstance(v, ast.Constant) and isinstance(v.value, str):
                        for ch in v.value:
                            if not ch.isalnum() and ch not in " _.!":
                                out.setdefault(ch, repo.loc(c))
            if isinstance(c, ast.Call) and last_attr(c.func) == "join" and isinstance(c.func, ast.Attribute):
                sep = try_const(c.func.value)
                if isinstance(sep, str) and fn.name in ("function", "list", "array"):
                    for ch in sep:
                        out.setdefault(ch, repo.loc(c))
    return out


VARIANTS = [
    M("operator-table-loses-percent", "constants.py", 'OPERATOR_PRECEDENCE = {"%": 6, "^": 5,', 'OPERATOR_PRECEDENCE = {"^": 5,', "C18.R4"),
    M("revert-fix-empty-stack", "tokenizer.py", "        if not self.token_stack:\n            msg = f\"No matching opener for closer at position {self.offset} in '{self.formula}'\"\n            raise TokenizerError(msg)\n", "", "C18.R1"),
    M("two-char-returns-1", "tokenizer.py", "                ),\n            )\n            return 2", "                ),\n            )\n            return 1", "C18.R3"),
    M("opener-keeps-buffer", "tokenizer.py", "            token_value = \"\".join(self.token) + \"(\"\n            del self.token[:]", "            token_value = \"\".join(self.token) + \"(\"", "C18.R3"),
    M("enders-missing-divide", "tokenizer.py", 'TOKEN_ENDERS = ",;})+-*/^&=><%×÷≥≤≠"', 'TOKEN_ENDERS = ",;})+-*/^&=><%×≥≤≠"', "C18.R2"),
    M("no-final-flush", "tokenizer.py", "                self.token.append(curr_char)\n                self.offset += 1\n        self.save_token()", "                self.token.append(curr_char)\n                self.offset += 1", "C18.R3"),
    M("string-regex-no-doubling", "tokenizer.py", """'"': re.compile('"(?:[^"]*"")*[^"]*"(?!")'),""", """'"': re.compile('"[^"]*"'),""", "C18.R4"),
    M("sq-regex-nonempty-run", "tokenizer.py", """"'": re.compile(r"(?:'[^']*(?:''[^']*)*')(?:\\s*:\\s*'[^']*(?:''[^']*)*')*"),""", """"'": re.compile(r"(?:'[^']*(?:''[^']+)*')(?:\\s*:\\s*'[^']*(?:''[^']+)*')*"),""", "C18.R4"),
    M("hash-dispatch-missing-guard", "tokenizer.py", '            ("#", self.parse_error),', '            ("#@", self.parse_error),', "C18.R2"),
    M("float-uncaught", "tokenizer.py", "            except ValueError:\n                subtype = cls.RANGE", "            except TypeError:\n                subtype = cls.RANGE", "C18.R1"),
    M("separator-stack-uncaught", "tokenizer.py", "            except IndexError:\n                token = Token(\",\", Token.OP_IN)  # Range Union operator", "            except KeyError:\n                token = Token(\",\", Token.OP_IN)  # Range Union operator", "C18.R1"),
    M("save-token-no-clear", "tokenizer.py", "            self.items.append(Token.make_operand(\"\".join(self.token)))\n            del self.token[:]", "            self.items.append(Token.make_operand(\"\".join(self.token)))", "C18.R3"),
    M("reader-glyph-unknown", "formula.py", 'self.push(f"{arg1}≠{arg2}")', 'self.push(f"{arg1}≢{arg2}")', "C18.R4"),
    T("closer-guard-len", "tokenizer.py", "        if not self.token_stack:\n            msg = f\"No matching opener", "        if len(self.token_stack) == 0:\n            msg = f\"No matching opener"),
]

"""C02 — re-saving an unmodified document preserves everything the library reads."""

from __future__ import annotations

import ast

from .. import cfg as cfgmod
from ..cellcodec import extract_decoder, extract_encoder
from ..core import AnalysisError, U, body_walk, call_name, last_attr, try_const
from ..effects import EffectAnalysis
from ..selftest import M, T

EXPLANATION = (
    "re-emission completeness (every attribute the record decoder assigns is carried on the cell and re-emitted by the "
    "encoder), save re-encodes every non-pivot table after resetting its string list and copies objects back afterwards "
    "(CFG dominance / post-dominance), and the call-graph closure of every public read accessor has no protobuf-write or "
    "allocation effect (receiver-table call resolution, call-site None specialisation of dual get/set accessors)"
)
TRUSTED = ["python ast", "statement CFG", "receiver-type table for call resolution (unresolved attribute calls are listed and assumed effect-free)"]

# public read accessors: (module, qualified name, parameters that are None when used as a getter)
ACCESSORS = [
    ("cell.py", "Cell.is_formula", ()), ("cell.py", "Cell.formula@getter", ()), ("cell.py", "Cell.is_bulleted", ()), ("cell.py", "Cell.bullets", ()),
    ("cell.py", "Cell.formatted_value", ()), ("cell.py", "Cell.style@getter", ()), ("cell.py", "Cell.border@getter", ()),
    ("cell.py", "Cell.image_filename", ()), ("cell.py", "Cell.image_data", ()), ("cell.py", "Cell.__str__", ()),
    ("cell.py", "NumberCell.value", ()), ("cell.py", "TextCell.value", ()), ("cell.py", "RichTextCell.value", ()), ("cell.py", "RichTextCell.bullets", ()),
    ("cell.py", "RichTextCell.formatted_bullets", ()), ("cell.py", "RichTextCell.hyperlinks", ()), ("cell.py", "EmptyCell.value", ()), ("cell.py", "EmptyCell.formatted_value", ()),
    ("cell.py", "BoolCell.value", ()), ("cell.py", "DateCell.value", ()), ("cell.py", "DurationCell.value", ()), ("cell.py", "ErrorCell.value", ()), ("cell.py", "MergedCell.value", ()),
    ("document.py", "Table.name@getter", ()), ("document.py", "Table.table_name_enabled@getter", ()), ("document.py", "Table.caption_enabled@getter", ()),
    ("document.py", "Table.caption@getter", ()), ("document.py", "Table.num_header_rows@getter", ()), ("document.py", "Table.num_header_cols@getter", ()),
    ("document.py", "Table.height", ()), ("document.py", "Table.width", ()), ("document.py", "Table.row_height", ("height",)), ("document.py", "Table.col_width", ("width",)),
    ("document.py", "Table.coordinates", ()), ("document.py", "Table.rows", ()), ("document.py", "Table.merge_ranges", ()), ("document.py", "Table.cell", ()),
    ("document.py", "Table.iter_rows", ()), ("document.py", "Table.iter_cols", ()),
    ("document.py", "Sheet.name@getter", ()), ("document.py", "Sheet.tables", ()),
    ("document.py", "Document.sheets", ()), ("document.py", "Document.default_table", ()), ("document.py", "Document.styles", ()), ("document.py", "Document.custom_formats", ()),
    ("containers.py", "ItemsList.__getitem__", ()), ("containers.py", "ItemsList.__len__", ()), ("containers.py", "ItemsList.__contains__", ()),
]


def run(repo, rep, tier):
    # ---- R1 re-emission completeness
    dec = extract_decoder(repo)
    enc = extract_encoder(repo)
    flags_cls = repo.cls("cell.py", "CellStorageFlags")
    fields = [n.target.id for n in flags_cls.body if isinstance(n, ast.AnnAssign) and isinstance(n.target, ast.Name)]
    emitted = {b.attr: b.mask for b in enc.blocks}
    for r in dec.reads:
        if r.skipped or not r.target.startswith("_"):
            continue
        carried = r.target in fields
        rep.ob("C02.R1", r.node, f"decoded {r.target} is a CellStorageFlags field (copied onto the cell)", carried,
               "" if carried else "the attribute is decoded but never reaches the cell: it is lost on the next save", key=f"C02.R1@carried:{r.target}")
        if r.target == "_string_id":
            ok = any(k.cls == "TextCell" and "table_string_key" in U(k.value_expr) for k in enc.kinds if k.value_expr is not None)
            rep.ob("C02.R1", enc.func, "text cells re-emit their string through a fresh key", ok, "", key="C02.R1@reemit:_string_id")
            continue
        ok = emitted.get(r.target) == r.mask
        rep.ob("C02.R1", enc.func, f"{r.target} (mask {r.mask:#x}) is re-emitted by the encoder", ok,
               "" if ok else f"decoder reads it under {r.mask:#x}; encoder emits {emitted.get(r.target)}: the field disappears or moves on re-save",
               key=f"C02.R1@reemit:{r.target}")
    cf = repo.func("cell.py", "Cell._copy_flags")
    src_param = cf.args.args[1].arg
    ok = False
    via_flags = False
    for lp in [n for n in body_walk(cf) if isinstance(n, ast.For)]:
        it = U(lp.iter).replace(" ", "")
        lv = U(lp.target)
        for c in ast.walk(lp):
            if isinstance(c, ast.Call) and call_name(c) == "setattr" and len(c.args) == 3 and U(c.args[0]) == "self":
                a, v = c.args[1], c.args[2]
                if isinstance(v, ast.Call) and call_name(v) == "getattr" and len(v.args) == 2 and U(v.args[0]) == src_param and U(v.args[1]) == U(a):
                    if it == f"{src_param}.flags()" and U(a) == lv:
                        ok, via_flags = True, True
                    elif it in (f"fields({src_param})", f"dataclasses.fields({src_param})") and U(a) == f"{lv}.name":
                        ok = True
    rep.ob("C02.R1", cf, "_copy_flags copies every storage flag field to the cell", ok, "" if ok else "not every decoded attribute reaches the cell", key="C02.R1@copy_flags")
    conds = []
    for c in [c for c in body_walk(cf) if isinstance(c, ast.Call) and call_name(c) == "setattr"]:
        p_ = c
        while getattr(p_, "_parent", None) is not None and p_ is not cf:
            prev_, p_ = p_, p_._parent
            if isinstance(p_, ast.If):
                t_ = U(p_.test).replace(" ", "")
                if not t_.endswith("isnotNone"):
                    conds.append(U(p_.test))
            if isinstance(p_, (ast.ListComp, ast.GeneratorExp)):
                conds += [U(i) for g_ in p_.generators for i in g_.ifs if not U(i).replace(" ", "").endswith("isnotNone")]
    rep.ob("C02.R1", cf, "_copy_flags copies a decoded value whatever it is (an id of 0 is a value, not an absent field)", not conds,
           "" if not conds else f"the copy is conditional on `{conds[0]}`: a stored id of 0 reads back as absent and the field is dropped on re-save", key="C02.R1@copy_flags:unconditional")
    fl = repo.func("cell.py", "CellStorageFlags.flags")
    ok = "[x.name for x in fields(self)]" in U(fl) or not via_flags
    rep.ob("C02.R1", fl, "flags() enumerates all dataclass fields", ok, "", key="C02.R1@flags-enum")
    fs = repo.func("cell.py", "Cell._from_storage")
    ok = "cell._copy_flags(storage_flags)" in U(fs) and all(x in U(fs) for x in ("cell._d128 = d128", "cell._double = double", "cell._seconds = seconds"))
    rep.ob("C02.R1", fs, "_from_storage attaches flags and raw payloads to the cell", ok, "", key="C02.R1@attach")

    # ---- R2 every non-pivot table is re-encoded, then the document is written
    save = repo.func("document.py", "Document.save")
    g = cfgmod.build(save)
    loops = [n for n in body_walk(save) if isinstance(n, ast.For)]
    ok = len(loops) >= 2 and U(loops[0].iter) == "self.sheets" and U(loops[1].iter) == f"{U(loops[0].target)}.tables"
    rep.ob("C02.R2", save, "save visits every table of every sheet", ok, "", key="C02.R2@save:loops")
    enc_calls = [n for n in body_walk(save) if isinstance(n, ast.Call) and last_attr(n.func) == "recalculate_table_data"]
    okc = bool(enc_calls) and [U(a) for a in enc_calls[0].args] == ["table._table_id", "table._data"]
    rep.ob("C02.R2", enc_calls[0] if enc_calls else save, "tables are re-encoded from their own grid: recalculate_table_data(table._table_id, table._data)", okc, "", key="C02.R2@save:args")
    if len(loops) >= 2 and enc_calls:
        inner = loops[1]
        # every path through the inner loop body passes the encode call or the pivot warning
        warn = [n for n in ast.walk(inner) if isinstance(n, ast.Call) and call_name(n) == "warn"]
        head = g.node_of(inner)
        targets = {g.node_of(enc_calls[0])} | {g.node_of(w) for w in warn}
        starts = [n for n, lab in g.succ[head] if lab == "iter"]
        ok = all(not g.paths_avoiding(st, head, targets) or st in targets for st in starts)
        conds = []
        p = getattr(enc_calls[0], "_parent", None)
        while p is not None and p is not inner:
            if isinstance(p, ast.If):
                conds.append(U(p.test))
            p = getattr(p, "_parent", None)
        ok = ok and all("is_a_pivot_table" in c for c in conds)
        rep.ob("C02.R2", inner, f"each table is either a warned pivot table or re-encoded (conditions: {conds})", ok,
               "" if ok else "some tables are skipped silently on save: their cells keep stale storage", key="C02.R2@save:every-table")
    ms = [n for n in body_walk(save) if isinstance(n, ast.Call) and U(n.func) == "self._model.save"]
    ok = bool(ms) and bool(loops) and not any(ms[0] is x for x in ast.walk(loops[0])) and cfgmod.precedes_on_all_paths(save, [loops[0]], ms[0]) \
        and [U(a) for a in ms[0].args] == ["Path(filename)", "package"]
    rep.ob("C02.R2", ms[0] if ms else save, "the package is written once, after all tables are re-encoded", ok, "", key="C02.R2@save:write-last")

    # ---- R3 string list reset precedes encoding; objects copied back afterwards
    rtd = repo.func("model.py", "_NumbersModel.recalculate_table_data")
    init = [n for n in body_walk(rtd) if isinstance(n, ast.Call) and last_attr(n.func) == "init_table_strings"]
    rows = [n for n in body_walk(rtd) if isinstance(n, ast.Call) and last_attr(n.func) == "recalculate_row_info"]
    upd = [n for n in body_walk(rtd) if isinstance(n, ast.Call) and last_attr(n.func) == "update_object_file_store"]
    ok = bool(init) and bool(rows) and all(cfgmod.dominates(rtd, init[0], r) for r in rows) and U(init[0].args[0]) == "table_id"
    rep.ob("C02.R3", init[0] if init else rtd, "string list is reset before any cell of the table is encoded", ok,
           "" if ok else "strings of a previous save (or of removed cells) stay in the list, or keys are allocated before the reset and then dropped", key="C02.R3@reset-first")
    ok = bool(upd) and bool(rows) and all(cfgmod.must_reach(rtd, getattr(r, "_parent", r), [upd[0]]) for r in rows) and \
        not any(cfgmod.build(rtd).paths_avoiding(cfgmod.build(rtd).node_of(upd[0]), cfgmod.build(rtd).node_of(r), set()) for r in rows)
    rep.ob("C02.R3", upd[0] if upd else rtd, "objects are copied to the file store after the last tile is encoded", ok, "", key="C02.R3@copy-after")
    di = repo.func("model.py", "DataLists.init")
    from ..symexec import const_key_stores
    stores_, recv_ = const_key_stores(di, {"self._datalists[table_id]"})
    miss = []
    for k_ in ("by_key", "by_value", "key_index"):
        vs = stores_.get(k_, [])
        if not (vs and all(isinstance(v, ast.Dict) and not v.keys for v, _ in vs)):
            miss.append(f"{k_} is not replaced by a new empty dict")
    if not (stores_.get("next_key") and all(try_const(v) == 1 for v, _ in stores_["next_key"])):
        miss.append("next_key is not reset to 1")
    dl = {f"{r}['datalist']" for r in recv_}
    if not any(isinstance(n, ast.Assign) and isinstance(n.targets[0], ast.Attribute) and n.targets[0].attr == "nextListID" and U(n.targets[0].value) in dl
               and try_const(n.value) == 1 for n in body_walk(di)):
        miss.append("nextListID is not reset to 1")
    if not any(isinstance(n, ast.Call) and call_name(n) == "clear_field_container" and n.args and isinstance(n.args[0], ast.Attribute) and n.args[0].attr == "entries"
               and U(n.args[0].value) in dl for n in body_walk(di)):
        miss.append("the stored entries are not cleared")
    ok = not miss
    rep.ob("C02.R3", di, "DataLists.init empties both indexes, the key counter and the stored entries together", ok,
           "" if ok else "; ".join(miss) + ": index and stored entries can disagree after the reset", key="C02.R3@init-complete")
    its = repo.func("model.py", "_NumbersModel.init_table_strings")
    ok = "self._table_strings.init(table_id)" in U(its)
    rep.ob("C02.R3", its, "only the string list is reset on save", ok, "", key="C02.R3@init-strings")
    resets = []
    for n in ast.walk(repo.tree("model.py")):
        if isinstance(n, ast.Call) and isinstance(n.func, ast.Attribute) and n.func.attr == "init" and last_attr(n.func.value) in ("_table_formats", "_table_styles", "_control_specs", "_formulas"):
            resets.append(U(n))
    rep.ob("C02.R3", rtd, "format/style/formula/control lists are never reset (cells keep their keys)", not resets, f"{resets}", key="C02.R3@no-other-reset")
    # row info encodes every column of the row
    from ..rowpack import model as rowpack_model
    rp = rowpack_model(repo)
    rri = rp["func"]
    probs = [x for x in rp["problems"] if "cell loop runs over" in x or "leaves the loop" in x or "not the cell at" in x]
    ok = rp["visits_all"] and rp["cell_ok"] and not probs
    rep.ob("C02.R3", rp["loop"], "every cell of the row is encoded in column order", ok, "; ".join(probs), key="C02.R3@row-all-cells")
    stale = [x for x in rp["problems"] if "re-encoded" in x or "record is kept" in x]
    rep.ob("C02.R3", rp["loop"], "every cell is re-encoded on every save (its record carries keys of the lists the save rebuilds)", not stale, "; ".join(stale), key="C02.R3@row-fresh-records")

    # ---- R4 read accessors are pure w.r.t. saved state
    ea = EffectAnalysis(repo)
    n_acc = 0
    for rel, q, none_params in ACCESSORS:
        if not repo.has_func(rel, q):
            continue
        f = repo.func(rel, q)
        eff = ea.effects(f, frozenset(none_params))
        bad = sorted(e for e in eff if e[0] in ("PROTO", "ALLOC"))
        n_acc += 1
        rep.ob("C02.R4", f, f"read accessor {q} has no protobuf-write/allocation effect", not bad,
               "" if not bad else f"reading changes what is saved: {bad[0][0]} at {bad[0][2]} ({bad[0][1]})" + (f" and {len(bad) - 1} more" if len(bad) > 1 else ""),
               key=f"C02.R4@{q}")
    # positive control: the analysis must see effects where they exist
    w = repo.func("document.py", "Table.write")
    cs = repo.func("document.py", "Table.caption@setter")
    pos = len(ea.effects(w, frozenset())) > 0 and len(ea.effects(cs, frozenset())) > 0 and len(ea.effects(save, frozenset())) > 0
    if not pos:
        raise AnalysisError("effect analysis found no effect in Table.write / caption setter / Document.save: the engine is blind")
    rep.ob("C02.R4", w, "positive control: effects are detected in write, caption setter and save", pos, "", key="C02.R4@positive-control")
    rep.extra["functions_visited"] = len(ea.visited)
    rep.extra["unresolved_calls"] = sorted(ea.unresolved)[:120]
    rep.floor("C02.R1", 25)
    rep.floor("C02.R2", 4)
    rep.floor("C02.R3", 6)
    rep.floor("C02.R4", 40)


VARIANTS = [
    M("row-record-kept-between-saves", "model.py", "            buffer = data[row][col]._to_buffer()\n", "            if data[row][col]._storage is None:\n                data[row][col]._storage = data[row][col]._to_buffer()\n            buffer = data[row][col]._storage\n", "C02.R3"),
    M("copy-flags-truthy-only", "cell.py", "            setattr(self, flag, getattr(storage_flags, flag))\n", "            if getattr(storage_flags, flag):\n                setattr(self, flag, getattr(storage_flags, flag))\n", "C02.R1"),
    M("encoder-drops-suggest", "cell.py", "        if self._suggest_id is not None:\n            flags |= 0x1000\n            length += 4\n            storage += pack(\"<i\", self._suggest_id)\n", "", "C02.R1"),
    M("flags-field-removed", "cell.py", "    _control_id: int = None\n", "", "C02.R1"),
    M("init-after-tiles", "model.py", "        self.init_table_strings(table_id)\n        self.recalculate_row_headers(table_id, data)", "        self.recalculate_row_headers(table_id, data)",
      "C02.R3", more=(("model.py", "        self.objects.update_object_file_store()\n\n    def create_string_table", "        self.init_table_strings(table_id)\n        self.objects.update_object_file_store()\n\n    def create_string_table"),)),
    M("formatted-value-allocates", "cell.py", "            custom_format = self._model.table_format(self._table_id, self._num_format_id)\n        else:\n            return str(self.value)",
      "            custom_format = self._model.table_format(self._table_id, self._num_format_id)\n            self._model.table_string_key(self._table_id, str(self.value))\n        else:\n            return str(self.value)", "C02.R4"),
    M("row-height-getter-writes-proto", "model.py", "        if row in bucket_map and bucket_map[row].size != 0.0:\n            height = round(bucket_map[row].size)",
      "        if row in bucket_map and bucket_map[row].size != 0.0:\n            height = round(bucket_map[row].size)\n            bucket_map[row].size = height", "C02.R4"),
    M("save-skips-empty-named", "document.py", "                else:\n                    self._model.recalculate_table_data(table._table_id, table._data)",
      "                elif table.name:\n                    self._model.recalculate_table_data(table._table_id, table._data)", "C02.R2"),
    M("init-forgets-entries", "model.py", "        clear_field_container(self._datalists[table_id][\"datalist\"].entries)\n", "", "C02.R3"),
    T("save-early-continue", "document.py",
      "                if self._model.is_a_pivot_table(table._table_id):\n                    table_name = self._model.table_name(table._table_id)\n                    warn(\n                        f\"Not modifying pivot table '{table_name}'\",\n                        UnsupportedWarning,\n                        stacklevel=2,\n                    )\n                else:\n                    self._model.recalculate_table_data(table._table_id, table._data)",
      "                if self._model.is_a_pivot_table(table._table_id):\n                    table_name = self._model.table_name(table._table_id)\n                    warn(\n                        f\"Not modifying pivot table '{table_name}'\",\n                        UnsupportedWarning,\n                        stacklevel=2,\n                    )\n                    continue\n                self._model.recalculate_table_data(table._table_id, table._data)"),
]

"""C19 — sheet and table collections: unique names, consistent lookup, stable order."""

from __future__ import annotations

import ast

from .. import cfg as cfgmod
from ..core import ancestors, AnalysisError, U, body_walk, call_name, last_attr, try_const
from ..linear import GuardAnalysis, Lin, lin
from ..selftest import M, T

EXPLANATION = (
    "guard-fact dataflow on ItemsList.__getitem__ (both index bounds entailed at the subscript after "
    "negative normalisation), case-folding lint on membership vs exact-name lookup, dominance of the "
    "duplicate check / fresh-name loop over every append to an ItemsList, and refusal before mutation"
)
TRUSTED = ["python ast", "statement CFG + dominators", "linear facts with syntactic entailment"]

FOLDS = ("lower", "casefold")


def _fold_of(expr):
    """(base_text, folded?) for ``x.lower()``/``x.casefold()``/``x``."""
    if isinstance(expr, ast.Call) and isinstance(expr.func, ast.Attribute) and expr.func.attr in FOLDS and not expr.args:
        return U(expr.func.value), True
    return U(expr), False


def _joined_template(node):
    """f-string -> template text with a placeholder, else None."""
    if isinstance(node, ast.JoinedStr):
        out = ""
        for v in node.values:
            out += v.value if isinstance(v, ast.Constant) else "{" + U(v.value) + "}"
        return out
    return None


def _canon_name_expr(e):
    """Canonical text of a name expression for case-insensitive membership: f-string templates are lower-cased."""
    t = _joined_template(e)
    if t is not None:
        return "T:" + t.lower()
    if isinstance(e, ast.Call) and isinstance(e.func, ast.Attribute) and e.func.attr in ("lower", "casefold") and not e.args:
        return _canon_name_expr(e.func.value)
    return "E:" + U(e)


def fresh_name_facts(f, recv):
    """Forward must-dataflow over the CFG of ``f``: at each node, the set of name expressions known *not* to be in the
    collection ``recv`` (established by ``if X in recv: raise``, ``while X in recv`` exits, ``if X not in recv: break``).
    Assignments to a variable drop the facts that mention it; ``v = X`` transfers a fact about X to v."""
    g = cfgmod.build(f)
    ALL = None  # top

    def test_fact(test, label):
        """fact added on the edge with this label of a test node"""
        neg = False
        t = test
        while isinstance(t, ast.UnaryOp) and isinstance(t.op, ast.Not):
            neg = not neg
            t = t.operand
        if isinstance(t, ast.Compare) and len(t.ops) == 1 and U(t.comparators[0]) == recv and isinstance(t.ops[0], (ast.In, ast.NotIn)):
            is_in = isinstance(t.ops[0], ast.In) != neg
            # edge T of `X in recv` -> X in; edge F -> X not in
            holds_not_in = (label == "F") if is_in else (label == "T")
            if holds_not_in:
                return _canon_name_expr(t.left)
        return None

    def names_in(txt_expr):
        return {n.id for n in ast.walk(txt_expr) if isinstance(n, ast.Name)}

    exprs = {}  # canonical text -> set of variable names it mentions

    def remember(e):
        c = _canon_name_expr(e)
        exprs.setdefault(c, set()).update(names_in(e))
        return c

    IN = {n.id: ALL for n in g.nodes}
    IN[g.entry] = frozenset()
    work = [g.entry]
    it = 0
    while work and it < 5000:
        it += 1
        nid = work.pop()
        node = g.nodes[nid]
        cur = IN[nid]
        if cur is ALL:
            continue
        out_by_label = {}
        st = node.ast
        base = set(cur)
        if node.kind == "stmt" and isinstance(st, (ast.Assign, ast.AugAssign, ast.AnnAssign)):
            tg = st.targets if isinstance(st, ast.Assign) else [st.target]
            killed = {n.id for t in tg for n in ast.walk(t) if isinstance(n, ast.Name)}
            src = remember(st.value) if isinstance(st, ast.Assign) and st.value is not None else None
            had = src in base if src is not None else False
            base = {c for c in base if not (exprs.get(c, set()) & killed)}
            if isinstance(st, ast.Assign) and len(tg) == 1 and isinstance(tg[0], ast.Name) and src is not None:
                v = tg[0].id
                if had:
                    base.add(remember(ast.Name(id=v, ctx=ast.Load())))
                # remember what the variable currently equals (dropped when the variable or what it mentions changes)
                if v not in names_in(st.value):
                    al = f"A:{v}={src}"
                    exprs[al] = {v} | names_in(st.value)
                    base.add(al)
        elif node.kind == "iter" and isinstance(st, ast.For):
            killed = {n.id for n in ast.walk(st.target) if isinstance(n, ast.Name)}
            base = {c for c in base if not (exprs.get(c, set()) & killed)}
        for succ, label in g.succ[nid]:
            o = set(base)
            if node.kind == "test" and isinstance(st, (ast.If, ast.While)):
                for sub in ([st.test] if not isinstance(st.test, ast.BoolOp) else []):
                    remember(sub.left if isinstance(sub, ast.Compare) else sub)
                fct = test_fact(st.test, label)
                if fct is not None:
                    exprs.setdefault(fct, set())
                    if isinstance(st.test, ast.Compare):
                        exprs[fct] |= names_in(st.test.left)
                    elif isinstance(st.test, ast.UnaryOp):
                        exprs[fct] |= names_in(st.test)
                    o.add(fct)
                    # the fact also holds for what the tested variable is known to equal
                    if fct.startswith("E:"):
                        for a_ in list(o):
                            if a_.startswith(f"A:{fct[2:]}="):
                                o.add(a_.split("=", 1)[1])
            o = frozenset(o)
            new = o if IN[succ] is ALL else (IN[succ] & o)
            if IN[succ] is ALL or new != IN[succ]:
                IN[succ] = new
                work.append(succ)
    return g, IN


def run(repo, rep, tier):
    il = repo.cls("containers.py", "ItemsList")
    getitem = repo.func("containers.py", "ItemsList.__getitem__")
    key = getitem.args.args[1].arg

    # ---- R1 index bounds: the function summary asked with every integer key around the ends of lists of 0, 1 and 3 items
    from ..funsum import Summarizer as _Summ, decide as _decide, cval as _cval, _UNKNOWN as _UNK
    gpaths = _Summ(consts=repo.consts).summarize(getitem)
    low_bad, up_bad, norm_bad, exc_bad = [], [], [], []
    n_sc = 0
    for n_items in (0, 1, 3):
        for k in range(-n_items - 2, n_items + 2):
            sc = {key: k, "len(self._items)": n_items, f"isinstance({key}, int)": True, f"isinstance({key}, str)": False, f"type({key}) is int": True,
                  f"isinstance({key}, (int, str))": True, f"isinstance({key}, (str, int))": True}
            try:
                outs = _decide(gpaths, sc, limit=4)
            except AnalysisError as e_:
                raise AnalysisError(f"ItemsList.__getitem__: {e_}") from e_
            n_sc += 1
            in_range = -n_items <= k < n_items
            for _fx, kind_, text_, pth in outs:
                where = f"key {k} with {n_items} item(s)"
                if in_range:
                    want = k % n_items
                    got = None
                    if kind_ == "return" and isinstance(pth.ret, ast.AST):
                        from ..funsum import simplify as _simp
                        r_ = _simp(pth.ret, sc)
                        if isinstance(r_, ast.Subscript) and U(r_.value) == "self._items" and not isinstance(r_.slice, ast.Slice):
                            v_ = _cval(r_.slice, sc)
                            got = None if v_ is _UNK else v_
                    if got not in (want, want - n_items):
                        (norm_bad if k < 0 else up_bad).append(f"{where}: {kind_}s `{text_}`" + (f" = item {got}" if got is not None else "") + f" instead of item {want}")
                else:
                    is_index_error = kind_ == "raise" and text_ is not None and text_.startswith("IndexError")
                    if kind_ == "return":
                        (low_bad if k < 0 else up_bad).append(f"{where}: returns `{text_}` instead of raising IndexError" + (" (an index below -len wraps around)" if k < 0 else ""))
                    elif not is_index_error:
                        exc_bad.append(f"{where}: raises `{(text_ or '')[:40]}` instead of IndexError")
    rep.ob("C19.R1", getitem, f"self._items[{key}]: lower bound {key} >= -len ({n_sc} keys around the ends of 0, 1 and 3 items)", not low_bad, "; ".join(low_bad[:2]), key="C19.R1@getitem:lower")
    rep.ob("C19.R1", getitem, f"self._items[{key}]: upper bound {key} <= len-1", not up_bad, "; ".join(up_bad[:2]), key="C19.R1@getitem:upper")
    # the out-of-range exit must be IndexError, an unknown name KeyError
    raises = [n for n in body_walk(getitem) if isinstance(n, ast.Raise)]
    types = [call_name(r.exc) if isinstance(r.exc, ast.Call) else U(r.exc) for r in raises]
    rep.ob("C19.R1", getitem, f"raises {types}", not exc_bad and "IndexError" in types and "KeyError" in types,
           "; ".join(exc_bad[:2]) or "out-of-range index must raise IndexError and unknown name KeyError", key="C19.R1@getitem:raises")
    rep.ob("C19.R1", getitem, "negative index normalised by + len(self._items)", not norm_bad, "; ".join(norm_bad[:2]), key="C19.R1@getitem:normalise")

    # ---- R2 membership folds case on both sides; name lookup is exact
    contains = repo.func("containers.py", "ItemsList.__contains__")
    ckey = contains.args.args[1].arg
    cmp_nodes = [n for n in body_walk(contains) if isinstance(n, ast.Compare) and isinstance(n.ops[0], ast.In)]
    ok = False
    detail = "no `in` comparison found"
    for c in cmp_nodes:
        lbase, lfold = _fold_of(c.left)
        comp = c.comparators[0]
        rfold = False
        if isinstance(comp, (ast.ListComp, ast.GeneratorExp, ast.SetComp)):
            ebase, rfold = _fold_of(comp.elt)
            src_ok = U(comp.generators[0].iter) == "self._items" and ebase.endswith(".name")
        else:
            src_ok = False
        ok = lfold and rfold and lbase == ckey and src_ok
        detail = "" if ok else f"left folded={lfold}, right folded={rfold}: names equal ignoring case must collide"
        if not ok and isinstance(comp, ast.Attribute) and U(comp.value) == "self":
            detail = (f"membership is answered from the memo `{U(comp)}` instead of the items' current names: a rename through the name setter "
                      "does not refresh it, so a later add accepts a duplicate (or generates a name that is already taken)")
    rep.ob("C19.R2", contains, "membership compares case-folded names", ok, detail, key="C19.R2@contains:fold")
    # any() form twin
    if not cmp_nodes:
        anyc = [n for n in body_walk(contains) if isinstance(n, ast.Call) and call_name(n) == "any"]
        for a in anyc:
            g = a.args[0]
            if isinstance(g, (ast.GeneratorExp, ast.ListComp)) and isinstance(g.elt, ast.Compare) and isinstance(g.elt.ops[0], ast.Eq):
                l = _fold_of(g.elt.left)
                r = _fold_of(g.elt.comparators[0])
                ok = l[1] and r[1]
                rep.obs[-1].ok = ok
                rep.obs[-1].detail = "" if ok else "any(...) comparison is not case-folded on both sides"
    # str branch
    # the scan over self._items, as a for statement or as the generator of next(...)/a comprehension
    scans = [(n.target, [n]) for n in body_walk(getitem) if isinstance(n, ast.For) and U(n.iter) == "self._items"]
    for n in body_walk(getitem):
        if isinstance(n, (ast.GeneratorExp, ast.ListComp)) and len(n.generators) == 1 and U(n.generators[0].iter) == "self._items" \
                and U(n.elt) == U(n.generators[0].target):
            scans.append((n.generators[0].target, list(n.generators[0].ifs)))
    ok = False
    for tgt, scopes in scans:
        for sc in scopes:
            for n in ast.walk(sc):
                if isinstance(n, ast.Compare) and len(n.ops) == 1 and isinstance(n.ops[0], ast.Eq):
                    a, b = _fold_of(n.left), _fold_of(n.comparators[0])
                    names = {a[0], b[0]}
                    if not a[1] and not b[1] and key in names and f"{U(tgt)}.name" in names:
                        ok = True
    rep.ob("C19.R2", getitem, "lookup by name compares item.name == key exactly", ok,
           "" if ok else "name lookup must return the item with exactly that name", key="C19.R2@getitem:exact")
    ln = repo.func("containers.py", "ItemsList.__len__")
    rep.ob("C19.R2", ln, "__len__ is len(self._items)", "len(self._items)" in U(ln), "", key="C19.R2@len")
    init = repo.func("containers.py", "ItemsList.__init__")
    oki = any(
        isinstance(n, ast.ListComp) and U(n.generators[0].iter) == init.args.args[2].arg for n in body_walk(init)
    )
    rep.ob("C19.R2", init, "items built in the order of the given refs", oki, "", key="C19.R2@init:order")
    app = repo.func("containers.py", "ItemsList.append")
    rep.ob("C19.R2", app, "append adds at the end", "self._items.append(item)" in U(app) or ".append(" in U(app), "", key="C19.R2@append")

    # ---- R3/R4 appends are guarded, refusal precedes mutation
    sites = []
    for rel, qual in (("document.py", "Document.add_sheet"), ("document.py", "Sheet._add_table")):
        f = repo.func(rel, qual)
        for n in body_walk(f):
            if isinstance(n, ast.Call) and last_attr(n.func) == "append" and isinstance(n.func, ast.Attribute):
                recv = U(n.func.value)
                if recv.endswith("_tables") or recv.endswith("_sheets"):
                    sites.append((f, n, recv))
    # any other append to _sheets/_tables in the package is reported
    for mod in repo.modules():
        t = repo.tree(mod)
        for n in ast.walk(t):
            if isinstance(n, ast.Call) and last_attr(n.func) == "append" and isinstance(n.func, ast.Attribute):
                recv = U(n.func.value)
                if (recv.endswith("._tables") or recv.endswith("._sheets")) and not any(n is s[1] for s in sites):
                    rep.ob("C19.R3", n, f"{recv}.append outside the guarded entry points", False,
                           "collections may only grow through Document.add_sheet / Sheet._add_table", key=f"C19.R3@foreign:{mod}:{recv}")
    for f, call, recv in sites:
        g = cfgmod.build(f)
        # collection constructed in this function from an object created here: nothing to collide with
        base = recv.split(".")[0]
        fresh = False
        for n in body_walk(f):
            if isinstance(n, ast.Assign) and U(n.targets[0]) == base and isinstance(n.value, ast.Call):
                cn = call_name(n.value)
                if cn in ("Sheet", "Table") and any("add_sheet" in U(a) or "new_" in U(a) for a in n.value.args):
                    fresh = True
        if fresh and base != "self":
            rep.ob("C19.R3", call, f"{recv}.append on a collection created in this call", True, "", key=f"C19.R3@{f.name}:{recv}:fresh")
            continue
        # find the guard structure on this collection
        guard_if = None
        for n in f.body:
            if isinstance(n, ast.If) and isinstance(n.test, ast.Compare) and isinstance(n.test.ops[0], ast.IsNot) and U(n.test.comparators[0]) == "None":
                guard_if = n
        okg = False
        detail = "no `if name is not None: ... else: fresh-name loop` guard found"
        raise_node = None
        dup = loop = chosen = None
        if guard_if is not None:
            name = U(guard_if.test.left)
            dup = None
            for n in ast.walk(ast.Module(body=guard_if.body, type_ignores=[])):
                if isinstance(n, ast.If) and isinstance(n.test, ast.Compare) and isinstance(n.test.ops[0], ast.In):
                    if U(n.test.left) == name and U(n.test.comparators[0]) == recv:
                        r = [x for x in n.body if isinstance(x, ast.Raise)]
                        if r and "IndexError" in U(r[0]):
                            dup = n
                            raise_node = r[0]
            loop = None
            chosen = None
            for n in guard_if.orelse:
                if isinstance(n, ast.While) and isinstance(n.test, ast.Compare) and isinstance(n.test.ops[0], ast.In):
                    if U(n.test.comparators[0]) == recv:
                        loop = n
                if isinstance(n, ast.Assign) and U(n.targets[0]) == name:
                    chosen = n
            okg = dup is not None and loop is not None and chosen is not None
            if dup is None:
                detail = f"explicit name is not checked with `{name} in {recv}` -> raise IndexError"
            elif loop is None or chosen is None:
                detail = f"generated name is not probed against {recv} until fresh"
            if okg:
                probe = _joined_template(loop.test.left)
                final = _joined_template(chosen.value)
                okt = probe is not None and final is not None and probe.lower() == final.lower()
                # the loop must advance the counter it probes
                ctr = [U(v.value) for v in loop.test.left.values if not isinstance(v, ast.Constant)] if probe else []
                adv = any(isinstance(x, ast.AugAssign) and U(x.target) in ctr and isinstance(x.op, ast.Add) for x in loop.body)
                rep.ob("C19.R3", loop, f"probe `{probe}` vs chosen `{final}`", okt and adv,
                       "" if okt and adv else "the probed name and the chosen name differ (beyond case) or the counter is not advanced: the generated name may not be fresh",
                       key=f"C19.R3@{f.name}:{recv}:template")
                dom = g.dominates(g.node_of(guard_if), g.node_of(call))
                okg = dom
                if not dom:
                    detail = "the duplicate check does not dominate the append"
                # the created object must carry the checked name
                uses = [c for c in body_walk(f) if isinstance(c, ast.Call) and last_attr(c.func) in ("add_table", "add_sheet") and "self._model" in U(c.func)]
                okn = any(name in [U(a) for a in c.args] for c in uses)
                rep.ob("C19.R3", call, f"checked name `{name}` is the name given to the model", okn, "", key=f"C19.R3@{f.name}:{recv}:name-used")
        # semantic form of the guard: at the call that creates the object in the model, the name handed over is known not
        # to be in the collection (refused with IndexError when given, probed until fresh when generated)
        want_call = "add_sheet" if recv.endswith("_sheets") else "add_table"
        uses2 = [c for c in body_walk(f) if isinstance(c, ast.Call) and last_attr(c.func) == want_call and "self._model" in U(c.func)]
        g2, facts = fresh_name_facts(f, recv)
        sem_ok = False
        sem_detail = "no call of the model's add_table/add_sheet found"
        for c in uses2:
            nid = g2.node_of(c)
            have = facts.get(nid)
            cands = [_canon_name_expr(a) for a in c.args] + [_canon_name_expr(k.value) for k in c.keywords]
            if have is not None and any(x in have for x in cands):
                sem_ok = True
            else:
                sem_detail = f"at `{U(c)[:70]}` none of the arguments is known to be absent from {recv} (known: {sorted(have) if have is not None else 'unreachable'})"
        raises_index = any(isinstance(n, ast.Raise) and "IndexError" in U(n) for n in body_walk(f))
        okg2 = sem_ok and raises_index and (g2.dominates(g2.node_of(uses2[0]), g2.node_of(call)) or g2.node_of(uses2[0]) == g2.node_of(call) if uses2 else False)
        if okg2 and not okg:
            okg, detail = True, ""
        elif not okg2 and okg:
            okg, detail = False, sem_detail
        elif not okg and not okg2 and uses2:
            detail = sem_detail
        rep.ob("C19.R3", call, f"{recv}.append guarded by duplicate check / fresh-name loop on {recv}", okg, "" if okg else detail,
               key=f"C19.R3@{f.name}:{recv}:guard")
        structural = guard_if is not None and dup is not None and loop is not None and chosen is not None if guard_if is not None else False
        if not structural:
            # the spelled-out guard was not found: the two companion obligations are decided by the dataflow facts
            rep.ob("C19.R3", call, "generated name is the name that was probed until fresh", sem_ok, "" if sem_ok else sem_detail, key=f"C19.R3@{f.name}:{recv}:template")
            rep.ob("C19.R3", call, "checked name is the name given to the model", sem_ok, "" if sem_ok else sem_detail, key=f"C19.R3@{f.name}:{recv}:name-used")
            rs = [n for n in body_walk(f) if isinstance(n, ast.Raise) and "IndexError" in U(n)]
            raise_node = rs[0] if rs else None
        # R4: no mutation can precede the refusal
        if raise_node is not None:
            rn = g.node_of(raise_node)
            bad = []
            for n in body_walk(f):
                if isinstance(n, ast.Call) and (
                    ("self._model." in U(n.func) and last_attr(n.func).startswith(("add_", "create_"))) or last_attr(n.func) == "append"
                ):
                    cn = g.node_of(n)
                    if cn is not None and cn != rn and g.paths_avoiding(cn, rn, set()):
                        bad.append(U(n.func))
            rep.ob("C19.R4", raise_node, "refusal precedes every mutation", not bad,
                   "" if not bad else f"{bad} can execute before the duplicate is refused: the document is changed by a refused call",
                   key=f"C19.R4@{f.name}:{recv}")
    # the name a new sheet / table is stored under is the name that was checked against the siblings, as given
    for meth_, key_, param_ in (("add_sheet", "name", "sheet_name"), ("add_table", "table_name", "table_name")):
        fm_ = repo.func("model.py", f"_NumbersModel.{meth_}")
        if param_ not in [a.arg for a in fm_.args.args]:
            raise AnalysisError(f"_NumbersModel.{meth_}: parameter {param_} not found")
        stored_ = [v_ for d_ in ast.walk(fm_) if isinstance(d_, ast.Dict) for k_, v_ in zip(d_.keys, d_.values) if k_ is not None and try_const(k_) == key_]
        stored_ += [kw.value for c_ in ast.walk(fm_) if isinstance(c_, ast.Call) for kw in c_.keywords if kw.arg == key_]
        rebound_ = any(isinstance(x_, ast.Name) and x_.id == param_ and isinstance(x_.ctx, (ast.Store, ast.Del)) for x_ in ast.walk(fm_))
        ok_ = bool(stored_) and all(isinstance(v_, ast.Name) and v_.id == param_ for v_ in stored_) and not rebound_
        rep.ob("C19.R3", stored_[0] if stored_ else fm_, f"model.{meth_} stores the name it is given under `{key_}`", ok_,
               "" if ok_ else f"the stored name is `{U(stored_[0])[:50] if stored_ else '?'}`: the duplicate check and the default-name search of the caller ran on the name as given, "
               "so two siblings can end up with the same stored name", key=f"C19.R3@model.{meth_}:name-as-given")

    rep.floor("C19.R1", 4)
    rep.floor("C19.R2", 5)
    rep.floor("C19.R3", 6)
    rep.floor("C19.R4", 2)


VARIANTS = [
    M("model-add-sheet-name-stripped", "model.py", '            {"name": sheet_name},', '            {"name": sheet_name.strip()},', "C19.R3"),
    M("revert-fix-negative-index", "containers.py", "if key < 0 or key >= len(self._items):", "if key >= len(self._items):", "C19.R1"),
    M("upper-bound-off-by-one", "containers.py", "if key < 0 or key >= len(self._items):", "if key < 0 or key > len(self._items):", "C19.R1"),
    M("contains-no-fold-left", "containers.py", "return key.lower() in [x.name.lower() for x in self._items]", "return key in [x.name.lower() for x in self._items]", "C19.R2"),
    M("contains-no-fold-right", "containers.py", "return key.lower() in [x.name.lower() for x in self._items]", "return key.lower() in [x.name for x in self._items]", "C19.R2"),
    M("lookup-folded", "containers.py", "if item.name == key:", "if item.name.lower() == key.lower():", "C19.R2"),
    M("table-dup-check-other-collection", "document.py", "            if table_name in self._tables:\n", "            if table_name in self._model.table_names():\n", "C19.R3"),
    M("append-before-check", "document.py",
      "        if table_name is not None:\n            if table_name in self._tables:",
      "        self._tables.append(None)\n        if table_name is not None:\n            if table_name in self._tables:", "C19.R"),
    M("fresh-template-differs", "document.py", 'while f"table {table_num}" in self._tables:', 'while f"tables {table_num}" in self._tables:', "C19.R3"),
    M("sheet-no-dup-check", "document.py", "            if sheet_name in self._sheets:\n                msg = f\"sheet '{sheet_name}' already exists\"\n                raise IndexError(msg)\n",
      "            pass\n", "C19.R3"),
    T("getitem-split-guards", "containers.py", "            if key < 0 or key >= len(self._items):\n                msg = f\"index {key} out of range\"\n                raise IndexError(msg)\n",
      "            if key < 0:\n                raise IndexError(f\"index {key} out of range\")\n            if key >= len(self._items):\n                msg = f\"index {key} out of range\"\n                raise IndexError(msg)\n"),
    T("contains-casefold", "containers.py", "return key.lower() in [x.name.lower() for x in self._items]", "return key.casefold() in (x.name.casefold() for x in self._items)"),
]

"""C11 — A1 and row/column addressing reach the same cell in every call; bounds hold."""

from __future__ import annotations

import ast

from .. import cfg as cfgmod
from ..core import AnalysisError, U, body_walk, call_name, last_attr, try_const
from ..effects import call_writes_for, self_writes
from ..linear import GuardAnalysis, Lin, lin
from ..selftest import M, T

EXPLANATION = (
    "for every position-taking Table method: the (row, col) pair comes from one of the two parsers and is the "
    "only thing that subscripts the grid; guard-fact dataflow proves both bounds of both coordinates at the "
    "subscript (reads: raising guards; writes: limit guards plus grow loops summarised from add_row/add_column); "
    "None-defaults may not swallow 0; inclusive ends are bounded by size-1; positional refusals precede mutation"
)
TRUSTED = ["python ast", "statement CFG", "linear facts with syntactic entailment", "growth summary of add_row/add_column verified from source"]

POSITION_METHODS = ["write", "set_cell_style", "set_cell_formatting", "set_cell_border"]


def growth_summary(repo, method, attr):
    """Verify that Table.<method>() with default arguments increases self.<attr> by exactly 1."""
    f = repo.func("document.py", f"Table.{method}")
    first = f.args.args[1].arg if len(f.args.args) > 1 else None
    defaults = dict(zip([a.arg for a in f.args.args][-len(f.args.defaults):], f.args.defaults)) if f.args.defaults else {}
    incs = [n for n in body_walk(f) if isinstance(n, (ast.AugAssign, ast.Assign)) and any(
        U(t) == f"self.{attr}" for t in ([n.target] if isinstance(n, ast.AugAssign) else n.targets))]
    ok = (
        len(incs) == 1 and isinstance(incs[0], ast.AugAssign) and isinstance(incs[0].op, ast.Add)
        and U(incs[0].value) == first and try_const(defaults.get(first)) == 1
    )
    return ok, f, incs


def make_loop_summary(repo, rep, grow):
    def summary(for_node, facts):
        it = for_node.iter
        if not (isinstance(it, ast.Call) and call_name(it) == "range" and len(it.args) == 2):
            return []
        a, b = it.args
        if len(for_node.body) != 1 or not isinstance(for_node.body[0], ast.Expr):
            return []
        call = for_node.body[0].value
        if not (isinstance(call, ast.Call) and isinstance(call.func, ast.Attribute) and U(call.func.value) == "self" and not call.args and not call.keywords):
            return []
        m = call.func.attr
        if m in grow and U(a) == f"self.{grow[m]}":
            bl = lin(b, repo.consts)
            if bl is not None:
                return [Lin(0, {f"self.{grow[m]}": 1}) - bl]
        return []

    return summary


def run(repo, rep, tier):
    env = dict(repo.consts)
    for need in ("MAX_ROW_COUNT", "MAX_COL_COUNT"):
        if not isinstance(env.get(need), int):
            raise AnalysisError(f"constants.py: {need} is not a foldable int")
    cw = call_writes_for(repo, "document.py", "Table")
    grow = {}
    for m, attr in (("add_row", "num_rows"), ("add_column", "num_cols")):
        ok, f, incs = growth_summary(repo, m, attr)
        rep.ob("C11.R2", f, f"Table.{m}() grows self.{attr} by exactly one", ok,
               "" if ok else "growth summary not verified: cannot prove that grow loops reach the required size",
               key=f"C11.R2@{m}:growth")
        if ok:
            grow[m] = attr
    loop_summary = make_loop_summary(repo, rep, grow)

    # ---- R1 routing + R2 bounds for Table.cell
    cell = repo.func("document.py", "Table.cell")
    ga = GuardAnalysis(cell, env=env, call_writes=cw, loop_summary=loop_summary)
    subs = [n for n in body_walk(cell) if isinstance(n, ast.Subscript) and U(n.value).startswith("self._data[")]
    if not subs:
        raise AnalysisError("Table.cell: grid subscript not found")
    parsers_ok = any(isinstance(n, ast.Call) and call_name(n) == "xl_cell_to_rowcol" and U(n.args[0]) == "args[0]" for n in body_walk(cell))
    rep.ob("C11.R1", cell, "A1 form parsed by xl_cell_to_rowcol(args[0])", parsers_ok, "", key="C11.R1@cell:a1")
    for sub in subs:
        r_txt, c_txt = U(sub.value.slice), U(sub.slice)
        # (row, col) both come from the same tuple assignment in both branches
        assigns = [n for n in body_walk(cell) if isinstance(n, ast.Assign) and isinstance(n.targets[0], ast.Tuple)
                   and [U(e) for e in n.targets[0].elts] == [r_txt, c_txt]]
        rep.ob("C11.R1", sub, f"{U(sub)} indexed by the parsed (row, col)", len(assigns) >= 2,
               "" if len(assigns) >= 2 else "row/col are not bound as a pair from the A1 parser and from the tuple form",
               key="C11.R1@cell:pair")
        check_bounds(rep, ga, sub, r_txt, c_txt, "cell", "self.num_rows", "self.num_cols")

    # ---- _validate_cell_coords
    vcc = repo.func("document.py", "Table._validate_cell_coords")
    ga = GuardAnalysis(vcc, env=env, call_writes=cw, loop_summary=loop_summary)
    rets = [n for n in body_walk(vcc) if isinstance(n, ast.Return) and n.value is not None]
    if len(rets) != 1 or not isinstance(rets[0].value, ast.Tuple) or len(rets[0].value.elts) < 2:
        raise AnalysisError("_validate_cell_coords: single tuple return not found")
    ret = rets[0]
    r_txt, c_txt = U(ret.value.elts[0]), U(ret.value.elts[1])
    a1 = [n for n in body_walk(vcc) if isinstance(n, ast.Assign) and isinstance(n.value, ast.Call) and call_name(n.value) == "xl_cell_to_rowcol"]
    ok = bool(a1) and isinstance(a1[0].targets[0], ast.Tuple) and [U(e) for e in a1[0].targets[0].elts] == [r_txt, c_txt] and U(a1[0].value.args[0]) == "args[0]"
    rep.ob("C11.R1", vcc, "A1 form: (row, col) = xl_cell_to_rowcol(args[0])", ok, "", key="C11.R1@validate:a1")
    tup = [n for n in body_walk(vcc) if isinstance(n, ast.Assign) and isinstance(n.targets[0], ast.Tuple)
           and [U(e) for e in n.targets[0].elts] == [r_txt, c_txt] and "args" in U(n.value) and not isinstance(n.value, ast.Call)]
    ok = bool(tup) and U(tup[0].value).replace(" ", "") in ("args[0:2]", "args[:2]", "(args[0],args[1])")
    rep.ob("C11.R1", vcc, "tuple form: (row, col) = args[0:2]", ok, "" if ok else f"found {[U(t.value) for t in tup]}", key="C11.R1@validate:tuple")
    facts = ga.facts_at(ret)
    R, C = lin(ret.value.elts[0]), lin(ret.value.elts[1])
    goals = [
        ("row >= 0", R, "negative rows are accepted: write(-1, ...) silently addresses from the end"),
        ("col >= 0", C, "negative columns are accepted"),
        ("row <= MAX_ROW_COUNT-1", Lin(env["MAX_ROW_COUNT"] - 1) - R, "rows beyond the documented limit are accepted"),
        ("col <= MAX_COL_COUNT-1", Lin(env["MAX_COL_COUNT"] - 1) - C, "columns beyond the documented limit are accepted"),
        ("num_rows >= row+1", Lin(-1, {"self.num_rows": 1}) - R, "the table is not grown to hold the row"),
        ("num_cols >= col+1", Lin(-1, {"self.num_cols": 1}) - C, "the table is not grown to hold the column"),
    ]
    for name, goal, why in goals:
        ok = facts is not None and facts.entails(goal)
        rep.ob("C11.R2", ret, f"_validate_cell_coords returns with {name}", ok, "" if ok else f"{why} (facts at return: {facts})",
               key=f"C11.R2@validate:{name}")
    # growth is by exactly the needed amount: loops are range(self.num_X, coord + 1)
    for loop in [n for n in body_walk(vcc) if isinstance(n, ast.For)]:
        it = loop.iter
        if isinstance(it, ast.Call) and call_name(it) == "range" and len(it.args) == 2:
            a, b = U(it.args[0]), U(it.args[1]).replace(" ", "")
            axis = "row" if "row" in a else "col"
            want = (r_txt if axis == "row" else c_txt) + "+1"
            callee = U(loop.body[0].value.func) if isinstance(loop.body[0], ast.Expr) and isinstance(loop.body[0].value, ast.Call) else ""
            okl = b == want and (("add_row" in callee) == (axis == "row"))
            rep.ob("C11.R2", loop, f"grow loop range({a}, {b}) via {callee}", okl,
                   "" if okl else "the table must grow to exactly coordinate+1 along the matching axis", key=f"C11.R2@validate:grow:{axis}")

    # ---- callers use the validated pair
    for m in POSITION_METHODS:
        f = repo.func("document.py", f"Table.{m}")
        calls = [n for n in body_walk(f) if isinstance(n, ast.Assign) and isinstance(n.value, ast.Call) and last_attr(n.value.func) == "_validate_cell_coords"]
        ok = bool(calls) and isinstance(calls[0].targets[0], ast.Tuple) and U(calls[0].value.args[0]) == "*args" if calls and calls[0].value.args else False
        rep.ob("C11.R1", f, f"Table.{m}: position from _validate_cell_coords(*args)", ok, "", key=f"C11.R1@{m}:route")
        if not ok:
            continue
        names = [U(e) for e in calls[0].targets[0].elts[:2]]
        # names must not be reassigned afterwards
        def _bound_names(t):
            if isinstance(t, (ast.Tuple, ast.List)):
                for e in t.elts:
                    yield from _bound_names(e)
            elif isinstance(t, ast.Starred):
                yield from _bound_names(t.value)
            elif isinstance(t, ast.Name):
                yield t.id

        re_assigned = [n for n in body_walk(f) if isinstance(n, (ast.Assign, ast.AugAssign, ast.For)) and n is not calls[0]
                       and any(x in names for tt in (n.targets if isinstance(n, ast.Assign) else [n.target]) for x in _bound_names(tt))]
        rep.ob("C11.R1", f, f"Table.{m}: validated names {names} not rebound", not re_assigned, "", key=f"C11.R1@{m}:rebound")
        for sub in [n for n in body_walk(f) if isinstance(n, ast.Subscript) and U(n.value).startswith("self._data[")]:
            ok = [U(sub.value.slice), U(sub.slice)] == names
            rep.ob("C11.R1", sub, f"Table.{m}: {U(sub)} uses the validated (row, col)", ok,
                   "" if ok else f"grid indexed with {[U(sub.value.slice), U(sub.slice)]}, validated pair is {names}", key=f"C11.R1@{m}:sub:{U(sub)}")
        # helpers receiving the position
        for c in [n for n in body_walk(f) if isinstance(n, ast.Call) and last_attr(n.func) in ("_set_cell_custom_format", "_set_cell_data_format", "set_cell_style", "set_cell_border")]:
            if U(c.func.value) == "self" and len(c.args) >= 2 and not isinstance(c.args[0], ast.Starred):
                ok = [U(a) for a in c.args[:2]] == names
                rep.ob("C11.R1", c, f"Table.{m}: {last_attr(c.func)} receives (row, col) in order", ok, "", key=f"C11.R1@{m}:fwd:{last_attr(c.func)}")

    # ---- R3 falsy defaults in Table methods
    tcls = repo.cls("document.py", "Table")
    n3 = 0
    for f in [n for n in tcls.body if isinstance(n, ast.FunctionDef)]:
        params = {a.arg for a in f.args.args + f.args.kwonlyargs}
        defaults = {}
        pos = f.args.args
        for a, d in zip(pos[len(pos) - len(f.args.defaults):], f.args.defaults):
            defaults[a.arg] = d
        none_default = {p for p, d in defaults.items() if isinstance(d, ast.Constant) and d.value is None}
        for n in body_walk(f):
            if isinstance(n, ast.Assign) and isinstance(n.value, ast.BoolOp) and isinstance(n.value.op, ast.Or):
                tgt = U(n.targets[0])
                first = n.value.values[0]
                if U(first) == tgt and tgt in none_default:
                    n3 += 1
                    fallback = try_const(n.value.values[1], env)
                    ok = fallback == 0
                    rep.ob("C11.R3", n, f"Table.{f.name}: `{U(n)}`", ok,
                           "" if ok else f"`{tgt} or ...` treats {tgt}=0 as missing: a bound of 0 is silently replaced",
                           key=f"C11.R3@{f.name}:{tgt}")
            if isinstance(n, ast.If) and isinstance(n.test, ast.Compare) and isinstance(n.test.ops[0], ast.Is) \
                    and U(n.test.comparators[0]) == "None" and U(n.test.left) in none_default and not n.orelse \
                    and len(n.body) == 1 and isinstance(n.body[0], ast.Assign) and U(n.body[0].targets[0]) == U(n.test.left):
                n3 += 1
                rep.ob("C11.R3", n, f"Table.{f.name}: `{U(n.test)}` default", True, "", key=f"C11.R3@{f.name}:{U(n.test.left)}")
            if isinstance(n, ast.Assign) and isinstance(n.value, ast.IfExp):
                tgt = U(n.targets[0])
                if tgt in none_default:
                    n3 += 1
                    t = n.value.test
                    ok = isinstance(t, ast.Compare) and isinstance(t.ops[0], (ast.Is, ast.IsNot)) and U(t.comparators[0]) == "None" and U(t.left) == tgt
                    if ok:
                        keep = n.value.orelse if isinstance(t.ops[0], ast.Is) else n.value.body
                        ok = U(keep) == tgt
                    rep.ob("C11.R3", n, f"Table.{f.name}: `{U(n)}`", ok,
                           "" if ok else "default must be applied only when the argument is None", key=f"C11.R3@{f.name}:{tgt}")

    # ---- R4 inclusive bounds in iter_rows / iter_cols
    for m in ("iter_rows", "iter_cols"):
        f = repo.func("document.py", f"Table.{m}")
        ga = GuardAnalysis(f, env=env, call_writes=cw, loop_summary=loop_summary)
        uses = []
        for n in body_walk(f):
            if isinstance(n, ast.Call) and call_name(n) == "range" and len(n.args) == 2:
                uses.append((n, n.args[0], n.args[1]))
            if isinstance(n, ast.Subscript) and isinstance(n.slice, ast.Slice) and n.slice.lower is not None and n.slice.upper is not None:
                uses.append((n, n.slice.lower, n.slice.upper))
        if len(uses) < 2:
            raise AnalysisError(f"Table.{m}: inclusive range/slice uses not found")
        for node, lo, hi in uses:
            hl = lin(hi, env)
            ll = lin(lo, env)
            if hl is None or ll is None:
                continue
            axis = "row" if "row" in U(hi) else "col"
            size = Lin(0, {f"self.num_{axis}s": 1})
            facts = ga.facts_at(node)
            ok_hi = facts is not None and facts.entails(size - hl)  # hi_exclusive <= size
            ok_lo = facts is not None and facts.entails(ll)
            rep.ob("C11.R4", node, f"Table.{m}: `{U(node)}` upper end within the table", ok_hi,
                   "" if ok_hi else f"nothing establishes {U(hi)} <= self.num_{axis}s: one past the end is silently clamped instead of raising (facts: {facts})",
                   key=f"C11.R4@{m}:{axis}:{type(node).__name__}:hi")
            rep.ob("C11.R4", node, f"Table.{m}: `{U(node)}` lower end >= 0", ok_lo,
                   "" if ok_lo else f"nothing establishes {U(lo)} >= 0 (facts: {facts})", key=f"C11.R4@{m}:{axis}:{type(node).__name__}:lo")
        # out-of-range must raise IndexError
        raises = [U(r.exc) for r in body_walk(f) if isinstance(r, ast.Raise) and r.exc is not None]
        ok = len(raises) >= 4 and all("IndexError" in r for r in raises)
        rep.ob("C11.R4", f, f"Table.{m}: range refusals raise IndexError", ok, "", key=f"C11.R4@{m}:raises")
        # iteration order: rows ascending then columns ascending
        loops = [n for n in body_walk(f) if isinstance(n, ast.For) and isinstance(n.iter, ast.Call) and call_name(n.iter) == "range"]
        ok = all(len(l.iter.args) == 2 for l in loops) and bool(loops)
        rep.ob("C11.R4", f, f"Table.{m}: visits the rectangle in ascending order", ok, "", key=f"C11.R4@{m}:order")
        outer_axis = "row" if m == "iter_rows" else "col"
        ok = bool(loops) and outer_axis in U(loops[0].iter.args[0]) and outer_axis in U(loops[0].iter.args[1])
        rep.ob("C11.R4", loops[0] if loops else f, f"Table.{m}: outer loop runs over {outer_axis}s", ok, "", key=f"C11.R4@{m}:outer-axis")

    # ---- R5 refuse-before-mutate for positional IndexErrors
    sw = self_writes(repo, "document.py", "Table")
    for name in ("cell", "_validate_cell_coords", "iter_rows", "iter_cols"):
        f = repo.func("document.py", f"Table.{name}")
        g = cfgmod.build(f)
        raises = [r for r in body_walk(f) if isinstance(r, ast.Raise) and r.exc is not None and "IndexError" in U(r.exc)]
        mutators = []
        for n in body_walk(f):
            if isinstance(n, ast.Call) and isinstance(n.func, ast.Attribute) and U(n.func.value) == "self" and sw.get(n.func.attr):
                mutators.append(n)
            if isinstance(n, (ast.Assign, ast.AugAssign, ast.Delete)):
                tg = n.targets if not isinstance(n, ast.AugAssign) else [n.target]
                if any(U(t).startswith("self.") for t in tg):
                    mutators.append(n)
        for r in raises:
            rn = g.node_of(r)
            bad = [U(mu)[:60] for mu in mutators if g.node_of(mu) is not None and g.node_of(mu) != rn and g.paths_avoiding(g.node_of(mu), rn, set())]
            rep.ob("C11.R5", r, f"Table.{name}: `{U(r)[:60]}` precedes any grid change", not bad,
                   "" if not bad else f"{bad} can run before the refusal: a refused position still changes the table", key=f"C11.R5@{name}:{len(bad)}:{U(r.exc)[:40]}")

    # ---- informational C10 shape facts (no verdict)
    for fn in ("xl_rowcol_to_cell", "xl_col_to_name"):
        f = repo.func("xrefs.py", fn)
        g = cfgmod.build(f)
        guards = [n for n in f.body if isinstance(n, ast.If) and any(isinstance(x, ast.Raise) and "IndexError" in U(x) for x in n.body)]
        rep.info("C10.info", f"{fn}: {len(guards)} leading `p < 0 -> raise IndexError` guard(s): {[U(gd.test) for gd in guards]}")
    rep.floor("C11.R1", 14)
    rep.floor("C11.R2", 10)
    rep.floor("C11.R3", 6)
    rep.floor("C11.R4", 16)
    rep.floor("C11.R5", 8)


def check_bounds(rep, ga, sub, r_txt, c_txt, where, nrows, ncols):
    facts = ga.facts_at(sub)
    R, C = Lin(0, {r_txt: 1}), Lin(0, {c_txt: 1})
    for name, goal, why in (
        (f"{r_txt} >= 0", R, "negative row reaches the grid"),
        (f"{r_txt} <= num_rows-1", Lin(-1, {nrows: 1}) - R, "row beyond the table reaches the grid"),
        (f"{c_txt} >= 0", C, "negative column reaches the grid"),
        (f"{c_txt} <= num_cols-1", Lin(-1, {ncols: 1}) - C, "column beyond the table reaches the grid"),
    ):
        ok = facts is not None and facts.entails(goal)
        rep.ob("C11.R2", sub, f"Table.{where}: {name} at `{U(sub)}`", ok, "" if ok else f"{why} (facts: {facts})", key=f"C11.R2@{where}:{name}")


_ITER_OLD = "        min_row = 0 if min_row is None else min_row\n        max_row = self.num_rows - 1 if max_row is None else max_row\n"
VARIANTS = [
    M("revert-fix-negative-coords", "document.py", "        if row < 0 or col < 0:\n            msg = f\"invalid cell reference ({row}, {col})\"\n            raise IndexError(msg)\n", "", "C11.R2"),
    M("cell-drop-negative-row", "document.py", "if row >= self.num_rows or row < 0:", "if row >= self.num_rows:", "C11.R2"),
    M("cell-col-off-by-one", "document.py", "if col >= self.num_cols or col < 0:", "if col > self.num_cols or col < 0:", "C11.R2"),
    M("grow-loop-reversed", "document.py", "for _ in range(self.num_rows, row + 1):", "for _ in range(row + 1, self.num_rows):", "C11.R2"),
    M("grow-loop-short", "document.py", "for _ in range(self.num_cols, col + 1):", "for _ in range(self.num_cols, col):", "C11.R2"),
    M("max-row-limit-off", "document.py", "if row >= MAX_ROW_COUNT:", "if row > MAX_ROW_COUNT:", "C11.R2"),
    M("revert-fix-or-default", "document.py", "max_row = self.num_rows - 1 if max_row is None else max_row", "max_row = max_row or self.num_rows - 1", "C11.R3", count=2),
    M("revert-fix-inclusive-gt", "document.py", "if max_col >= self.num_cols:", "if max_col > self.num_cols:", "C11.R4", count=2),
    M("tuple-form-swapped", "document.py", "(row, col) = args[0:2]", "(col, row) = args[0:2]", "C11.R1"),
    M("write-swapped-index", "document.py", "self._data[row][col] = Cell._from_value(row, col, value)", "self._data[col][row] = Cell._from_value(row, col, value)", "C11.R1"),
    M("validate-grows-before-limit", "document.py",
      "        if row >= MAX_ROW_COUNT:\n            msg = f\"{row} exceeds maximum row {MAX_ROW_COUNT - 1}\"\n            raise IndexError(msg)\n        if col >= MAX_COL_COUNT:",
      "        for _ in range(self.num_rows, row + 1):\n            self.add_row()\n        if row >= MAX_ROW_COUNT:\n            msg = f\"{row} exceeds maximum row {MAX_ROW_COUNT - 1}\"\n            raise IndexError(msg)\n        if col >= MAX_COL_COUNT:",
      "C11.R5"),
    T("cell-split-guards", "document.py", "        if row >= self.num_rows or row < 0:\n            msg = f\"row {row} out of range\"\n            raise IndexError(msg)\n",
      "        if row < 0:\n            raise IndexError(f\"row {row} out of range\")\n        if row > self.num_rows - 1:\n            msg = f\"row {row} out of range\"\n            raise IndexError(msg)\n"),
    T("iter-default-if-statement", "document.py", _ITER_OLD,
      "        if min_row is None:\n            min_row = 0\n        if max_row is None:\n            max_row = self.num_rows - 1\n", count=2),
]

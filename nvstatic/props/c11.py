"""C11 — A1 and row/column addressing reach the same cell in every call; bounds hold."""

from __future__ import annotations

import ast

from .. import cfg as cfgmod
from ..core import AnalysisError, U, body_walk, call_name, last_attr, try_const
from ..effects import call_writes_for, self_writes
from ..linear import GuardAnalysis, Lin, lin
from ..selftest import M, T

EXPLANATION = (
    "for every position-taking Table method: the (row, col) pair comes from one of the two parsers and is the "
    "only thing that subscripts the grid; guard-fact dataflow proves both bounds of both coordinates at the "
    "subscript (reads: raising guards; writes: limit guards plus grow loops summarised from add_row/add_column); "
    "None-defaults may not swallow 0; inclusive ends are bounded by size-1; positional refusals precede mutation"
)
TRUSTED = ["python ast", "statement CFG", "linear facts with syntactic entailment", "growth summary of add_row/add_column verified from source"]

POSITION_METHODS = ["write", "set_cell_style", "set_cell_formatting", "set_cell_border"]


def growth_summary(repo, method, attr):
    """Verify that Table.<method>() with default arguments increases self.<attr> by exactly 1."""
    f = repo.func("document.py", f"Table.{method}")
    first = f.args.args[1].arg if len(f.args.args) > 1 else None
    defaults = dict(zip([a.arg for a in f.args.args][-len(f.args.defaults):], f.args.defaults)) if f.args.defaults else {}
    incs = [n for n in body_walk(f) if isinstance(n, (ast.AugAssign, ast.Assign)) and any(
        U(t) == f"self.{attr}" for t in ([n.target] if isinstance(n, ast.AugAssign) else n.targets))]
    ok = (
        len(incs) == 1 and isinstance(incs[0], ast.AugAssign) and isinstance(incs[0].op, ast.Add)
        and U(incs[0].value) == first and try_const(defaults.get(first)) == 1
    )
    return ok, f, incs


def make_loop_summary(repo, rep, grow):
    def summary(for_node, facts):
        it = for_node.iter
        if not (isinstance(it, ast.Call) and call_name(it) == "range" and len(it.args) == 2):
            return []
        a, b = it.args
        if len(for_node.body) != 1 or not isinstance(for_node.body[0], ast.Expr):
            return []
        call = for_node.body[0].value
        if not (isinstance(call, ast.Call) and isinstance(call.func, ast.Attribute) and U(call.func.value) == "self" and not call.args and not call.keywords):
            return []
        m = call.func.attr
        if m in grow and U(a) == f"self.{grow[m]}":
            bl = lin(b, repo.consts)
            if bl is not None:
                return [Lin(0, {f"self.{grow[m]}": 1}) - bl]
        return []

    return summary


def run(repo, rep, tier):
    env = dict(repo.consts)
    for need in ("MAX_ROW_COUNT", "MAX_COL_COUNT"):
        if not isinstance(env.get(need), int):
            raise AnalysisError(f"constants.py: {need} is not a foldable int")
    cw = call_writes_for(repo, "document.py", "Table")
    grow = {}
    for m, attr in (("add_row", "num_rows"), ("add_column", "num_cols")):
        ok, f, incs = growth_summary(repo, m, attr)
        rep.ob("C11.R2", f, f"Table.{m}() grows self.{attr} by exactly one", ok,
               "" if ok else "growth summary not verified: cannot prove that grow loops reach the required size",
               key=f"C11.R2@{m}:growth")
        if ok:
            grow[m] = attr
    loop_summary = make_loop_summary(repo, rep, grow)

    check_a1_alphabet(repo, rep)
    # ---- R1 routing + R2 bounds for Table.cell
    cell = repo.func("document.py", "Table.cell")
    ga = GuardAnalysis(cell, env=env, call_writes=cw, loop_summary=loop_summary)
    subs = [n for n in body_walk(cell) if isinstance(n, ast.Subscript) and U(n.value).startswith("self._data[")]
    if not subs:
        raise AnalysisError("Table.cell: grid subscript not found")
    parsers_ok = any(isinstance(n, ast.Call) and call_name(n) == "xl_cell_to_rowcol" and U(n.args[0]) == "args[0]" for n in body_walk(cell))
    rep.ob("C11.R1", cell, "A1 form parsed by xl_cell_to_rowcol(args[0])", parsers_ok, "", key="C11.R1@cell:a1")
    for sub in subs:
        r_txt, c_txt = U(sub.value.slice), U(sub.slice)
        # (row, col) both come from the same tuple assignment in both branches
        assigns = [n for n in body_walk(cell) if isinstance(n, ast.Assign) and isinstance(n.targets[0], ast.Tuple)
                   and [U(e) for e in n.targets[0].elts] == [r_txt, c_txt]]
        rep.ob("C11.R1", sub, f"{U(sub)} indexed by the parsed (row, col)", len(assigns) >= 2,
               "" if len(assigns) >= 2 else "row/col are not bound as a pair from the A1 parser and from the tuple form",
               key="C11.R1@cell:pair")
        check_bounds(rep, ga, sub, r_txt, c_txt, "cell", "self.num_rows", "self.num_cols")

    # ---- _validate_cell_coords
    vcc = repo.func("document.py", "Table._validate_cell_coords")
    ga = GuardAnalysis(vcc, env=env, call_writes=cw, loop_summary=loop_summary)
    rets = [n for n in body_walk(vcc) if isinstance(n, ast.Return) and n.value is not None]
    if len(rets) != 1 or not isinstance(rets[0].value, ast.Tuple) or len(rets[0].value.elts) < 2:
        raise AnalysisError("_validate_cell_coords: single tuple return not found")
    ret = rets[0]
    r_txt, c_txt = U(ret.value.elts[0]), U(ret.value.elts[1])
    # what is returned, from the summarised function: the A1 form parses args[0] and passes the other arguments on; the
    # tuple form takes the first two arguments as (row, col) and passes the rest on
    from ..funsum import Summarizer, decide, expect
    vp = vcc.args.vararg.arg if vcc.args.vararg else "args"
    vpaths = Summarizer().summarize(vcc)
    want_a1 = expect(f"(xl_cell_to_rowcol({vp}[0])[0], xl_cell_to_rowcol({vp}[0])[1], *{vp}[1:])")
    want_tp = expect(f"({vp}[0], {vp}[1], *{vp}[2:])")
    res = {}
    for form, sc in (("a1", {f"isinstance({vp}[0], str)": True}), ("tuple", {f"isinstance({vp}[0], str)": False, f"len({vp})": 3})):
        outs = [(fx, k_, g_) for fx, k_, g_, _p in decide(vpaths, sc, limit=6) if k_ == "return"]
        res[form] = sorted({g_ for _fx, _k, g_ in outs})
    ok = res["a1"] == [want_a1]
    rep.ob("C11.R1", vcc, "A1 form: (row, col) = xl_cell_to_rowcol(args[0]), other arguments passed on", ok, "" if ok else f"returns {res['a1']} instead of {want_a1}", key="C11.R1@validate:a1")
    ok = res["tuple"] == [want_tp]
    rep.ob("C11.R1", vcc, "tuple form: (row, col) = args[0:2], other arguments passed on", ok, "" if ok else f"returns {res['tuple']} instead of {want_tp}", key="C11.R1@validate:tuple")
    facts = ga.facts_at(ret)
    R, C = lin(ret.value.elts[0]), lin(ret.value.elts[1])
    goals = [
        ("row >= 0", R, "negative rows are accepted: write(-1, ...) silently addresses from the end"),
        ("col >= 0", C, "negative columns are accepted"),
        ("row <= MAX_ROW_COUNT-1", Lin(env["MAX_ROW_COUNT"] - 1) - R, "rows beyond the documented limit are accepted"),
        ("col <= MAX_COL_COUNT-1", Lin(env["MAX_COL_COUNT"] - 1) - C, "columns beyond the documented limit are accepted"),
        ("num_rows >= row+1", Lin(-1, {"self.num_rows": 1}) - R, "the table is not grown to hold the row"),
        ("num_cols >= col+1", Lin(-1, {"self.num_cols": 1}) - C, "the table is not grown to hold the column"),
    ]
    for name, goal, why in goals:
        ok = facts is not None and facts.entails(goal)
        rep.ob("C11.R2", ret, f"_validate_cell_coords returns with {name}", ok, "" if ok else f"{why} (facts at return: {facts})",
               key=f"C11.R2@validate:{name}")
    # growth is by exactly the needed amount: loops are range(self.num_X, coord + 1)
    for loop in [n for n in body_walk(vcc) if isinstance(n, ast.For)]:
        it = loop.iter
        if isinstance(it, ast.Call) and call_name(it) == "range" and len(it.args) == 2:
            a, b = U(it.args[0]), U(it.args[1]).replace(" ", "")
            axis = "row" if "row" in a else "col"
            want = (r_txt if axis == "row" else c_txt) + "+1"
            callee = U(loop.body[0].value.func) if isinstance(loop.body[0], ast.Expr) and isinstance(loop.body[0].value, ast.Call) else ""
            okl = b == want and (("add_row" in callee) == (axis == "row"))
            rep.ob("C11.R2", loop, f"grow loop range({a}, {b}) via {callee}", okl,
                   "" if okl else "the table must grow to exactly coordinate+1 along the matching axis", key=f"C11.R2@validate:grow:{axis}")

    # ---- callers use the validated pair
    for m in POSITION_METHODS:
        f = repo.func("document.py", f"Table.{m}")
        calls = [n for n in body_walk(f) if isinstance(n, ast.Assign) and isinstance(n.value, ast.Call) and last_attr(n.value.func) == "_validate_cell_coords"]
        ok = bool(calls) and isinstance(calls[0].targets[0], ast.Tuple) and U(calls[0].value.args[0]) == "*args" if calls and calls[0].value.args else False
        rep.ob("C11.R1", f, f"Table.{m}: position from _validate_cell_coords(*args)", ok, "", key=f"C11.R1@{m}:route")
        if not ok:
            continue
        names = [U(e) for e in calls[0].targets[0].elts[:2]]
        # names must not be reassigned afterwards
        def _bound_names(t):
            if isinstance(t, (ast.Tuple, ast.List)):
                for e in t.elts:
                    yield from _bound_names(e)
            elif isinstance(t, ast.Starred):
                yield from _bound_names(t.value)
            elif isinstance(t, ast.Name):
                yield t.id

        re_assigned = [n for n in body_walk(f) if isinstance(n, (ast.Assign, ast.AugAssign, ast.For)) and n is not calls[0]
                       and any(x in names for tt in (n.targets if isinstance(n, ast.Assign) else [n.target]) for x in _bound_names(tt))]
        rep.ob("C11.R1", f, f"Table.{m}: validated names {names} not rebound", not re_assigned, "", key=f"C11.R1@{m}:rebound")
        for sub in [n for n in body_walk(f) if isinstance(n, ast.Subscript) and U(n.value).startswith("self._data[")]:
            ok = [U(sub.value.slice), U(sub.slice)] == names
            rep.ob("C11.R1", sub, f"Table.{m}: {U(sub)} uses the validated (row, col)", ok,
                   "" if ok else f"grid indexed with {[U(sub.value.slice), U(sub.slice)]}, validated pair is {names}", key=f"C11.R1@{m}:sub:{U(sub)}")
        # helpers receiving the position
        for c in [n for n in body_walk(f) if isinstance(n, ast.Call) and last_attr(n.func) in ("_set_cell_custom_format", "_set_cell_data_format", "set_cell_style", "set_cell_border")]:
            if U(c.func.value) == "self" and len(c.args) >= 2 and not isinstance(c.args[0], ast.Starred):
                ok = [U(a) for a in c.args[:2]] == names
                rep.ob("C11.R1", c, f"Table.{m}: {last_attr(c.func)} receives (row, col) in order", ok, "", key=f"C11.R1@{m}:fwd:{last_attr(c.func)}")

    # ---- R3 falsy defaults in Table methods
    tcls = repo.cls("document.py", "Table")
    n3 = 0
    for f in [n for n in tcls.body if isinstance(n, ast.FunctionDef)]:
        params = {a.arg for a in f.args.args + f.args.kwonlyargs}
        defaults = {}
        pos = f.args.args
        for a, d in zip(pos[len(pos) - len(f.args.defaults):], f.args.defaults):
            defaults[a.arg] = d
        none_default = {p for p, d in defaults.items() if isinstance(d, ast.Constant) and d.value is None}
        for n in body_walk(f):
            if isinstance(n, ast.Assign) and isinstance(n.value, ast.BoolOp) and isinstance(n.value.op, ast.Or):
                tgt = U(n.targets[0])
                first = n.value.values[0]
                if U(first) == tgt and tgt in none_default:
                    n3 += 1
                    fallback = try_const(n.value.values[1], env)
                    ok = fallback == 0
                    rep.ob("C11.R3", n, f"Table.{f.name}: `{U(n)}`", ok,
                           "" if ok else f"`{tgt} or ...` treats {tgt}=0 as missing: a bound of 0 is silently replaced",
                           key=f"C11.R3@{f.name}:{tgt}")
            if isinstance(n, ast.If) and isinstance(n.test, ast.Compare) and isinstance(n.test.ops[0], ast.Is) \
                    and U(n.test.comparators[0]) == "None" and U(n.test.left) in none_default and not n.orelse \
                    and len(n.body) == 1 and isinstance(n.body[0], ast.Assign) and U(n.body[0].targets[0]) == U(n.test.left):
                n3 += 1
                rep.ob("C11.R3", n, f"Table.{f.name}: `{U(n.test)}` default", True, "", key=f"C11.R3@{f.name}:{U(n.test.left)}")
            if isinstance(n, ast.Assign) and isinstance(n.value, ast.IfExp):
                tgt = U(n.targets[0])
                if tgt in none_default:
                    n3 += 1
                    t = n.value.test
                    ok = isinstance(t, ast.Compare) and isinstance(t.ops[0], (ast.Is, ast.IsNot)) and U(t.comparators[0]) == "None" and U(t.left) == tgt
                    if ok:
                        keep = n.value.orelse if isinstance(t.ops[0], ast.Is) else n.value.body
                        ok = U(keep) == tgt
                    rep.ob("C11.R3", n, f"Table.{f.name}: `{U(n)}`", ok,
                           "" if ok else "default must be applied only when the argument is None", key=f"C11.R3@{f.name}:{tgt}")

    # ---- R4 inclusive bounds in iter_rows / iter_cols
    for m in ("iter_rows", "iter_cols"):
        f = repo.func("document.py", f"Table.{m}")
        ga = GuardAnalysis(f, env=env, call_writes=cw, loop_summary=loop_summary)
        uses = []
        for n in body_walk(f):
            if isinstance(n, ast.Call) and call_name(n) == "range" and len(n.args) == 2:
                uses.append((n, n.args[0], n.args[1]))
            if isinstance(n, ast.Subscript) and isinstance(n.slice, ast.Slice) and n.slice.lower is not None and n.slice.upper is not None:
                uses.append((n, n.slice.lower, n.slice.upper))
        if len(uses) < 2:
            raise AnalysisError(f"Table.{m}: inclusive range/slice uses not found")
        for node, lo, hi in uses:
            hl = lin(hi, env)
            ll = lin(lo, env)
            if hl is None or ll is None:
                continue
            axis = "row" if "row" in U(hi) else "col"
            size = Lin(0, {f"self.num_{axis}s": 1})
            facts = ga.facts_at(node)
            ok_hi = facts is not None and facts.entails(size - hl)  # hi_exclusive <= size
            ok_lo = facts is not None and facts.entails(ll)
            rep.ob("C11.R4", node, f"Table.{m}: `{U(node)}` upper end within the table", ok_hi,
                   "" if ok_hi else f"nothing establishes {U(hi)} <= self.num_{axis}s: one past the end is silently clamped instead of raising (facts: {facts})",
                   key=f"C11.R4@{m}:{axis}:{type(node).__name__}:hi")
            rep.ob("C11.R4", node, f"Table.{m}: `{U(node)}` lower end >= 0", ok_lo,
                   "" if ok_lo else f"nothing establishes {U(lo)} >= 0 (facts: {facts})", key=f"C11.R4@{m}:{axis}:{type(node).__name__}:lo")
            # both ends are positions of the table: the lower end is < size and the inclusive upper end is >= 0
            ok_lo_hi = facts is not None and facts.entails(size - ll - Lin(1))
            ok_hi_lo = facts is not None and facts.entails(hl - Lin(1))
            rep.ob("C11.R4", node, f"Table.{m}: `{U(node)}` lower end is a position of the table", ok_lo_hi,
                   "" if ok_lo_hi else f"nothing establishes {U(lo)} <= self.num_{axis}s - 1: a start one past the end yields nothing instead of raising IndexError (facts: {facts})",
                   key=f"C11.R4@{m}:{axis}:{type(node).__name__}:lo-in-table")
            rep.ob("C11.R4", node, f"Table.{m}: `{U(node)}` inclusive upper end >= 0", ok_hi_lo,
                   "" if ok_hi_lo else f"nothing establishes {U(hi)} >= 1: a negative end is taken as a Python from-the-end index or an empty range instead of raising IndexError (facts: {facts})",
                   key=f"C11.R4@{m}:{axis}:{type(node).__name__}:hi-nonneg")
        # out-of-range must raise IndexError
        raises = [U(r.exc) for r in body_walk(f) if isinstance(r, ast.Raise) and r.exc is not None]
        ok = len(raises) >= 4 and all("IndexError" in r for r in raises)
        rep.ob("C11.R4", f, f"Table.{m}: range refusals raise IndexError", ok, "", key=f"C11.R4@{m}:raises")
        # iteration order: rows ascending then columns ascending
        loops = [n for n in body_walk(f) if isinstance(n, ast.For) and isinstance(n.iter, ast.Call) and call_name(n.iter) == "range"]
        ok = all(len(l.iter.args) == 2 for l in loops) and bool(loops)
        rep.ob("C11.R4", f, f"Table.{m}: visits the rectangle in ascending order", ok, "", key=f"C11.R4@{m}:order")
        outer_axis = "row" if m == "iter_rows" else "col"
        ok = bool(loops) and outer_axis in U(loops[0].iter.args[0]) and outer_axis in U(loops[0].iter.args[1])
        rep.ob("C11.R4", loops[0] if loops else f, f"Table.{m}: outer loop runs over {outer_axis}s", ok, "", key=f"C11.R4@{m}:outer-axis")

    # ---- R5 refuse-before-mutate for positional IndexErrors
    sw = self_writes(repo, "document.py", "Table")
    for name in ("cell", "_validate_cell_coords", "iter_rows", "iter_cols"):
        f = repo.func("document.py", f"Table.{name}")
        g = cfgmod.build(f)
        raises = [r for r in body_walk(f) if isinstance(r, ast.Raise) and r.exc is not None and "IndexError" in U(r.exc)]
        mutators = []
        for n in body_walk(f):
            if isinstance(n, ast.Call) and isinstance(n.func, ast.Attribute) and U(n.func.value) == "self" and sw.get(n.func.attr):
                mutators.append(n)
            if isinstance(n, (ast.Assign, ast.AugAssign, ast.Delete)):
                tg = n.targets if not isinstance(n, ast.AugAssign) else [n.target]
                if any(U(t).startswith("self.") for t in tg):
                    mutators.append(n)
        for r in raises:
            rn = g.node_of(r)
            bad = [U(mu)[:60] for mu in mutators if g.node_of(mu) is not None and g.node_of(mu) != rn and g.paths_avoiding(g.node_of(mu), rn, set())]
            rep.ob("C11.R5", r, f"Table.{name}: `{U(r)[:60]}` precedes any grid change", not bad,
                   "" if not bad else f"{bad} can run before the refusal: a refused position still changes the table", key=f"C11.R5@{name}:{len(bad)}:{U(r.exc)[:40]}")

    # ---- informational C10 shape facts (no verdict)
    for fn in ("xl_rowcol_to_cell", "xl_col_to_name"):
        f = repo.func("xrefs.py", fn)
        g = cfgmod.build(f)
        guards = [n for n in f.body if isinstance(n, ast.If) and any(isinstance(x, ast.Raise) and "IndexError" in U(x) for x in n.body)]
        rep.info("C10.info", f"{fn}: {len(guards)} leading `p < 0 -> raise IndexError` guard(s): {[U(gd.test) for gd in guards]}")
    # the size accessors of the model accept every size the addressing layer can ask for: a table may be exactly
    # MAX_ROW_COUNT rows by MAX_COL_COUNT columns (the last valid index is MAX - 1, so the count MAX must be storable)
    from ..funsum import Summarizer as _Summ, decide as _decide
    for acc, limit in (("number_of_rows", "MAX_ROW_COUNT"), ("number_of_columns", "MAX_COL_COUNT")):
        fa_ = repo.func("model.py", f"_NumbersModel.{acc}")
        val_ = fa_.args.args[2].arg
        lim_ = repo.consts.get(limit)
        bad_ = []
        if isinstance(lim_, int):
            paths_ = _Summ(consts=repo.consts).summarize(fa_)
            for size_ in (1, lim_ - 1, lim_):
                sc_ = {val_: size_, f"{val_} is None": False, f"{val_} is not None": True, limit: lim_}
                try:
                    for _fx, kind_, text_, _p in _decide(paths_, sc_, limit=4):
                        if kind_ == "raise":
                            bad_.append(f"a size of {size_} is refused (`{(text_ or '')[:50]}`)")
                except AnalysisError as e_:
                    raise AnalysisError(f"{acc}: {e_}") from e_
        rep.ob("C11.R2", fa_, f"{acc}: every size up to {limit} can be stored", not bad_,
               "; ".join(bad_[:2]) + (f": writing to the last valid index ({limit} - 1) on a smaller table fails half-way, leaving the grid and the declared size apart" if bad_ else ""),
               key=f"C11.R2@{acc}:limit")
    rep.floor("C11.R1", 14)
    rep.floor("C11.R2", 10)
    rep.floor("C11.R3", 6)
    rep.floor("C11.R4", 16)
    rep.floor("C11.R5", 8)


_RE_FLAGS = {"I": 2, "IGNORECASE": 2, "A": 256, "ASCII": 256, "U": 32, "UNICODE": 32, "X": 64, "VERBOSE": 64}


def _re_flags(node) -> int:
    if isinstance(node, ast.BinOp) and isinstance(node.op, ast.BitOr):
        return _re_flags(node.left) | _re_flags(node.right)
    if isinstance(node, ast.Attribute) and U(node.value) == "re" and node.attr in _RE_FLAGS:
        return _RE_FLAGS[node.attr]
    v = try_const(node)
    if isinstance(v, int):
        return v
    raise AnalysisError(f"regex flags `{U(node)}` not understood")


def _const_text(repo, node, depth=0):
    """Value of an expression built from literals, f-strings and module-level constants of xrefs.py / constants.py
    (``len``, ``str``, ``int`` and + - * of such values included), or None."""
    if depth > 6:
        return None
    if isinstance(node, ast.Constant):
        return node.value
    if isinstance(node, ast.JoinedStr):
        out = ""
        for v in node.values:
            if isinstance(v, ast.Constant):
                out += str(v.value)
            elif isinstance(v, ast.FormattedValue) and v.format_spec is None and v.conversion == -1:
                x = _const_text(repo, v.value, depth + 1)
                if x is None:
                    return None
                out += str(x)
            else:
                return None
        return out
    if isinstance(node, ast.Name):
        if node.id in repo.consts:
            return repo.consts[node.id]
        try:
            return _const_text(repo, repo.module_assign("xrefs.py", node.id), depth + 1)
        except AnalysisError:
            return None
    if isinstance(node, ast.Attribute) and node.attr == "pattern" and isinstance(node.value, ast.Name):
        # the text of another compiled pattern of the module: ``col_parts.pattern``
        try:
            other = repo.module_assign("xrefs.py", node.value.id)
        except AnalysisError:
            return None
        if isinstance(other, ast.Call) and U(other.func) == "re.compile" and other.args:
            return _const_text(repo, other.args[0], depth + 1)
        return None
    if isinstance(node, ast.BinOp) and isinstance(node.op, (ast.Add, ast.Sub, ast.Mult)):
        a, b = _const_text(repo, node.left, depth + 1), _const_text(repo, node.right, depth + 1)
        if a is None or b is None:
            return None
        try:
            return a + b if isinstance(node.op, ast.Add) else a - b if isinstance(node.op, ast.Sub) else a * b
        except TypeError:
            return None
    if isinstance(node, ast.Call) and isinstance(node.func, ast.Name) and node.func.id in ("len", "str", "int") and len(node.args) == 1 and not node.keywords:
        a = _const_text(repo, node.args[0], depth + 1)
        if a is None:
            return None
        try:
            return {"len": len, "str": str, "int": int}[node.func.id](a)
        except (TypeError, ValueError):
            return None
    return None


def _group_repeats(pattern: str, flags: int):
    """group number -> (min, max) repetitions of the single repeated item the group consists of (max None = unbounded);
    groups of another shape are left out."""
    import re._constants as rc
    import re._parser as rp

    out = {}

    def walk(items):
        for op, av in items:
            if op == rc.SUBPATTERN:
                g, _add, _del, sub = av
                sub = list(sub)
                if g is not None and len(sub) == 1 and sub[0][0] in (rc.MAX_REPEAT, rc.MIN_REPEAT):
                    lo, hi, _ = sub[0][1]
                    out[g] = (lo, None if hi == rc.MAXREPEAT else hi)
                elif g is not None and len(sub) == 1:
                    out[g] = (1, 1)
                walk(sub)
            elif op in (rc.MAX_REPEAT, rc.MIN_REPEAT):
                walk(list(av[2]))
            elif op == rc.BRANCH:
                for br in av[1]:
                    walk(list(br))

    walk(list(rp.parse(pattern, flags)))
    return out


def _group_alphabets(pattern: str, flags: int):
    """group number -> set of code points a character of the group may be ('digit' for the \\d category)."""
    import re._constants as rc
    import re._parser as rp

    parsed = rp.parse(pattern, flags)
    glob = parsed.state.flags
    out = {}

    def chars(items, fl):
        acc = set()
        for op, av in items:
            if op == rc.LITERAL:
                acc.add(av)
            elif op == rc.IN:
                for iop, iav in av:
                    if iop == rc.RANGE:
                        acc.update(range(iav[0], iav[1] + 1))
                    elif iop == rc.LITERAL:
                        acc.add(iav)
                    elif iop == rc.CATEGORY and iav == rc.CATEGORY_DIGIT:
                        acc.add("digit")
                    else:
                        acc.add("other")
            elif op in (rc.MAX_REPEAT, rc.MIN_REPEAT):
                acc |= chars(list(av[2]), fl)
            elif op == rc.SUBPATTERN:
                acc |= chars(list(av[3]), (fl | av[1]) & ~av[2])
            elif op == rc.BRANCH:
                for br in av[1]:
                    acc |= chars(list(br), fl)
            else:
                acc.add("other")
        if fl & 2:
            acc |= {ord(chr(c).swapcase()) for c in acc if isinstance(c, int) and len(chr(c).swapcase()) == 1}
        return acc

    def top(items, fl):
        for op, av in items:
            if op == rc.SUBPATTERN:
                g, add, dele, sub = av
                f2 = (fl | add) & ~dele
                if g is not None:
                    out[g] = chars(list(sub), f2)
                top(list(sub), f2)
            elif op in (rc.MAX_REPEAT, rc.MIN_REPEAT):
                top(list(av[2]), fl)
            elif op == rc.BRANCH:
                for br in av[1]:
                    top(list(br), fl)

    top(list(parsed), glob)
    return out


def check_a1_alphabet(repo, rep):
    """The letters the A1 regex lets through are exactly the digits the base-26 loop can decode."""
    fn = repo.func("xrefs.py", "xl_cell_to_rowcol")
    param = fn.args.args[0].arg
    m_assign = [n for n in body_walk(fn) if isinstance(n, ast.Assign) and isinstance(n.value, ast.Call)
                and isinstance(n.value.func, ast.Attribute) and n.value.func.attr in ("match", "fullmatch", "search")]
    if len(m_assign) != 1:
        raise AnalysisError("xl_cell_to_rowcol: single regex match not found")
    mcall = m_assign[0].value
    mvar = U(m_assign[0].targets[0])
    subject_upper = ".upper()" in U(mcall.args[0]) if mcall.args else False
    rx_name = U(mcall.func.value)
    rx = repo.module_assign("xrefs.py", rx_name)
    pattern = _const_text(repo, rx.args[0]) if isinstance(rx, ast.Call) and U(rx.func) == "re.compile" and rx.args else None
    if not isinstance(pattern, str):
        raise AnalysisError(f"xrefs.py: {rx_name} is not re.compile(<pattern built from literals and module constants>)")
    flags = 0
    if len(rx.args) > 1:
        flags |= _re_flags(rx.args[1])
    for kw in rx.keywords:
        if kw.arg == "flags":
            flags |= _re_flags(kw.value)
    groups = _group_alphabets(pattern, flags)
    repeats = _group_repeats(pattern, flags)

    def group_of(expr):
        """(group number, upper-cased?) of an expression that is match.group(k) possibly through one local."""
        up = False
        seen = 0
        while seen < 4:
            seen += 1
            if isinstance(expr, ast.Call) and isinstance(expr.func, ast.Attribute) and expr.func.attr == "upper" and not expr.args:
                up = True
                expr = expr.func.value
                continue
            if isinstance(expr, ast.Call) and isinstance(expr.func, ast.Attribute) and expr.func.attr == "group" and U(expr.func.value) == mvar:
                k = try_const(expr.args[0]) if expr.args else None
                return (k, up) if isinstance(k, int) else (None, up)
            if isinstance(expr, ast.Subscript) and U(expr.value) == mvar and isinstance(try_const(expr.slice), int):
                return try_const(expr.slice), up
            if isinstance(expr, ast.Name):
                defs = [n for n in body_walk(fn) if isinstance(n, ast.Assign) and len(n.targets) == 1 and U(n.targets[0]) == expr.id]
                if len(defs) == 1:
                    expr = defs[0].value
                    continue
                # (a, b, c, d) = match.groups()
                tdefs = [n for n in body_walk(fn) if isinstance(n, ast.Assign) and len(n.targets) == 1 and isinstance(n.targets[0], (ast.Tuple, ast.List))
                         and any(U(e) == expr.id for e in n.targets[0].elts)]
                if len(tdefs) == 1 and isinstance(tdefs[0].value, ast.Call) and isinstance(tdefs[0].value.func, ast.Attribute) \
                        and tdefs[0].value.func.attr == "groups" and U(tdefs[0].value.func.value) == mvar and not tdefs[0].value.args:
                    idx = [U(e) for e in tdefs[0].targets[0].elts].index(expr.id)
                    return idx + 1, up
                return None, up
            return None, up
        return None, up

    # the base-26 loop
    loops = [n for n in body_walk(fn) if isinstance(n, ast.For) and any(isinstance(c, ast.Call) and call_name(c) == "ord" for c in ast.walk(n))]
    if len(loops) != 1:
        raise AnalysisError("xl_cell_to_rowcol: base-26 loop not found")
    loop = loops[0]
    src = loop.iter
    while isinstance(src, ast.Call) and call_name(src) in ("enumerate", "reversed", "list", "tuple") and src.args:
        src = src.args[0]
    k, up = group_of(src)
    ords = [c for c in ast.walk(loop) if isinstance(c, ast.Call) and call_name(c) == "ord" and c.args]
    base = [try_const(c.args[0]) for c in ords if isinstance(try_const(c.args[0]), str)]
    if len(base) != 1 or k is None or k not in groups:
        raise AnalysisError("xl_cell_to_rowcol: ord(char) - ord(<letter>) over match.group(k) not recognised")
    up = up or subject_upper or any(".upper()" in U(c.args[0]) for c in ords)
    alpha = groups[k]
    if up:
        alpha = {ord(chr(c).upper()) if isinstance(c, int) and len(chr(c).upper()) == 1 else c for c in alpha}
    lo = ord(base[0])
    ok = all(isinstance(c, int) and lo <= c < lo + 26 for c in alpha) and len(alpha) == 26
    extra = sorted(chr(c) if isinstance(c, int) else c for c in alpha if not (isinstance(c, int) and lo <= c < lo + 26))
    rep.ob("C11.R1", loop, f"letters accepted by {rx_name} group {k} are the 26 digits decoded by ord(c) - ord({base[0]!r})", ok,
           "" if ok else f"the regex also lets {extra[:8]} through (flags={flags}); the base-26 loop maps them to a column outside A..Z "
           "so the A1 form lands on another cell than the row/column form", key="C11.R1@a1:alphabet")
    # the row number is the digit group
    ints = [c for c in body_walk(fn) if isinstance(c, ast.Call) and call_name(c) == "int" and c.args]
    row_groups = [group_of(c.args[0])[0] for c in ints]
    ok = len(row_groups) == 1 and row_groups[0] in groups and groups[row_groups[0]] <= ({"digit"} | set(range(48, 58))) and row_groups[0] != k
    rep.ob("C11.R1", ints[0] if ints else fn, f"row number parsed from the digit group {row_groups} of {rx_name}", ok,
           "" if ok else "int() is not applied to the digit group of the reference", key="C11.R1@a1:row-group")
    # the groups are wide enough for every position the library allows (rows are one-based in A1 notation)
    max_rows, max_cols = repo.consts.get("MAX_ROW_COUNT"), repo.consts.get("MAX_COL_COUNT")
    if isinstance(max_rows, int) and row_groups and row_groups[0] in repeats:
        lo_r, hi_r = repeats[row_groups[0]]
        need = len(str(max_rows))
        ok = hi_r is None or hi_r >= need
        rep.ob("C11.R1", rx, f"{rx_name}: the row group takes up to {hi_r or 'any number of'} digits; row {max_rows} needs {need}", ok,
               "" if ok else f"the last rows (numbers with {need} digits) lose a digit: the pattern is not anchored at the end, so `A{max_rows}` is read as row {str(max_rows)[:hi_r]} "
               "and the A1 form reaches another cell than the row/column form", key="C11.R1@a1:row-digits")
    if isinstance(max_cols, int) and k in repeats:
        lo_c, hi_c = repeats[k]
        need_c = 1
        while sum(26 ** i for i in range(1, need_c + 1)) < max_cols:
            need_c += 1
        ok = hi_c is None or hi_c >= need_c
        rep.ob("C11.R1", rx, f"{rx_name}: the column group takes up to {hi_c or 'any number of'} letters; column {max_cols} needs {need_c}", ok,
               "" if ok else f"columns beyond {sum(26 ** i for i in range(1, (hi_c or 0) + 1))} cannot be written in A1 form", key="C11.R1@a1:col-letters")
    # the match is anchored on the argument itself
    ok = bool(mcall.args) and U(mcall.args[0]).replace(".upper()", "") == param
    rep.ob("C11.R1", mcall, f"{rx_name} is matched against the reference `{param}`", ok, "", key="C11.R1@a1:subject")


def check_bounds(rep, ga, sub, r_txt, c_txt, where, nrows, ncols):
    facts = ga.facts_at(sub)
    R, C = Lin(0, {r_txt: 1}), Lin(0, {c_txt: 1})
    for name, goal, why in (
        (f"{r_txt} >= 0", R, "negative row reaches the grid"),
        (f"{r_txt} <= num_rows-1", Lin(-1, {nrows: 1}) - R, "row beyond the table reaches the grid"),
        (f"{c_txt} >= 0", C, "negative column reaches the grid"),
        (f"{c_txt} <= num_cols-1", Lin(-1, {ncols: 1}) - C, "column beyond the table reaches the grid"),
    ):
        ok = facts is not None and facts.entails(goal)
        rep.ob("C11.R2", sub, f"Table.{where}: {name} at `{U(sub)}`", ok, "" if ok else f"{why} (facts: {facts})", key=f"C11.R2@{where}:{name}")


_ITER_OLD = "        min_row = 0 if min_row is None else min_row\n        max_row = self.num_rows - 1 if max_row is None else max_row\n"
VARIANTS = [
    M("model-size-setter-refuses-the-limit", "model.py", "        if num_rows is not None:\n            self.objects[table_id].number_of_rows = num_rows",
      "        if num_rows is not None:\n            if num_rows >= 1000000:\n                raise IndexError(\"too many rows\")\n            self.objects[table_id].number_of_rows = num_rows", "C11.R2"),
    T("model-size-setter-refuses-beyond-the-limit", "model.py", "        if num_rows is not None:\n            self.objects[table_id].number_of_rows = num_rows",
      "        if num_rows is not None:\n            if num_rows > 1000000:\n                raise IndexError(\"too many rows\")\n            self.objects[table_id].number_of_rows = num_rows"),
    M("a1-row-digits-bounded-short", "xrefs.py", 'range_parts = re.compile(r"(\\$?)([A-Z]{1,3})(\\$?)(\\d+)")', 'range_parts = re.compile(r"(\\$?)([A-Z]{1,3})(\\$?)(\\d{1,6})")', "C11.R1"),
    M("a1-col-letters-two", "xrefs.py", 'range_parts = re.compile(r"(\\$?)([A-Z]{1,3})(\\$?)(\\d+)")', 'range_parts = re.compile(r"(\\$?)([A-Z]{1,2})(\\$?)(\\d+)")', "C11.R1"),
    T("a1-row-digits-bounded-enough", "xrefs.py", 'range_parts = re.compile(r"(\\$?)([A-Z]{1,3})(\\$?)(\\d+)")', 'range_parts = re.compile(r"(\\$?)([A-Z]{1,3})(\\$?)(\\d{1,7})")'),
    M("revert-fix-negative-coords", "document.py", "        if row < 0 or col < 0:\n            msg = f\"invalid cell reference ({row}, {col})\"\n            raise IndexError(msg)\n", "", "C11.R2"),
    M("cell-drop-negative-row", "document.py", "if row >= self.num_rows or row < 0:", "if row >= self.num_rows:", "C11.R2"),
    M("cell-col-off-by-one", "document.py", "if col >= self.num_cols or col < 0:", "if col > self.num_cols or col < 0:", "C11.R2"),
    M("grow-loop-reversed", "document.py", "for _ in range(self.num_rows, row + 1):", "for _ in range(row + 1, self.num_rows):", "C11.R2"),
    M("grow-loop-short", "document.py", "for _ in range(self.num_cols, col + 1):", "for _ in range(self.num_cols, col):", "C11.R2"),
    M("max-row-limit-off", "document.py", "if row >= MAX_ROW_COUNT:", "if row > MAX_ROW_COUNT:", "C11.R2"),
    M("revert-fix-or-default", "document.py", "max_row = self.num_rows - 1 if max_row is None else max_row", "max_row = max_row or self.num_rows - 1", "C11.R3", count=2),
    M("revert-fix-iter-min-past-end", "document.py", "if min_row < 0 or min_row >= self.num_rows:", "if min_row < 0:", "C11.R4", count=2),
    M("revert-fix-iter-negative-max", "document.py", "if max_col < 0 or max_col >= self.num_cols:", "if max_col >= self.num_cols:", "C11.R4", count=2),
    M("revert-fix-inclusive-gt", "document.py", "if max_col < 0 or max_col >= self.num_cols:", "if max_col < 0 or max_col > self.num_cols:", "C11.R4", count=2),
    M("a1-regex-ignorecase", "xrefs.py", 'range_parts = re.compile(r"(\\$?)([A-Z]{1,3})(\\$?)(\\d+)")', 'range_parts = re.compile(r"(\\$?)([A-Z]{1,3})(\\$?)(\\d+)", re.IGNORECASE)', "C11.R1"),
    M("a1-regex-inline-i", "xrefs.py", 'range_parts = re.compile(r"(\\$?)([A-Z]{1,3})(\\$?)(\\d+)")', 'range_parts = re.compile(r"(?i)(\\$?)([A-Z]{1,3})(\\$?)(\\d+)")', "C11.R1"),
    M("a1-regex-lower-class", "xrefs.py", 'range_parts = re.compile(r"(\\$?)([A-Z]{1,3})(\\$?)(\\d+)")', 'range_parts = re.compile(r"(\\$?)([A-Za-z]{1,3})(\\$?)(\\d+)")', "C11.R1"),
    M("a1-row-from-letter-group", "xrefs.py", "    col_str = match.group(2)\n    row_str = match.group(4)\n", "    col_str = match.group(2)\n    row_str = match.group(3) or match.group(4)\n", "C11.R1"),
    T("a1-lowercase-accepted-properly", "xrefs.py", 'range_parts = re.compile(r"(\\$?)([A-Z]{1,3})(\\$?)(\\d+)")\n', 'range_parts = re.compile(r"(\\$?)([A-Z]{1,3})(\\$?)(\\d+)", re.I)\n', more=[("xrefs.py", "    col_str = match.group(2)\n    row_str = match.group(4)\n", "    col_str = match.group(2).upper()\n    row_str = match.group(4)\n")]),
    M("tuple-form-swapped", "document.py", "(row, col) = args[0:2]", "(col, row) = args[0:2]", "C11.R1"),
    M("write-swapped-index", "document.py", "self._data[row][col] = Cell._from_value(row, col, value)", "self._data[col][row] = Cell._from_value(row, col, value)", "C11.R1"),
    M("validate-grows-before-limit", "document.py",
      "        if row >= MAX_ROW_COUNT:\n            msg = f\"{row} exceeds maximum row {MAX_ROW_COUNT - 1}\"\n            raise IndexError(msg)\n        if col >= MAX_COL_COUNT:",
      "        for _ in range(self.num_rows, row + 1):\n            self.add_row()\n        if row >= MAX_ROW_COUNT:\n            msg = f\"{row} exceeds maximum row {MAX_ROW_COUNT - 1}\"\n            raise IndexError(msg)\n        if col >= MAX_COL_COUNT:",
      "C11.R5"),
    T("a1-horner-helper", "xrefs.py", """    col_str = match.group(2)
    row_str = match.group(4)

    # Convert base26 column string to number.
    col = 0
    for expn, char in enumerate(reversed(col_str)):
        col += (ord(char) - ord("A") + 1) * (26**expn)

    # Convert 1-index to zero-index
    row = int(row_str) - 1
    col -= 1

    return row, col""", """    (_, col_letters, _, row_digits) = match.groups()
    col = _letters_to_number(col_letters) - 1
    row = int(row_digits) - 1
    return row, col


def _letters_to_number(letters):
    number = 0
    for char in letters:
        number = number * 26 + (ord(char) - ord("A") + 1)
    return number"""),
    T("cell-split-guards", "document.py", "        if row >= self.num_rows or row < 0:\n            msg = f\"row {row} out of range\"\n            raise IndexError(msg)\n",
      "        if row < 0:\n            raise IndexError(f\"row {row} out of range\")\n        if row > self.num_rows - 1:\n            msg = f\"row {row} out of range\"\n            raise IndexError(msg)\n"),
    T("iter-default-if-statement", "document.py", _ITER_OLD,
      "        if min_row is None:\n            min_row = 0\n        if max_row is None:\n            max_row = self.num_rows - 1\n", count=2),
]

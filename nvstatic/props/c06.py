"""C06 — what is read does not depend on meaning-preserving choices of file layout."""

from __future__ import annotations

import ast

from .. import cfg as cfgmod
from .. import pb
from ..core import AnalysisError, U, body_walk, call_name, last_attr, names_in, try_const
from ..selftest import M, T

EXPLANATION = (
    "control-dependence of the index stores in every lookup-list loop (each entry must be indexed whatever its position), "
    "def-use of the key under which a row's buffers are stored (must derive from TileRowInfo.tile_row_index and the tile's id), "
    "agreement of wide/narrow offset scaling between writer and reader, and identical keying of objects for both container forms"
)
TRUSTED = ["python ast", "statement CFG", "TSTArchives descriptor"]


def unconditional_in_loop(func, loop, stmt) -> bool:
    """Every iteration of ``loop`` executes ``stmt`` (no path from the loop head back to the head,
    or out of the loop, that avoids it)."""
    g = cfgmod.build(func)
    head = g.node_of(loop)
    s = g.node_of(stmt)
    if head is None or s is None:
        return False
    # successors of the head along the 'iter' edge
    starts = [n for n, lab in g.succ[head] if lab == "iter"]
    for st in starts:
        if st == s:
            continue
        # a path from body start back to head avoiding the store
        if g.paths_avoiding(st, head, {s}):
            return False
    return True


def local_defs(func):
    d = {}
    for n in body_walk(func):
        if isinstance(n, ast.Assign) and len(n.targets) == 1 and isinstance(n.targets[0], ast.Name):
            d.setdefault(n.targets[0].id, []).append(n.value)
    return d


def depends_on(expr, defs, depth=4) -> set:
    """Attribute names (``x.attr``) the expression depends on through local definitions."""
    out = set()
    seen = set()

    def go(e, d):
        for n in ast.walk(e):
            if isinstance(n, ast.Attribute):
                out.add(n.attr)
            if isinstance(n, ast.Name) and n.id in defs and d > 0 and n.id not in seen:
                seen.add(n.id)
                for v in defs[n.id]:
                    go(v, d - 1)

    go(expr, depth)
    return out


def run(repo, rep, tier):
    # ---- R1 every list entry is indexed
    at = repo.func("model.py", "DataLists.add_table")
    loops = [n for n in body_walk(at) if isinstance(n, ast.For) and "entries" in U(n.iter)]
    if not loops:
        raise AnalysisError("DataLists.add_table: loop over datalist.entries not found")
    loop = loops[0]
    stores = {}
    # a local may stand for one of the three index dicts: bound as the value of that key in a dict literal, or read from it
    alias = {}
    for n in body_walk(at):
        if isinstance(n, ast.Dict):
            for k, v in zip(n.keys, n.values):
                if isinstance(v, ast.Name) and try_const(k) in ("by_key", "key_index", "by_value"):
                    alias[v.id] = try_const(k)
        if isinstance(n, ast.Assign) and len(n.targets) == 1 and isinstance(n.targets[0], ast.Name) and isinstance(n.value, ast.Subscript) \
                and try_const(n.value.slice) in ("by_key", "key_index", "by_value"):
            alias[n.targets[0].id] = try_const(n.value.slice)
    for n in ast.walk(loop):
        if isinstance(n, ast.Assign) and isinstance(n.targets[0], ast.Subscript):
            t = U(n.targets[0])
            base = n.targets[0].value
            for which in ("by_key", "key_index", "by_value"):
                if f"['{which}']" in t or (isinstance(base, ast.Name) and alias.get(base.id) == which):
                    stores[which] = n
    for which in ("by_key", "key_index", "by_value"):
        st = stores.get(which)
        ok = st is not None and unconditional_in_loop(at, loop, st)
        conds = []
        if st is not None:
            p = getattr(st, "_parent", None)
            while p is not None and p is not loop:
                if isinstance(p, ast.If):
                    conds.append(U(p.test))
                p = getattr(p, "_parent", None)
        rep.ob("C06.R1", st or loop, f"DataLists.add_table: `{which}` store executes for every entry", ok,
               "" if ok else f"the store is conditional on {conds or 'control flow'}: entries that are not in ascending key order are never indexed and lookups by their key fail or fall back to ''",
               key=f"C06.R1@add_table:{which}")
    # the index key is the entry's own key
    idx_v, elem_v = (U(loop.target.elts[0]), U(loop.target.elts[1])) if isinstance(loop.target, ast.Tuple) and len(loop.target.elts) == 2 else (None, U(loop.target))
    if "by_key" in stores:
        t = stores["by_key"].targets[0]
        ok = U(t.slice) == f"{elem_v}.key" and U(stores["by_key"].value) == elem_v
        rep.ob("C06.R1", stores["by_key"], "by_key[entry.key] = entry", ok, "", key="C06.R1@add_table:by_key-key")
    if "key_index" in stores:
        t = stores["key_index"].targets[0]
        tg = U(loop.target).replace(" ", "")
        ok = U(t.slice) == f"{elem_v}.key" and idx_v is not None and U(stores["key_index"].value) == idx_v and U(loop.iter).startswith("enumerate(")
        rep.ob("C06.R1", stores["key_index"], "key_index[entry.key] = position of the entry", ok, "", key="C06.R1@add_table:key_index-key")
    if "by_value" in stores:
        ok = U(stores["by_value"].value) == f"{elem_v}.key"
        rep.ob("C06.R1", stores["by_value"], "by_value[value] = entry.key", ok, "", key="C06.R1@add_table:by_value")
    from ..symexec import running_max
    nk = [n for n in body_walk(at) if isinstance(n, ast.Assign) and "['next_key']" in U(n.targets[0])]
    ok = False
    if nk and isinstance(nk[0].value, ast.BinOp) and isinstance(nk[0].value.op, ast.Add):
        l_, r_ = nk[0].value.left, nk[0].value.right
        mv = l_.id if isinstance(l_, ast.Name) and try_const(r_) == 1 else (r_.id if isinstance(r_, ast.Name) and try_const(l_) == 1 else None)
        if mv:
            folded = running_max(loop, mv)
            elem = U(loop.target.elts[1]) if isinstance(loop.target, ast.Tuple) and len(loop.target.elts) == 2 else U(loop.target)
            init = [n for n in body_walk(at) if isinstance(n, ast.Assign) and U(n.targets[0]) == mv and n.lineno < loop.lineno]
            others = [n for n in ast.walk(loop) if isinstance(n, (ast.Assign, ast.AugAssign)) and any(isinstance(x, ast.Name) and x.id == mv and isinstance(x.ctx, ast.Store) for x in ast.walk(n))]
            ok = folded is not None and U(folded) == f"{elem}.key" and bool(init) and try_const(init[-1].value) == 0 and len(others) == 1
    rep.ob("C06.R1", nk[0] if nk else at, "next_key = 1 + the largest key present", ok, "", key="C06.R1@add_table:next_key")
    lv = repo.func("model.py", "DataLists.lookup_value")
    ok = U(lv).replace(" ", "").endswith("returnself._datalists[table_id]['by_key'][key]") and "self.add_table(table_id)" in U(lv)
    rep.ob("C06.R1", lv, "lookup_value returns by_key[key] after indexing the table", ok, "", key="C06.R1@lookup_value")
    # sibling loops
    fa = repo.func("model.py", "_NumbersModel.formula_ast")
    floops = [n for n in body_walk(fa) if isinstance(n, ast.For)]
    ok = False
    if floops:
        sts = [n for n in ast.walk(floops[0]) if isinstance(n, ast.Assign) and isinstance(n.targets[0], ast.Subscript)]
        ok = bool(sts) and unconditional_in_loop(fa, floops[0], sts[0]) and U(sts[0].targets[0].slice) == "formula.key"
    rep.ob("C06.R1", fa, "formula_ast indexes every formula entry by its key", ok, "", key="C06.R1@formula_ast")
    for qual, attr in (("row_height", "index"), ("col_width", "index")):
        f = repo.func("model.py", f"_NumbersModel.{qual}")
        comps = [n for n in body_walk(f) if isinstance(n, ast.DictComp)]
        ok = any(U(c.key) == f"x.{attr}" and U(c.value) == "x" and not c.generators[0].ifs for c in comps)
        rep.ob("C06.R1", f, f"{qual}: header buckets indexed by their declared index, unconditionally", ok, "", key=f"C06.R1@{qual}:bucket-map")
    rt = repo.func("model.py", "_NumbersModel.table_rich_text")
    ok = any(isinstance(n, ast.If) and U(n.test).replace(" ", "") in ("string_key==entry.key", "entry.key==string_key") for n in body_walk(rt))
    rep.ob("C06.R1", rt, "table_rich_text finds the entry carrying the key (position independent)", ok, "", key="C06.R1@table_rich_text")
    # no scan over a keyed list gives up on an ordering test: the entries of a list may be stored in any order
    early = []
    n_scans = 0
    for mod_ in ("model.py", "containers.py"):
        for fn_ in [n for n in ast.walk(repo.tree(mod_)) if isinstance(n, ast.FunctionDef)]:
            for lp in [n for n in body_walk(fn_) if isinstance(n, ast.For) and isinstance(n.iter, ast.Attribute) and n.iter.attr in ("entries", "headers")]:
                n_scans += 1
                for iff in [n for n in ast.walk(lp) if isinstance(n, ast.If)]:
                    ordering = [c for c in ast.walk(iff.test) if isinstance(c, ast.Compare) and any(isinstance(o, (ast.Lt, ast.Gt, ast.LtE, ast.GtE)) for o in c.ops)
                                and any(isinstance(x, ast.Attribute) and x.attr in ("key", "index") for x in ast.walk(c))]
                    leaves = [x for b in iff.body for x in ast.walk(b) if isinstance(x, (ast.Break, ast.Return))]
                    if ordering and leaves:
                        early.append((iff, fn_.name, U(iff.test)))
    # ... nor looks only at a window of positions chosen by the key (``entries[:key]``, ``entries[key - 1]``): where an entry
    # sits says nothing about its key
    from ..symexec import _unwrap_alias
    windows = []
    for mod_ in ("model.py", "containers.py"):
        for fn_ in [n for n in ast.walk(repo.tree(mod_)) if isinstance(n, ast.FunctionDef)]:
            for lp in [n for n in body_walk(fn_) if isinstance(n, ast.For)]:
                it_ = lp.iter
                for _ in range(3):
                    if isinstance(it_, ast.Call) and call_name(it_) in ("reversed", "list", "tuple", "enumerate", "iter") and len(it_.args) == 1:
                        it_ = it_.args[0]
                    elif isinstance(it_, ast.Name):
                        nxt_ = _unwrap_alias(fn_, it_)
                        if nxt_ is it_:
                            break
                        it_ = nxt_
                    else:
                        break
                keyed = any(isinstance(x, ast.Attribute) and x.attr in ("entries", "headers") for x in ast.walk(it_))
                tests_key = any(isinstance(c, ast.Compare) and any(isinstance(x, ast.Attribute) and x.attr in ("key", "index") for x in ast.walk(c)) for c in ast.walk(lp))
                # (a slice without bounds, ``entries[::-1]``, is the whole list in another order)
                if keyed and tests_key and isinstance(it_, ast.Subscript) and isinstance(it_.slice, ast.Slice) and (it_.slice.lower is not None or it_.slice.upper is not None):
                    windows.append((lp, fn_.name, U(it_)))
    rep.ob("C06.R1", windows[0][0] if windows else rt, "no search by key looks only at a window of positions", not windows,
           "" if not windows else f"{windows[0][1]}: the search runs over `{windows[0][2][:60]}`: that assumes entry k sits among the first k positions; in another order the entry is not found",
           key="C06.R1@scan-window")
    rep.ob("C06.R1", early[0][0] if early else rt, f"no scan of a keyed list stops on an ordering test of the keys ({n_scans} scans)", not early,
           "" if not early else f"{early[0][1]}: the scan stops when `{early[0][2]}`: that assumes the entries are stored in ascending key order; in another order the entry is not found "
           "(text, formats or sizes silently fall back to defaults)", key="C06.R1@scan-order")
    # inventory of silent fallbacks (no verdict)
    ts = repo.func("model.py", "_NumbersModel.table_string")
    rep.info("C06.inventory", f"table_string fallback on KeyError: {'return \"\"' if 'KeyError' in U(ts) else 'none'}")

    # ---- R2 rows are located by the index their record declares
    sb = repo.func("model.py", "_NumbersModel.storage_buffers")
    defs = local_defs(sb)
    row_loops = [n for n in body_walk(sb) if isinstance(n, ast.For) and "rowInfos" in U(n.iter)]
    if not row_loops:
        raise AnalysisError("storage_buffers: loop over tile.rowInfos not found")
    rl = row_loops[0]
    rvar = U(rl.target)
    keyed = [n for n in ast.walk(rl) if isinstance(n, ast.Assign) and isinstance(n.targets[0], ast.Subscript) and isinstance(n.targets[0].value, ast.Name)]
    appended = [n for n in ast.walk(rl) if isinstance(n, ast.Call) and last_attr(n.func) == "append"]
    ok = False
    detail = ""
    if keyed:
        k = keyed[0].targets[0].slice
        deps = depends_on(k, defs)
        ok = "tile_row_index" in deps and "tileid" in deps
        has_size = "tile_size" in deps or "MAX_TILE_SIZE" in {n.id for v in [k] + [x for vs in defs.values() for x in vs] for n in ast.walk(v) if isinstance(n, ast.Name)}
        ok = ok and has_size
        detail = "" if ok else f"row key `{U(k)}` depends on {sorted(deps)}: it must combine the tile's id, the tile size and the record's tile_row_index"
        # linear shape: tileid * tile_size + tile_row_index
        if ok:
            kd = k
            if isinstance(k, ast.Name) and k.id in defs:
                kd = defs[k.id][-1]
            shape = isinstance(kd, ast.BinOp) and isinstance(kd.op, ast.Add) and any(
                isinstance(x, ast.BinOp) and isinstance(x.op, ast.Mult) and "tileid" in U(x) for x in (kd.left, kd.right)) and any(
                U(x).endswith(".tile_row_index") for x in (kd.left, kd.right))
            rep.ob("C06.R2", keyed[0], f"row = tileid * tile_size + tile_row_index (`{U(kd)}`)", shape, "" if shape else "row key is not tileid*tile_size + tile_row_index", key="C06.R2@storage_buffers:formula")
    elif appended:
        detail = ("row buffers are appended in storage order and located by counting header records; the record's own tile_row_index is never read, "
                  "so an empty row with a header record shifts every later row")
    rep.ob("C06.R2", rl, "stored rows are keyed by the row index their record declares", ok, detail, key="C06.R2@storage_buffers:declared-index")
    sbf = repo.func("model.py", "_NumbersModel.storage_buffer")
    src = U(sbf)
    uses_map = "row_storage_map" in src
    ok = not uses_map and ("storage_buffers(table_id).get(row)" in src or "storage_buffers(table_id)[row]" in src)
    rep.ob("C06.R2", sbf, "storage_buffer looks the row up by its own index", ok,
           "" if ok else "row position is derived from the header-record count (row_storage_map), not from the stored row index", key="C06.R2@storage_buffer:lookup")
    # columns: buffers[col]
    ok = any(isinstance(n, ast.Return) and n.value is not None and U(n.value).endswith("[col]") for n in body_walk(sbf))
    rep.ob("C06.R2", sbf, "cell buffer selected by column index", ok, "", key="C06.R2@storage_buffer:col")
    # descriptor symmetry: positional fields the writer sets are read by the reader
    fields = pb.field_names(repo, "TSTArchives", "TileRowInfo")
    rri = repo.func("model.py", "_NumbersModel.recalculate_row_info")
    written = {n.targets[0].attr for n in body_walk(rri) if isinstance(n, ast.Assign) and isinstance(n.targets[0], ast.Attribute) and U(n.targets[0].value) == "row_info"}
    read = {n.attr for n in ast.walk(sb) if isinstance(n, ast.Attribute) and U(n.value) == rvar}
    positional = {"tile_row_index", "cell_offsets", "cell_storage_buffer", "has_wide_offsets"}
    missing = sorted((written & positional & set(fields)) - read)
    rep.ob("C06.R2", sb, f"reader consumes the positional fields the writer sets {sorted(written & positional)}", not missing,
           "" if not missing else f"written but never read: {missing}", key="C06.R2@rowinfo:symmetry")

    # ---- R3 offsets: writer (row packer) and reader (row splitter) agree
    from ..rowpack import model as rowpack_model
    from ..rowread import model as rowread_model
    rp = rowpack_model(repo)
    rr = rowread_model(repo)
    gs = rr["func"]
    shift = rp["roles"].get("shift") if rp["roles"] else None
    wide_true = rp.get("wide") is True
    mult = rr["scale"]
    ok = mult is not None and shift is not None and ((wide_true and mult == 1 << shift) or (not wide_true and shift == 0))
    rep.ob("C06.R3", rri, f"writer stores offset >> {shift} with has_wide_offsets={wide_true}; reader multiplies by {mult} when wide", ok,
           "" if ok else "reader and writer disagree on the unit of cell offsets", key="C06.R3@offsets:scale")
    wfmt = not any("cell_offsets is not" in x for x in rp["problems"])
    ok = rr["decode"] in ("array-h", "unpack-h") and wfmt
    rep.ob("C06.R3", gs, "offsets are signed 16-bit little-endian on both sides", ok, "", key="C06.R3@offsets:type")
    ok = rr["empty_ok"] and rp.get("offsets_init_ok", False)
    rep.ob("C06.R3", gs, "negative offset = no cell, on both sides", ok, "; ".join(x for x in rr["problems"] + rp["problems"] if "negative offset" in x or "-1 slot" in x), key="C06.R3@offsets:empty")
    endp = [x for x in rr["problems"] if any(k in x for k in ("next offset", "first non-negative", "end of a record", "end of the last record", "leaves the end"))]
    rep.ob("C06.R3", rr["slice"], f"cell record ends at the next stored cell or the end of the buffer (values reaching the end: {rr['end_kinds']})", not endp,
           "; ".join(endp), key="C06.R3@offsets:end")
    rest = [x for x in rr["problems"] if x not in endp and "negative offset" not in x]
    if rest:
        rep.ob("C06.R3", gs, "row splitter", False, "; ".join(rest), key="C06.R3@offsets:other")
    # the scaled flag must come from the row record itself
    call = [n for n in body_walk(sb) if isinstance(n, ast.Call) and call_name(n) == "get_storage_buffers_for_row"]
    from ..symexec import _unwrap_alias
    got = [U(_unwrap_alias(sb, a)).replace(" ", "") for a in call[0].args] if call and not call[0].keywords else []
    ok = got == [f"{rvar}.cell_storage_buffer", f"{rvar}.cell_offsets", "self.number_of_columns(table_id)", f"{rvar}.has_wide_offsets"]
    rep.ob("C06.R3", call[0] if call else sb, "row buffers decoded with the row's own offsets and width flag", ok, "", key="C06.R3@offsets:args")

    # ---- R4 container form / member order independence
    st = repo.func("iwork.py", "IWork._store_blob")
    ok = "identifier = archive.header.identifier" in U(st) and "self._handler.store_object(filename, identifier, archive.objects[0])" in U(st)
    rep.ob("C06.R4", st, "objects are keyed by their archive identifier", ok, "", key="C06.R4@_store_blob:key")
    so = repo.func("containers.py", "ObjectStore.store_object")
    ok = "self._objects[identifier] = archive" in U(so)
    rep.ob("C06.R4", so, "object store indexed by identifier", ok, "", key="C06.R4@store_object")
    rz = repo.func("iwork.py", "IWork._read_objects_from_zipfile")
    rp = repo.func("iwork.py", "IWork._read_objects_from_package")
    ok = "self._store_blob(filename, blob)" in U(rz) and "for filename in zipf.namelist()" in U(rz)
    rep.ob("C06.R4", rz, "zip form: every member stored under its member name", ok, "", key="C06.R4@zip")
    ok = "self._store_blob(package_filename, blob)" in U(rp) and "self._read_objects_from_zipfile(zipf)" in U(rp) and "self._read_objects_from_package(sub_filepath)" in U(rp)
    rep.ob("C06.R4", rp, "package form: files stored under their path inside the package; Index.zip read like the zip form", ok, "", key="C06.R4@package")
    from ..symexec import resolve_single
    rec = [c for c in body_walk(rz) if isinstance(c, ast.Call) and U(c.func) == "self._read_objects_from_zipfile" and len(c.args) == 1]
    ok = "index.zip" in U(rz).lower() and len(rec) == 1 and U(resolve_single(rz, rec[0].args[0])).replace(" ", "") in ("self._open_zipfile(BytesIO(blob))", "self._open_zipfile(BytesIO(self._read_zip_member(zipf,filename)))")
    rep.ob("C06.R4", rz, "nested Index.zip handled in the zip form", ok, "", key="C06.R4@nested-zip")
    rep.floor("C06.R1", 9)
    rep.floor("C06.R2", 4)
    rep.floor("C06.R3", 5)
    rep.floor("C06.R4", 5)


VARIANTS = [
    T("rich-text-search-step-slice", "model.py", "        for entry in rich_text_table.entries:  # pragma: no branch  # noqa: RET503",
      "        for entry in rich_text_table.entries[::-1]:  # pragma: no branch  # noqa: RET503"),
    M("rich-text-search-in-key-prefix", "model.py", "        for entry in rich_text_table.entries:  # pragma: no branch  # noqa: RET503",
      "        for entry in reversed(rich_text_table.entries[:string_key]):  # pragma: no branch  # noqa: RET503", "C06.R1"),
    T("rich-text-search-reversed", "model.py", "        for entry in rich_text_table.entries:  # pragma: no branch  # noqa: RET503",
      "        for entry in reversed(rich_text_table.entries):  # pragma: no branch  # noqa: RET503"),
    M("rich-text-scan-stops-at-larger-key", "model.py", "        for entry in rich_text_table.entries:  # pragma: no branch  # noqa: RET503\n            if string_key == entry.key:",
      "        for entry in rich_text_table.entries:  # pragma: no branch  # noqa: RET503\n            if entry.key > string_key:\n                break\n            if string_key == entry.key:", "C06.R1"),
    T("record-end-next-generator", "model.py", """            end = None
            # Find next positive offset
            for i, x in enumerate(offsets[col + 1 :]):
                if x >= 0:
                    end = offsets[col + i + 1]
                    break
            if end is None:
                end = len(storage_buffer)
""", """            end = next((x for x in offsets[col + 1 :] if x >= 0), len(storage_buffer))
"""),
    M("record-end-next-generator-unguarded", "model.py", """            end = None
            # Find next positive offset
            for i, x in enumerate(offsets[col + 1 :]):
                if x >= 0:
                    end = offsets[col + i + 1]
                    break
            if end is None:
                end = len(storage_buffer)
""", """            end = next((x for x in offsets[col + 1 :]), len(storage_buffer))
""", "C06.R3"),
    M("record-end-next-generator-from-own-offset", "model.py", """            end = None
            # Find next positive offset
            for i, x in enumerate(offsets[col + 1 :]):
                if x >= 0:
                    end = offsets[col + i + 1]
                    break
            if end is None:
                end = len(storage_buffer)
""", """            end = next((x for x in offsets[col:] if x >= 0), len(storage_buffer))
""", "C06.R"),
    M("revert-fix-ascending-only", "model.py",
      "                max_key = entry.key\n            self._datalists[table_id][\"by_key\"][entry.key] = entry\n            self._datalists[table_id][\"key_index\"][entry.key] = i\n            value_key = self.value_key(getattr(entry, self._value_attr))\n            self._datalists[table_id][\"by_value\"][value_key] = entry.key\n",
      "                max_key = entry.key\n                self._datalists[table_id][\"by_key\"][entry.key] = entry\n                self._datalists[table_id][\"key_index\"][entry.key] = i\n                value_key = self.value_key(getattr(entry, self._value_attr))\n                self._datalists[table_id][\"by_value\"][value_key] = entry.key\n",
      "C06.R1"),
    M("index-only-refcounted", "model.py", "            self._datalists[table_id][\"by_key\"][entry.key] = entry\n",
      "            if entry.refcount > 0:\n                self._datalists[table_id][\"by_key\"][entry.key] = entry\n", "C06.R1"),
    M("row-key-ignores-tile", "model.py", "row = tile_ref.tileid * tile_size + r.tile_row_index", "row = r.tile_row_index", "C06.R2"),
    M("row-key-counter", "model.py", "                row = tile_ref.tileid * tile_size + r.tile_row_index\n", "                row = len(buffers)\n", "C06.R2"),
    M("reader-scale-2", "model.py", "offsets = [o * 4 for o in offsets]", "offsets = [o * 2 for o in offsets]", "C06.R3"),
    M("writer-shift-1", "model.py", "offsets[col] = current_offset >> 2", "offsets[col] = current_offset >> 1", "C06.R3"),
    M("formula-ast-skips", "model.py", "        for formula in formula_table.entries:\n            formulas[formula.key] = formula.formula.AST_node_array.AST_node",
      "        for formula in formula_table.entries:\n            if formula.key in formulas:\n                continue\n            formulas[formula.key] = formula.formula.AST_node_array.AST_node", "C06.R1"),
    M("wide-flag-from-tile", "model.py", "                    r.has_wide_offsets,\n", "                    tile.should_use_wide_rows,\n", "C06.R"),
    T("by-key-dict-update", "model.py", "            self._datalists[table_id][\"key_index\"][entry.key] = i\n", "            self._datalists[table_id][\"key_index\"][entry.key] = i  # position\n"),
]

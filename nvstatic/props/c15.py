"""C15 — styles and borders applied through the API read back equal, now and after reload."""

from __future__ import annotations

import ast
import copy

from .. import cfg as cfgmod
from ..core import AnalysisError, U, body_walk, call_name, last_attr, try_const
from ..effects import EffectAnalysis
from ..linear import Facts, Lin, facts_if, lin
from ..selftest import M, T

EXPLANATION = (
    "CFG dominance in Table.set_cell_border (validate, extract, stamp the stroke's order, then apply to cells); attribute-set "
    "agreement between the Style dataclass, Style.from_storage, the paragraph/cell style writers, their updaters and the "
    "de-duplication fingerprint; geometric table of shared edges in _NumbersModel.set_cell_border; axis agreement between "
    "add_stroke and extract_strokes; interval algebra of the stroke-patching branches; effect-freedom of the style/border getters"
)
TRUSTED = ["python ast", "statement CFG", "linear facts with syntactic entailment"]

SIDES = {"top": ("bottom", "row", -1), "right": ("left", "col", +1), "bottom": ("top", "row", +1), "left": ("right", "col", -1)}


def style_reads(func, var="style"):
    """attributes read as ``style.X`` (first level) in a function."""
    out = set()
    for n in ast.walk(func):
        if isinstance(n, ast.Attribute) and isinstance(n.value, ast.Name) and n.value.id == var and isinstance(n.ctx, ast.Load):
            out.add(n.attr)
    return out


def check_style_ownership(repo, rep):
    """Each cell owns its Style object: the getter stores an object allocated for this very cell."""
    g = repo.func("cell.py", "Cell.style")
    stores = [n for n in body_walk(g) if isinstance(n, ast.Assign) and U(n.targets[0]) == "self._style"]
    if not stores:
        raise AnalysisError("Cell.style: assignment of self._style not found")

    def fresh(expr, depth=0):
        """True when ``expr`` can only evaluate to an object allocated by this evaluation."""
        if isinstance(expr, ast.Call):
            t = U(expr.func)
            if t in ("Style.from_storage", "Style", "cls"):
                return True, ""
            if isinstance(expr.func, ast.Attribute) and depth < 3:
                # a helper: every value it returns must itself be fresh
                cands = []
                for rel in ("model.py", "cell.py"):
                    for q, fn in repo.functions(rel).items() if hasattr(repo, "functions") else []:
                        if q.split(".")[-1] == expr.func.attr:
                            cands.append((rel, fn))
                if not cands:
                    for rel in ("model.py", "cell.py"):
                        for fn in [x for x in ast.walk(repo.tree(rel)) if isinstance(x, ast.FunctionDef) and x.name == expr.func.attr]:
                            cands.append((rel, fn))
                if len(cands) == 1:
                    fn = cands[0][1]
                    for r in [x for x in body_walk(fn) if isinstance(x, ast.Return) and x.value is not None]:
                        ok_, why = fresh(r.value, depth + 1)
                        if not ok_:
                            return False, f"{fn.name} returns `{U(r.value)}`" + (f" ({why})" if why else "")
                    return True, ""
            return False, f"`{U(expr)[:60]}` is not an allocation"
        if isinstance(expr, ast.Name):
            return False, f"`{expr.id}` may be shared"
        return False, f"`{U(expr)[:60]}` is a stored object"

    for st in stores:
        ok, why = fresh(st.value)
        rep.ob("C15.R2", st, "Cell.style: the cached Style is allocated for this cell alone", ok,
               "" if ok else f"{why}: two cells can hold the same Style object, so changing one cell's style changes the other's", key="C15.R2@style:ownership")


_SIDE_SEM = {}


def _side_semantics(repo, mscb, side):
    """(edge writes of the fullest path, memo entries dropped on it, edge writes of any path) of ``set_cell_border`` in the
    scenario ``side == <side>``, from its function summary.  An edge write is (side given to cell_for_stroke, row, col,
    border attribute stored), rows/columns as linear texts (``row-1``); a drop is (memo attribute, key).  None when the
    function is outside the summariser's language."""
    from .. import funsum as _fs
    from ..funsum import Summarizer, decide, simplify
    from ..linear import lin
    key_ = (id(mscb), side)
    if key_ in _SIDE_SEM:
        return _SIDE_SEM[key_]
    prm = [a.arg for a in mscb.args.args]
    tid, rowp, colp, sidep, bval = prm[1], prm[2], prm[3], prm[4], prm[5]

    def lt(e):
        l_ = lin(e, {})
        if l_ is None:
            return U(e).replace(" ", "")
        out = ""
        for sym in sorted(l_.t):
            c = l_.t[sym]
            out += ("+" if c > 0 and out else "") + ("" if c == 1 else "-" if c == -1 else str(c) + "*") + sym
        if l_.c:
            out += ("+" if l_.c > 0 else "") + str(l_.c)
        return out or "0"

    saved = set(_fs.TABLE_TEXTS)
    _fs.TABLE_TEXTS.update({"self._row_heights", "self._col_widths"})
    res = None
    try:
        paths = Summarizer(consts=repo.consts, effect_calls={"*"}).summarize(mscb)
        sc = {sidep: side}
        outs = decide(paths, sc, limit=6)

        def facts(pth):
            writes, drops = set(), set()
            for k_, v_, _n in pth.effects:
                if not isinstance(v_, ast.AST):
                    continue
                v2 = simplify(v_, sc)
                tgt = attr = None
                if k_ == "call:setattr" and isinstance(v2, ast.Tuple) and len(v2.elts) == 3 and isinstance(v2.elts[1], ast.Constant) and U(v2.elts[2]) == bval:
                    tgt, attr = v2.elts[0], v2.elts[1].value
                elif not k_.startswith("call:") and "._border." in k_ and U(v2) == bval:
                    place = simplify(ast.parse(k_, mode="eval").body, sc)
                    if isinstance(place, ast.Attribute):
                        tgt, attr = place.value, place.attr
                if tgt is not None:
                    if isinstance(tgt, ast.Attribute) and tgt.attr == "_border" and isinstance(tgt.value, ast.Call) and U(tgt.value.func) == "self.cell_for_stroke" \
                            and len(tgt.value.args) == 4 and U(tgt.value.args[0]) == tid:
                        a = tgt.value.args
                        s_arg = simplify(a[1], sc)
                        writes.add((s_arg.value if isinstance(s_arg, ast.Constant) else U(s_arg), lt(a[2]), lt(a[3]), attr))
                    else:
                        writes.add(("?", U(tgt)[:40], "", attr))
                if k_.startswith("call:") and k_.endswith(".pop"):
                    recv = k_[len("call:"):-len(".pop")].replace(" ", "")
                    karg = v2.elts[0] if isinstance(v2, ast.Tuple) and v2.elts else v2
                    for memo in ("_row_heights", "_col_widths"):
                        if recv == f"self.{memo}[{tid}]":
                            drops.add((memo, lt(karg)))
                        elif recv == f"self.{memo}":
                            drops.add((memo, "*"))
                if k_.startswith("call:") and k_.endswith(".clear"):
                    recv = k_[len("call:"):-len(".clear")].replace(" ", "")
                    for memo in ("_row_heights", "_col_widths"):
                        if recv in (f"self.{memo}[{tid}]", f"self.{memo}"):
                            drops.add((memo, "*"))
            return writes, drops

        best, anyw = (set(), set()), set()
        for _fx, _kind, _t, pth in outs:
            w_, d_ = facts(pth)
            anyw |= w_
            if len(w_) + len(d_) > len(best[0]) + len(best[1]):
                best = (w_, d_)
        res = (best[0], best[1], anyw)
    except AnalysisError:
        res = None
    finally:
        _fs.TABLE_TEXTS.clear()
        _fs.TABLE_TEXTS.update(saved)
    _SIDE_SEM[key_] = res
    return res


def _invalidations(repo, func, stmts, bind=None, depth=0):
    """{(memo attribute, key text or '*')} of the size-memo entries a statement list drops, directly
    (``self._row_heights[table_id].pop(k, None)``, ``del``, ``.clear()``) or through helper methods of the class (their
    parameters, including ``*args`` walked by a loop, are bound to the call's arguments)."""
    from ..symexec import subst
    bind = bind or {}
    out = set()
    tid = "table_id"

    def place(e):
        t = U(subst(e, bind)).replace(" ", "") if bind else U(e).replace(" ", "")
        for memo in ("_row_heights", "_col_widths"):
            if t == f"self.{memo}[{tid}]":
                return memo, "table"
            if t == f"self.{memo}":
                return memo, "all"
        return None, None

    def key(e):
        return U(subst(e, bind)).replace(" ", "") if bind else U(e).replace(" ", "")

    cls = repo.cls("model.py", "_NumbersModel")
    methods = {m.name: m for m in cls.body if isinstance(m, ast.FunctionDef)}

    def walk(sts, bind_):
        nonlocal bind
        saved = bind
        bind = bind_
        for st in sts:
            if isinstance(st, ast.For) and isinstance(st.iter, ast.Name) and isinstance(bind.get(st.iter.id), list) and isinstance(st.target, ast.Name):
                for a in bind[st.iter.id]:
                    walk(st.body, {**bind, st.target.id: a})
                continue
            if isinstance(st, ast.For) and isinstance(st.iter, (ast.Tuple, ast.List)) and isinstance(st.target, ast.Name):
                for a in st.iter.elts:
                    walk(st.body, {**bind, st.target.id: (subst(a, bind) if bind else a)})
                continue
            if isinstance(st, ast.Delete):
                for tg in st.targets:
                    if isinstance(tg, ast.Subscript):
                        memo, lvl = place(tg.value)
                        if memo:
                            out.add((memo, key(tg.slice) if lvl == "table" else "*"))
            # nested blocks
            for fld in ("body", "orelse", "finalbody"):
                blk = getattr(st, fld, None)
                if isinstance(blk, list) and blk and isinstance(blk[0], ast.stmt):
                    walk(blk, bind)
            heads = [st] if not hasattr(st, "body") else [getattr(st, "test", None), getattr(st, "iter", None)]
            for h in heads:
                if h is None:
                    continue
                for c in ast.walk(h):
                    if not isinstance(c, ast.Call):
                        continue
                    f = c.func
                    if isinstance(f, ast.Attribute) and f.attr in ("pop", "clear"):
                        memo, lvl = place(f.value)
                        if memo:
                            if f.attr == "clear" or lvl == "all":
                                out.add((memo, "*"))
                            elif c.args:
                                out.add((memo, key(c.args[0])))
                        continue
                    name = f.attr if isinstance(f, ast.Attribute) and isinstance(f.value, ast.Name) and f.value.id in ("self", "cls", "_NumbersModel") else None
                    if name in methods and depth < 2 and methods[name] is not func:
                        h_ = methods[name]
                        decos = [U(d) for d in h_.decorator_list]
                        params = [a.arg for a in h_.args.args]
                        if "staticmethod" not in decos:
                            params = params[1:]
                        args = [subst(a, bind) if bind else a for a in c.args]
                        b2 = dict(zip(params, args))
                        if h_.args.vararg is not None:
                            b2[h_.args.vararg.arg] = args[len(params):]
                        # the helper's own name for the table id
                        sub = _invalidations(repo, h_, h_.body, {k: v for k, v in b2.items()}, depth + 1)
                        out.update(sub)
        bind = saved

    walk(stmts, bind)
    return out


def _extract_axes(ext):
    """For each side, the set_cell_border calls that extract_strokes_in_layers reaches for one stroke run: a run of a
    top/bottom layer addresses row = the layer's row_column_index and the columns origin .. origin+length; a run of a
    left/right layer the reverse.  Read from the paths of the run loop's body, temporaries substituted."""
    from ..funsum import Asg, tv3
    from ..symexec import body_paths, lin_opaque, subst
    side_p = ext.args.args[3].arg
    outer = [n for n in ext.body if isinstance(n, ast.For)]
    if len(outer) != 1:
        raise AnalysisError("extract_strokes_in_layers: layer loop not found")
    inner = [n for n in outer[0].body if isinstance(n, ast.For)]
    if len(inner) != 1 or not isinstance(inner[0].target, ast.Name):
        raise AnalysisError("extract_strokes_in_layers: stroke-run loop not found")
    run_v = inner[0].target.id
    if not U(inner[0].iter).endswith(".stroke_runs"):
        raise AnalysisError("extract_strokes_in_layers: the inner loop does not walk stroke_runs")
    layer_e = inner[0].iter.value  # <layer>.stroke_runs
    env0 = {}
    for st in outer[0].body:
        if st is inner[0]:
            break
        if isinstance(st, ast.Assign) and len(st.targets) == 1 and isinstance(st.targets[0], ast.Name):
            env0[st.targets[0].id] = subst(st.value, env0)
    layer_t = U(subst(layer_e, env0))
    problems = []
    n_calls = 0
    for side in ("top", "bottom", "left", "right"):
        asg = Asg({side_p: side})
        horizontal = side in ("top", "bottom")
        found = 0
        for conds, steps, _end in body_paths(list(inner[0].body)):
            env = dict(env0)
            events = sorted([(getattr(t, "lineno", 0), 0, (t, o)) for t, o in conds] + [(getattr(s_, "lineno", 0), 1, s_) for s_ in steps], key=lambda x: (x[0], x[1]))
            feasible = True
            for _ln, k, ev_ in events:
                if k == 0:
                    v = tv3(subst(ev_[0], env), asg)
                    if v is None:
                        raise AnalysisError(f"extract_strokes_in_layers: branch `{U(ev_[0])}` is not decided by the side")
                    if v != ev_[1]:
                        feasible = False
                        break
                    continue
                st = ev_
                if isinstance(st, ast.Assign) and len(st.targets) == 1 and isinstance(st.targets[0], ast.Name):
                    env[st.targets[0].id] = subst(st.value, env)
                elif isinstance(st, ast.For):
                    calls = [c for c in ast.walk(st) if isinstance(c, ast.Call) and last_attr(c.func) == "set_cell_border"]
                    if not calls:
                        continue
                    if not (isinstance(st.iter, ast.Call) and call_name(st.iter) == "range" and len(st.iter.args) == 2 and isinstance(st.target, ast.Name)):
                        problems.append(f"side {side}: the cells of a run are not walked with range(start, end)")
                        continue
                    lo, hi = (subst(a_, env) for a_ in st.iter.args)
                    span_ok = U(lo) == f"{run_v}.origin" and repr(lin_opaque(hi) - lin_opaque(lo)) == repr(lin_opaque(ast.parse(f"{run_v}.length", mode="eval").body))
                    for c in calls:
                        found += 1
                        n_calls += 1
                        if len(c.args) < 5:
                            problems.append(f"side {side}: set_cell_border call with {len(c.args)} arguments")
                            continue
                        r_, c_ = U(subst(c.args[1], env)), U(subst(c.args[2], env))
                        fixed, moving = (r_, c_) if horizontal else (c_, r_)
                        if not (fixed == f"{layer_t}.row_column_index" and moving == st.target.id and span_ok and U(subst(c.args[3], env)) == side_p):
                            problems.append(f"side {side}: border set at (row={r_}, col={c_}) for `{st.target.id}` in range({U(lo)}, {U(hi)}): a "
                                            f"{'horizontal' if horizontal else 'vertical'} run must fix the {'row' if horizontal else 'column'} at the layer's index and cover origin .. origin+length")
            if not feasible:
                continue
        if found == 0:
            problems.append(f"side {side}: no set_cell_border call is reached")
    return not problems, "; ".join(problems[:2])


def run(repo, rep, tier):
    # ---- R1 stamp before apply
    scb = repo.func("document.py", "Table.set_cell_border")
    g = cfgmod.build(scb)
    stamp = [n for n in body_walk(scb) if isinstance(n, ast.Call) and U(n.func) == "self._model.add_stroke"]
    apply_ = [n for n in body_walk(scb) if isinstance(n, ast.Call) and U(n.func) == "self._model.set_cell_border"]
    extract = [n for n in body_walk(scb) if isinstance(n, ast.Call) and U(n.func) == "self._model.extract_strokes"]
    if not stamp or not apply_:
        raise AnalysisError("Table.set_cell_border: add_stroke / set_cell_border calls not found")
    for a in apply_:
        ok = cfgmod.dominates(scb, stamp[0], a)
        rep.ob("C15.R1", a, f"stroke order is stamped (add_stroke) before `{U(a)[:60]}`", ok,
               "" if ok else "cells compare the order of the new stroke before it is assigned: a second stroke over an existing edge is ignored by the open document but saved",
               key=f"C15.R1@stamp-before-apply:{U(a.args[1]) if len(a.args) > 1 else ''}")
    ok = bool(extract) and cfgmod.dominates(scb, extract[0], stamp[0])
    rep.ob("C15.R1", stamp[0], "stored strokes are extracted before the new stroke is added", ok, "" if ok else "the new stroke would be extracted again and re-applied", key="C15.R1@extract-first")
    raises = [n for n in body_walk(scb) if isinstance(n, ast.Raise) and "side must be" in U(n) or isinstance(n, ast.Raise) and "TypeError" in U(n)]
    bad = [U(r)[:50] for r in raises if g.node_of(r) is not None and g.paths_avoiding(g.node_of(stamp[0]), g.node_of(r), set())]
    rep.ob("C15.R1", scb, "argument validation precedes the stamp and the apply", not bad, f"refusals after mutation: {bad}", key="C15.R1@validate-first")
    sargs = [U(a) for a in stamp[0].args]
    ok = sargs == ["self._table_id", "row", "col", "side", "border_value", "length"]
    rep.ob("C15.R1", stamp[0], "add_stroke receives (table, row, col, side, border, length)", ok, f"{sargs}", key="C15.R1@stamp-args")
    for a in apply_:
        aa = [U(x) for x in a.args]
        loop = next((p for p in _anc(a) if isinstance(p, ast.For)), None)
        lv = U(loop.target) if loop else ""
        horiz = loop is not None and U(loop.iter).replace(" ", "") == "range(col,col+length)"
        vert = loop is not None and U(loop.iter).replace(" ", "") == "range(row,row+length)"
        ok = (horiz and aa == ["self._table_id", "row", lv, "side", "border_value"]) or (vert and aa == ["self._table_id", lv, "col", "side", "border_value"])
        cond = "else"
        child = a
        for p in _anc(a):
            if isinstance(p, ast.If) and "side" in U(p.test):
                in_body = any(child is x or any(child is y for y in ast.walk(x)) for x in p.body)
                cond = U(p.test) if in_body else "not (" + U(p.test) + ")"
                break
            child = p
        axis_ok = (horiz and cond.startswith("side in") and "top" in cond and "bottom" in cond) or \
            (vert and ((cond.startswith("side in") and "left" in cond and "right" in cond) or (cond.startswith("not (") and "top" in cond and "bottom" in cond)))
        rep.ob("C15.R1", a, f"stroke of `length` cells runs along the edge ({'columns' if horiz else 'rows'}) for sides [{cond[:40]}]", ok and axis_ok,
               "" if ok and axis_ok else "the stroke is applied along the wrong axis or with the wrong cell", key=f"C15.R1@run-axis:{'h' if horiz else 'v'}")
    # add_stroke: order strictly increases and is given to the border
    ads = repo.func("model.py", "_NumbersModel.add_stroke")
    inc = [n for n in body_walk(ads) if isinstance(n, ast.AugAssign) and U(n.target) == "sidecar_obj.max_order"]
    st = [n for n in body_walk(ads) if isinstance(n, ast.Assign) and U(n.targets[0]) == "border_value._order"]
    ok = len(inc) == 1 and isinstance(inc[0].op, ast.Add) and try_const(inc[0].value) == 1 and len(st) == 1 and U(st[0].value) == "sidecar_obj.max_order" \
        and cfgmod.dominates(ads, inc[0], st[0])
    rep.ob("C15.R1", ads, "add_stroke: max_order += 1, then border._order = max_order", ok, "" if ok else "orders are not strictly increasing: 'most recent wins' is lost", key="C15.R1@order-increment")
    cs = repo.func("model.py", "_NumbersModel.create_stroke")
    ok = "order=border_value._order" in U(cs)
    rep.ob("C15.R1", cs, "the stored stroke run carries the border's order", ok, "", key="C15.R1@order-stored")
    ext = repo.func("model.py", "_NumbersModel.extract_strokes_in_layers")
    ok = "_order=stroke_run.order" in U(ext)
    rep.ob("C15.R1", ext, "extracted borders carry the stored order", ok, "", key="C15.R1@order-read")
    # CellBorder setters: newest (highest order) wins
    cb = repo.cls("cell.py", "CellBorder")
    for side in SIDES:
        setters = [n for n in cb.body if isinstance(n, ast.FunctionDef) and n.name == side and any(U(d).endswith(".setter") for d in n.decorator_list)]
        ok = False
        if setters:
            s = U(setters[0]).replace(" ", "").replace("\n", "")
            ok = (f"ifself._{side}isNoneorvalue._order>self._{side}._order:self._{side}=value" in s) or (f"ifself._{side}isNoneorvalue._order>self.{side}._order:self._{side}=value" in s)
        rep.ob("C15.R1", setters[0] if setters else cb, f"CellBorder.{side} setter: a stroke replaces the stored one iff its order is higher", ok,
               "" if ok else "overlapping strokes do not resolve to the most recent one", key=f"C15.R1@setter:{side}")

    # ---- R2 attribute plumbing
    style_cls = repo.cls("cell.py", "Style")
    fields = [n.target.id for n in style_cls.body if isinstance(n, ast.AnnAssign) and isinstance(n.target, ast.Name)]
    public = [f for f in fields if not f.startswith("_")]
    rep.sub(check_style_ownership, repo, rep)
    rep.ob("C15.R2", style_cls, f"Style has {len(public)} public attributes", len(public) >= 15, "", key="C15.R2@fields")
    fs = repo.func("cell.py", "Style.from_storage")
    kws = {}
    for c in ast.walk(fs):
        if isinstance(c, ast.Call) and call_name(c) in ("Style", "cls"):
            kws = {kw.arg: kw.value for kw in c.keywords}
    for f in public:
        ok = f in kws
        rep.ob("C15.R2", fs, f"Style.from_storage reads `{f}` back", ok, "" if ok else "the attribute is never read from the document", key=f"C15.R2@read:{f}")
    READER = {
        "alignment": "cell_alignment", "bg_color": "cell_bg_color", "font_color": "cell_font_color", "font_size": "cell_font_size", "font_name": "cell_font_name",
        "bold": "cell_is_bold", "italic": "cell_is_italic", "strikethrough": "cell_is_strikethrough", "underline": "cell_is_underline", "name": "cell_style_name",
        "first_indent": "cell_first_indent", "left_indent": "cell_left_indent", "right_indent": "cell_right_indent", "text_inset": "cell_text_inset", "text_wrap": "cell_text_wrap",
    }
    for f, acc in READER.items():
        v = kws.get(f)
        ok = v is not None and U(v) == f"model.{acc}(cell)"
        rep.ob("C15.R2", fs, f"`{f}` read through model.{acc}(cell)", ok, "" if ok else f"found `{U(v) if v is not None else None}`: the attribute is filled from another accessor", key=f"C15.R2@reader:{f}")
    ta = set(try_const(repo.func("cell.py", "Style._text_attrs").body[-1].value) or [])
    ca = set(try_const(repo.func("cell.py", "Style._cell_attrs").body[-1].value) or [])
    aps = repo.func("model.py", "_NumbersModel.add_paragraph_style")
    ups = repo.func("model.py", "_NumbersModel.update_paragraph_style")
    acs = repo.func("model.py", "_NumbersModel.add_cell_style")
    ucs = repo.func("model.py", "_NumbersModel.update_cell_styles")
    p_add = style_reads(aps) - {"_text_style_obj_id"}
    p_upd = style_reads(ups) - {"_text_style_obj_id"}
    c_add = style_reads(acs)
    ok = p_add - {"name"} == p_upd
    rep.ob("C15.R2", ups, "update_paragraph_style writes the same attributes as add_paragraph_style", ok,
           "" if ok else f"only in add: {sorted(p_add - p_upd - {'name'})}, only in update: {sorted(p_upd - p_add)}: editing a style does not persist those attributes", key="C15.R2@para:add-vs-update")
    ok = p_add <= ta
    rep.ob("C15.R2", aps, "attributes the paragraph writer consumes are text attributes (set the text dirty flag)", ok, f"{sorted(p_add - ta)}", key="C15.R2@para:dirty")
    ok = c_add - {"name"} <= ca
    rep.ob("C15.R2", acs, "attributes the cell-style writer consumes are cell attributes (set the cell dirty flag)", ok, f"{sorted(c_add - ca - {'name'})}", key="C15.R2@cell:dirty")
    missing = sorted(set(public) - (p_add | c_add))
    rep.ob("C15.R2", acs, "every public Style attribute is persisted by one of the two writers", not missing, f"never written: {missing}", key="C15.R2@all-written")
    ok = (ta | ca) >= set(public)
    rep.ob("C15.R2", style_cls, "every public attribute marks the style dirty when assigned", ok, f"{sorted(set(public) - (ta | ca))}", key="C15.R2@all-dirty")
    # fingerprint covers everything the cell writer consumes
    fp_reads = set()
    for n in ast.walk(ucs):
        if isinstance(n, ast.Attribute) and isinstance(n.ctx, ast.Load) and U(n.value) in ("cell.style", "cell._style"):
            fp_reads.add(n.attr)
    need = c_add - {"name"}
    miss = sorted(need - fp_reads)
    rep.ob("C15.R2", ucs, f"cell-style de-duplication fingerprint covers {sorted(need)}", not miss,
           "" if not miss else f"{miss} are written by add_cell_style but not part of the fingerprint: two styles differing only there share one saved cell style", key="C15.R2@fingerprint")
    # every cell whose style is marked for a cell style gets one: no path of the cell loop skips the assignment of the
    # style object id once the dirty flag test has passed
    from ..symexec import body_paths as _bp
    inner_loops = [n for n in body_walk(ucs) if isinstance(n, ast.For) and not any(isinstance(x, ast.For) for b in n.body for x in ast.walk(b))]
    skipped = []
    n_paths = 0
    for lp in inner_loops:
        for conds, steps, end in _bp(list(lp.body)):
            n_paths += 1
            dirty = any("_update_cell_style" in U(t) and o is True and not (isinstance(t, ast.UnaryOp)) for t, o in conds) or \
                any("_update_cell_style" in U(t) and o is False and isinstance(t, ast.BoolOp) and isinstance(t.op, ast.Or) for t, o in conds)
            assigns = any(isinstance(st_, ast.Assign) and any(U(tg).endswith("._cell_style_obj_id") for tg in st_.targets) for st_ in steps)
            if dirty and not assigns:
                extra = [U(t)[:80] for t, o in conds if "_update_cell_style" not in U(t)]
                skipped.append((lp, extra))
    ok = bool(inner_loops) and not skipped and n_paths > 0
    rep.ob("C15.R2", skipped[0][0] if skipped else ucs, "update_cell_styles: every cell marked for a cell style is given one", ok,
           "" if ok else f"a marked cell is passed over when `{(skipped[0][1] or ['?'])[0]}`: the saved file keeps the cell's previous cell style (fill, vertical alignment, inset) while the open document shows the new one",
           key="C15.R2@cell:no-skip")
    # an automatically chosen style name is fresh: its number is one more than the highest number in use
    csn = repo.func("model.py", "_NumbersModel.custom_style_name")
    from ..funsum import Summarizer as _Sm
    fresh = []
    for p_ in _Sm().summarize(csn):
        if p_.kind != "return" or (isinstance(p_.ret, ast.Constant) and isinstance(p_.ret.value, str)):
            continue
        nums = [n for n in ast.walk(p_.ret) if isinstance(n, ast.BinOp) and isinstance(n.op, ast.Add) and try_const(n.right) == 1]
        ok_ = any(isinstance(n.left, ast.Call) and call_name(n.left) == "max" and any(isinstance(x, ast.Call) and call_name(x) == "int" for x in ast.walk(n.left)) for n in nums)
        fresh.append((p_.node, ok_, U(p_.ret)[:90]))
    ok = bool(fresh) and all(o for _n, o, _t in fresh)
    bad_ = next(((n_, t_) for n_, o, t_ in fresh if not o), (csn, ""))
    rep.ob("C15.R2", bad_[0], "custom_style_name: the generated name carries max(numbers in use) + 1", ok,
           "" if ok else f"the name is built as `{bad_[1]}`: with 'Custom Style 3' and 'Custom Style 2' present (in that order) it repeats a name in use, and the new style replaces the older one of that name",
           key="C15.R2@custom-style-name:fresh")
    # the de-duplication key keeps its fields apart (a tuple, not the fields' texts run together)
    keyvars = {U(n.slice) for n in ast.walk(ucs) if isinstance(n, ast.Subscript) and U(n.value) == "cell_styles" and isinstance(n.slice, ast.Name)}
    glued = []
    n_fp = 0
    for n in body_walk(ucs):
        tgt, val = (n.targets[0], n.value) if isinstance(n, ast.Assign) and len(n.targets) == 1 else ((n.target, n.value) if isinstance(n, ast.AugAssign) else (None, None))
        if tgt is None or U(tgt) not in keyvars:
            continue
        n_fp += 1

        def parts(e):
            """operands of a chain of + (the key variable itself is the left end of an accumulation)"""
            if isinstance(e, ast.BinOp) and isinstance(e.op, ast.Add):
                return parts(e.left) + parts(e.right)
            return [e]
        for op in parts(val):
            if isinstance(op, ast.Name) and op.id in keyvars:
                continue
            if not isinstance(op, ast.Tuple):
                glued.append((n, U(op)[:50]))
            else:
                for el in op.elts:
                    if isinstance(el, (ast.BinOp, ast.JoinedStr)) and len([x for x in ast.walk(el) if isinstance(x, ast.Attribute) and "style" in U(x)]) > 1:
                        glued.append((n, U(el)[:50]))
    ok = n_fp > 0 and not glued
    rep.ob("C15.R2", glued[0][0] if glued else ucs, f"the cell-style de-duplication key is a tuple of fields ({n_fp} assignments)", ok,
           "" if ok else f"`{glued[0][1]}` is run together with its neighbours as text: different styles give the same key (background RGB(1, 23, 4) and RGB(12, 3, 4) are both '1234') "
           "and the second cell is saved with the first cell's style", key="C15.R2@fingerprint:separated")
    # vertical/horizontal halves of alignment
    ok = "style.alignment.horizontal" in U(aps) and "style.alignment.vertical" in U(acs) and "cell.style.alignment.vertical" in U(ucs)
    rep.ob("C15.R2", acs, "horizontal alignment -> paragraph style, vertical alignment -> cell style and fingerprint", ok, "", key="C15.R2@alignment-halves")
    # writer field <-> reader field
    WR = [
        ("bold", "'bold': style.bold", "cell_is_bold", "'bold'"), ("italic", "'italic': style.italic", "cell_is_italic", "'italic'"),
        ("font_size", "'font_size': style.font_size", "cell_font_size", "'font_size'"), ("font_name", "'font_name': FONT_FAMILY_TO_NAME[style.font_name]", "cell_font_name", "'font_name'"),
        ("first_indent", "'first_line_indent': style.first_indent", "cell_first_indent", "'first_line_indent'"), ("left_indent", "'left_indent': style.left_indent", "cell_left_indent", "'left_indent'"),
        ("right_indent", "'right_indent': style.right_indent", "cell_right_indent", "'right_indent'"), ("alignment", "'alignment': style.alignment.horizontal", "cell_alignment", "'alignment'"),
        ("underline", "'underline': underline", "cell_is_underline", "'underline'"), ("strikethrough", "'strikethru': strikethru", "cell_is_strikethrough", "'strikethru'"),
    ]
    aps_s = U(aps)
    for f, wtxt, acc, rtxt in WR:
        r = repo.func("model.py", f"_NumbersModel.{acc}")
        ok = wtxt in aps_s and rtxt in U(r)
        rep.ob("C15.R2", r, f"`{f}`: written as {wtxt.split(':')[0]} and read from the same field", ok, "", key=f"C15.R2@field:{f}")
    acs_s = U(acs)
    ok = all(x in acs_s for x in ("'left': style.text_inset", "'top': style.text_inset", "'right': style.text_inset", "'bottom': style.text_inset")) and "padding.left" in U(repo.func("model.py", "_NumbersModel.cell_text_inset"))
    rep.ob("C15.R2", acs, "`text_inset`: written to all four paddings, read from padding.left", ok, "", key="C15.R2@field:text_inset")
    ok = "'text_wrap': style.text_wrap" in acs_s and "'text_wrap'" in U(repo.func("model.py", "_NumbersModel.cell_text_wrap"))
    rep.ob("C15.R2", acs, "`text_wrap`: written and read from cell_properties.text_wrap", ok, "", key="C15.R2@field:text_wrap")
    ok = "'vertical_alignment': style.alignment.vertical" in acs_s and "'vertical_alignment'" in U(repo.func("model.py", "_NumbersModel.cell_alignment"))
    rep.ob("C15.R2", acs, "vertical alignment: written and read from cell_properties.vertical_alignment", ok, "", key="C15.R2@field:valign")
    ok = all(f"'{c}': style.bg_color.{c} / 255" in acs_s for c in "rgb") and "RGB(round(obj.r * 255), round(obj.g * 255), round(obj.b * 255))" in U(repo.func("model.py", "rgb"))
    rep.ob("C15.R2", acs, "`bg_color`: channels scaled by 255 both ways, r/g/b not permuted", ok, "", key="C15.R2@field:bg_color")
    ok = all(aps_s.count(f"'{c}': style.font_color.{c} / 255") == 2 for c in "rgb") and all(U(ups).count(f".{c} = style.font_color.{c} / 255") == 2 for c in "rgb")
    rep.ob("C15.R2", aps, "`font_color`: channels written unpermuted to font_color and tsd_fill", ok, "", key="C15.R2@field:font_color")
    # dirty flags drive the save
    s = U(repo.func("model.py", "_NumbersModel.update_paragraph_styles"))
    ok = "x._text_style_obj_id is None" in s and "x._text_style_obj_id is not None and x._update_text_style" in s and "self.add_paragraph_style(style)" in s and "self.update_paragraph_style(style)" in s
    rep.ob("C15.R2", repo.func("model.py", "_NumbersModel.update_paragraph_styles"), "new styles are added, edited styles updated, on save", ok, "", key="C15.R2@save:para")
    ok = "cell._style is not None and cell._style._update_cell_style" in U(ucs) and "cell._style._cell_style_obj_id = cell_styles[fingerprint]" in U(ucs)
    rep.ob("C15.R2", ucs, "cells whose style needs a cell style get one on save", ok, "", key="C15.R2@save:cell")
    tb = repo.func("cell.py", "Cell._to_buffer")
    s = U(tb)
    ok = "self._style._text_style_obj_id" in s and "self._style._cell_style_obj_id" in s and s.count("self._model._table_styles.lookup_key(self._table_id") == 2
    rep.ob("C15.R2", tb, "a styled cell stores references to its paragraph and cell style objects", ok, "", key="C15.R2@save:refs")
    sa = repo.func("cell.py", "Style.__setattr__")
    s = U(sa).replace(" ", "")
    ok = "ifnameinStyle._text_attrs():self.__dict__['_update_text_style']=True" in s.replace("\n", "") and "ifnameinStyle._cell_attrs():self.__dict__['_update_cell_style']=True" in s.replace("\n", "")
    rep.ob("C15.R2", sa, "assigning a text/cell attribute sets the matching dirty flag", ok, "", key="C15.R2@dirty-flags")
    # set_cell_style stores the given style on the cell only
    scs = repo.func("document.py", "Table.set_cell_style")
    stores = [U(n.targets[0]) for n in body_walk(scs) if isinstance(n, ast.Assign)]
    ok = all(t in ("self._data[row][col]._style", "(row, col, style)", "row, col, style", "msg") for t in stores) and len(stores) >= 3
    rep.ob("C15.R2", scs, "set_cell_style changes only the addressed cell's style", ok, f"{stores}", key="C15.R2@set_cell_style")

    # ---- R3 edge geometry
    mscb = repo.func("model.py", "_NumbersModel.set_cell_border")
    branches = {}
    node = next((n for n in mscb.body if isinstance(n, ast.If)), None)
    while node is not None:
        t = U(node.test)
        side = next((s for s in SIDES if f"side == '{s}'" in t), None)
        branches[side or "else"] = node.body
        if len(node.orelse) == 1 and isinstance(node.orelse[0], ast.If):
            node = node.orelse[0]
        else:
            if node.orelse:
                branches["else"] = node.orelse
            node = None
    named = [s for s in branches if s != "else"]
    missing_side = [s for s in SIDES if s not in named]
    if len(missing_side) == 1 and "else" in branches:
        branches[missing_side[0]] = branches.pop("else")
    for side, (opp, axis, d) in SIDES.items():
        body = branches.get(side)
        if body is None:
            rep.ob("C15.R3", mscb, f"set_cell_border handles side {side}", False, "", key=f"C15.R3@{side}:present")
            continue
        txt = " ".join(U(b) for b in body).replace(" ", "")
        nb_row = "row" + ("+1" if (axis == "row" and d > 0) else "-1" if (axis == "row" and d < 0) else "")
        nb_col = "col" + ("+1" if (axis == "col" and d > 0) else "-1" if (axis == "col" and d < 0) else "")
        own = f"self.cell_for_stroke(table_id,'{side}',row,col)" in txt and f"cell._border.{side}=border_value" in txt
        nb = f"self.cell_for_stroke(table_id,'{opp}',{nb_row},{nb_col})" in txt and f"cell._border.{opp}=border_value" in txt
        sem = None
        if not (own and nb):
            # second reading: the function summary in the scenario of this side (edge writes and memo drops as effects)
            sem = _side_semantics(repo, mscb, side)
            if sem is not None:
                want_w = {(side, "row", "col", side), (opp, nb_row, nb_col, opp)}
                own = nb = sem[0] == want_w and sem[2] <= want_w
        rep.ob("C15.R3", body[0], f"side {side}: own edge and the {opp} edge of the neighbour at ({nb_row}, {nb_col})", own and nb,
               "" if own and nb else "the shared edge is attributed to the wrong neighbour or side", key=f"C15.R3@{side}:edges")
        memo = "_row_heights" if axis == "row" else "_col_widths"
        idx = "row" if axis == "row" else "col"
        nbi = nb_row if axis == "row" else nb_col
        inv = _invalidations(repo, mscb, body)
        need = {(memo, idx), (memo, nbi)}
        okm = need <= inv or (memo, "*") in inv
        if not okm:
            sem = sem if sem is not None else _side_semantics(repo, mscb, side)
            if sem is not None:
                inv = sem[1]
                okm = need <= inv or (memo, "*") in inv
        rep.ob("C15.R3", body[0], f"side {side}: size memo of both affected {axis}s invalidated", okm,
               "" if okm else f"entries dropped: {sorted(inv)}; needed {sorted(need)}: a memoised {axis} size keeps the allowance of the old border", key=f"C15.R3@{side}:memo")
    cfs = repo.func("model.py", "_NumbersModel.cell_for_stroke")
    # the function summary asked at and around the corners of a 3 x 4 grid: outside -> None on every path, inside -> a cell on some
    from ..funsum import Summarizer as _Summ, Asg as _Asg, tv3 as _tv3
    import itertools as _it
    cfs_paths = _Summ(consts=repo.consts).summarize(cfs)
    prm = [a.arg for a in cfs.args.args]
    rowp, colp = prm[3], prm[4]
    grid = f"self._table_data[{prm[1]}]"
    NR, NC = 3, 4
    why = ""
    seen_cell = False
    for r_, c_ in _it.product((-1, 0, NR - 1, NR), (-1, 0, NC - 1, NC)):
        sc = {rowp: r_, colp: c_, f"len({grid})": NR, f"len({grid}[{rowp}])": NC, "len(data)": NR, f"len(data[{rowp}])": NC}
        inside = 0 <= r_ < NR and 0 <= c_ < NC
        # the paths the position leaves open (a condition the position does not decide may go either way)
        asg_ = _Asg(sc)
        outs = []
        for p_ in cfs_paths:
            open_ = True
            for c2_, o2_ in p_.conds:
                v_ = _tv3(c2_, asg_)
                if v_ is not None and v_ != o2_:
                    open_ = False
                    break
            if open_:
                outs.append((None, p_.kind, U(p_.ret) if p_.ret is not None else None, p_))
        for _fx, kind_, text_, _p in outs:
            if not inside and not (kind_ == "return" and text_ == "None"):
                why = why or f"at (row={r_}, col={c_}) outside a {NR} x {NC} grid the function {kind_}s `{text_}` instead of None (a border on the table's outer edge then touches a cell that is not there, or one on the opposite side through a negative index)"
            if inside and kind_ == "return" and text_ != "None":
                seen_cell = True
    ok = not why and seen_cell
    rep.ob("C15.R3", cfs, "edges outside the table have no cell", ok, why or ("" if seen_cell else "no position gives a cell"), key="C15.R3@bounds")

    # ---- R4 stroke axes agree
    s_add = U(ads).replace(" ", "").replace("\n", "")
    LAY = {"top": ("top_row_stroke_layers", "row", "col"), "right": ("right_column_stroke_layers", "col", "row"),
           "bottom": ("bottom_row_stroke_layers", "row", "col"), "left": ("left_column_stroke_layers", "col", "row")}
    abr = {}
    node = next((n for n in ads.body if isinstance(n, ast.If) and "side ==" in U(n.test)), None)
    while node is not None:
        side = next((s for s in SIDES if f"side == '{s}'" in U(node.test)), None)
        abr[side or "else"] = node.body
        if len(node.orelse) == 1 and isinstance(node.orelse[0], ast.If):
            node = node.orelse[0]
        else:
            if node.orelse:
                abr["else"] = node.orelse
            node = None
    miss = [s for s in SIDES if s not in abr]
    if len(miss) == 1 and "else" in abr:
        abr[miss[0]] = abr.pop("else")
    ex = repo.func("model.py", "_NumbersModel.extract_strokes")
    ex_s = U(ex).replace(" ", "")
    # the layer list, the layer index and the run origin that add_stroke works with, per side: the locals are read off
    # the path the side selects, at the loop that looks for the layer
    from ..funsum import env_before
    layer_loop = next((n for n in ads.body if isinstance(n, ast.For) and "row_column_index" in U(n)), None)
    if layer_loop is None or not isinstance(layer_loop.iter, ast.Name):
        raise AnalysisError("add_stroke: the loop that looks for the stroke layer was not found")
    cmp_ = next((c for c in ast.walk(layer_loop) if isinstance(c, ast.Compare) and len(c.ops) == 1 and isinstance(c.ops[0], ast.Eq)
                 and (U(c.left).endswith(".row_column_index") or U(c.comparators[0]).endswith(".row_column_index"))), None)
    if cmp_ is None:
        raise AnalysisError("add_stroke: the layer is not selected by comparing row_column_index")
    idx_e = cmp_.comparators[0] if U(cmp_.left).endswith(".row_column_index") else cmp_.left
    side_param = ads.args.args[4].arg if len(ads.args.args) > 4 else "side"
    origin_name = "origin"
    for side, (layer, rci, org) in LAY.items():
        env = env_before(ads.body, layer_loop, {side_param: side}, ads.name)
        from ..symexec import subst as _subst
        d = {"layer_ids": U(_subst(layer_loop.iter, env)), "row_column_index": U(_subst(idx_e, env)), "origin": U(env.get(origin_name, ast.Name(id=origin_name, ctx=ast.Load())))}
        ok = d["layer_ids"] == f"self.objects[self.objects[table_id].stroke_sidecar.identifier].{layer}" and d["row_column_index"] == rci and d["origin"] == org
        if not ok and d["layer_ids"] == f"sidecar_obj.{layer}":
            ok = d["row_column_index"] == rci and d["origin"] == org
        rep.ob("C15.R4", layer_loop, f"add_stroke {side}: layers={layer}, index={rci}, origin={org}", ok, f"{d}", key=f"C15.R4@add:{side}")
        ok = f"self.extract_strokes_in_layers(table_id,sidecar_obj.{layer},'{side}')" in ex_s
        rep.ob("C15.R4", ex, f"extract_strokes reads {layer} as side {side}", ok, "", key=f"C15.R4@extract:{side}")
    ok, detail_axes = _extract_axes(ext)
    rep.ob("C15.R4", ext, "extract: horizontal strokes index rows and run over columns; vertical strokes the reverse", ok, detail_axes, key="C15.R4@extract:axes")
    ok = "ifself.objects[layer_id.identifier].row_column_index==row_column_index:stroke_layer=self.objects[layer_id.identifier]" in s_add
    rep.ob("C15.R4", ads, "add_stroke patches the layer of the same row/column index", ok, "", key="C15.R4@add:layer-match")
    check_patching(repo, rep, ads)
    # width/colour/pattern round trip
    s = U(cs)
    ok = "width = border_value.width" in s and "width=width" in s and all(f"{c}=border_value.color.{c} / 255" in s for c in "rgb")
    rep.ob("C15.R4", cs, "stroke width and colour channels stored unpermuted", ok, "", key="C15.R4@create:fields")
    ok = "width=round(stroke_run.stroke.width, 2)" in U(ext) and "color=rgb(stroke_run.stroke.color)" in U(ext) and "style=self.stroke_type(stroke_run)" in U(ext)
    rep.ob("C15.R4", ext, "stroke width, colour and pattern read back from the same fields", ok, "", key="C15.R4@extract:fields")

    # ---- R5 getters are effect-free
    ea = EffectAnalysis(repo)
    for q in ("Cell.style@getter", "Cell.border@getter"):
        f = repo.func("cell.py", q)
        bad = sorted(e for e in ea.effects(f, frozenset()) if e[0] in ("PROTO", "ALLOC"))
        rep.ob("C15.R5", f, f"{q} has no protobuf-write/allocation effect", not bad, f"{bad[:1]}", key=f"C15.R5@{q}")

    # ---- R6 values a getter memoises must be acceptable to the save path
    cbg = repo.func("model.py", "_NumbersModel.cell_bg_color")
    returns_list = any(isinstance(r.value, (ast.ListComp, ast.List)) for r in body_walk(cbg) if isinstance(r, ast.Return) and r.value is not None)
    uses = [n for n in ast.walk(acs) if isinstance(n, ast.Attribute) and n.attr in "rgb" and U(n.value) == "style.bg_color"]
    uses += [n for n in ast.walk(ucs) if isinstance(n, ast.Attribute) and n.attr in "rgb" and U(n.value) == "cell.style.bg_color"]
    guarded = "isinstance(style.bg_color, list)" in U(acs) or "isinstance(style.bg_color, RGB)" in U(acs)
    ok = not (returns_list and uses and not guarded)
    rep.ob("C15.R6", acs, "a background read back as a list of colours (gradient) is acceptable to the cell-style writer", ok,
           "" if ok else "cell_bg_color returns a list for gradient fills, Style.from_storage memoises it on the cell, and add_cell_style/update_cell_styles read .r/.g/.b: reading the style of a gradient-filled cell makes the next save raise AttributeError",
           key="C15.R6@gradient-bg-color")
    # a table made by add_table owns its stroke sidecar: a fresh StrokeSidecarArchive is created and the new table model refers to
    # it, either by set_reference afterwards or by a key of the creating dict that the copied references (**refs) cannot override
    adt = repo.func("model.py", "_NumbersModel.add_table")
    fresh = [n for n in body_walk(adt) if isinstance(n, ast.Assign) and isinstance(n.value, ast.Call) and "StrokeSidecarArchive" in U(n.value)]
    sid = None
    if fresh and isinstance(fresh[0].targets[0], ast.Tuple) and fresh[0].targets[0].elts:
        sid = U(fresh[0].targets[0].elts[0])
    linked = False
    why_sc = "no fresh StrokeSidecarArchive is created for the new table" if sid is None else ""
    if sid is not None:
        for c in body_walk(adt):
            if isinstance(c, ast.Call) and U(c.func) == "self.set_reference" and len(c.args) == 2 and U(c.args[0]).endswith(".stroke_sidecar") and U(c.args[1]) == sid \
                    and c.lineno > fresh[0].lineno:
                linked = True
        for d in [n for n in body_walk(adt) if isinstance(n, ast.Dict)]:
            for i, (k, v) in enumerate(zip(d.keys, d.values)):
                if k is not None and try_const(k, default=None) == "stroke_sidecar" and sid in U(v):
                    later_splat = any(k2 is None for k2 in d.keys[i + 1:])
                    if later_splat:
                        why_sc = "the new sidecar is named in the creating dict before `**` of the references copied from the source table, which name the source's sidecar: the copy wins"
                    else:
                        linked = True
        if not linked and not why_sc:
            why_sc = "the fresh sidecar is never linked to the new table model"
    rep.ob("C15.R4", fresh[0] if fresh else adt, "add_table gives the new table a stroke sidecar of its own", linked and not why_sc,
           why_sc + (": both tables then share one set of strokes (after reload each shows the union, and a stroke set in one overwrites the other's)" if why_sc else ""),
           key="C15.R4@add_table:own-sidecar")

    # a package member is stored under its path inside the package: what the loader strips from the file path is everything
    # up to the package folder being read, also when a folder above it is itself named *.numbers (the pattern is exercised as
    # data with the re module)
    import re as _re
    rp = repo.func("iwork.py", "IWork._read_objects_from_package")
    subs = [c for c in body_walk(rp) if isinstance(c, ast.Call) and U(c.func) == "re.sub" and len(c.args) >= 3 and try_const(c.args[1], default=None) == ""]
    why_pk = ""
    by_path = [c for c in body_walk(rp) if isinstance(c, ast.Call) and isinstance(c.func, ast.Attribute) and c.func.attr == "relative_to"]
    if not subs and by_path:
        # the member path computed from the package root itself (Path.relative_to): nothing to exercise
        samples = ()
        subs = [by_path[0]]
        rx_, cnt_ = None, 0
    elif len(subs) != 1 or not isinstance(try_const(subs[0].args[0], default=None), str):
        raise AnalysisError("_read_objects_from_package: the call that strips the package prefix from a member path was not found")
    else:
        samples = (("/tmp/a/doc.numbers/Data/img-1.png", "Data/img-1.png"), ("doc.numbers/Index/Tables/Tile.iwa", "Index/Tables/Tile.iwa"),
                   ("/srv/old.numbers/new/doc.numbers/Data/img-1.png", "Data/img-1.png"), ("/srv/a.numbers/b.numbers/Index/Document.iwa", "Index/Document.iwa"))
        try:
            rx_ = _re.compile(try_const(subs[0].args[0]))
        except _re.error as e:
            raise AnalysisError(f"_read_objects_from_package: pattern does not compile ({e})") from e
        cnt_ = next((try_const(kw.value, default=0) for kw in subs[0].keywords if kw.arg == "count"), try_const(subs[0].args[3], default=0) if len(subs[0].args) > 3 else 0)
    for path_, want_ in samples:
        got_ = rx_.sub("", path_, count=cnt_ or 0)
        if got_ != want_:
            why_pk = why_pk or f"`{path_}` is stored as `{got_}` instead of `{want_}`"
    rep.ob("C15.R2", subs[0], "package members are stored under their path inside the package being read", not why_pk,
           why_pk + (": a background image of a document saved as a package below another *.numbers folder is registered under the wrong name and reads back as None" if why_pk else ""),
           key="C15.R2@package:member-path")

    rep.floor("C15.R1", 14)
    rep.floor("C15.R2", 50)
    rep.floor("C15.R3", 9)
    rep.floor("C15.R4", 14)
    rep.floor("C15.R5", 2)


def _anc(n):
    p = getattr(n, "_parent", None)
    while p is not None:
        yield p
        p = getattr(p, "_parent", None)


def check_patching(repo, rep, ads):
    """Interval algebra of add_stroke's patching branches: existing run [S, S+L), new stroke [o, o+l).
    After each partial-overlap branch the existing run (and the run it may append) must be exactly the part of
    [S, S+L) that the new stroke does not cover."""
    loops = [n for n in body_walk(ads) if isinstance(n, ast.For) and U(n.iter) == "stroke_layer.stroke_runs"]
    if not loops:
        raise AnalysisError("add_stroke: loop over stroke_runs not found")
    loop = loops[0]
    chain = next((n for n in loop.body if isinstance(n, ast.If)), None)
    defs = {}
    for n in loop.body:
        if isinstance(n, ast.Assign) and isinstance(n.targets[0], ast.Name):
            defs[n.targets[0].id] = n.value
    S, L, o, l = Lin(0, {"S": 1}), Lin(0, {"L": 1}), Lin(0, {"origin": 1}), Lin(0, {"length": 1})
    cur_mode = [False]

    def sym(e):
        """linear form of an expression over S, L, origin, length"""
        t = U(e)
        if t == "stroke_run.origin":
            return Lin(0, {"S_cur": 1}) if cur_mode[0] else S
        if t == "stroke_run.length":
            return Lin(0, {"L_cur": 1}) if cur_mode[0] else L
        if isinstance(e, ast.Name) and e.id in defs and e.id not in ("origin", "length"):
            # a local computed before the branch: a snapshot of the original run
            saved = cur_mode[0]
            cur_mode[0] = False
            try:
                return sym(defs[e.id])
            finally:
                cur_mode[0] = saved
        if isinstance(e, ast.BinOp) and isinstance(e.op, (ast.Add, ast.Sub)):
            a, b = sym(e.left), sym(e.right)
            if a is None or b is None:
                return None
            return a + b if isinstance(e.op, ast.Add) else a - b
        return lin(e)

    def cond_facts(test):
        """facts (over S, L, origin, length) when the branch condition holds"""
        out = []
        conds = test.values if isinstance(test, ast.BoolOp) and isinstance(test.op, ast.And) else [test]
        for c in conds:
            if isinstance(c, ast.Compare) and len(c.ops) == 1:
                a, b = sym(c.left), None
                op = c.ops[0]
                comp = c.comparators[0]
                if isinstance(op, ast.In):
                    r = comp
                    if isinstance(r, ast.Name) and r.id in defs:
                        r = defs[r.id]
                    if isinstance(r, ast.Call) and call_name(r) == "range" and len(r.args) == 2 and a is not None:
                        lo, hi = sym(r.args[0]), sym(r.args[1])
                        out += [a - lo, hi - a - Lin(1)]
                    continue
                b = sym(comp)
                if a is None or b is None:
                    continue
                if isinstance(op, ast.Eq):
                    out += [a - b, b - a]
                elif isinstance(op, ast.LtE):
                    out.append(b - a)
                elif isinstance(op, ast.Lt):
                    out.append(b - a - Lin(1))
                elif isinstance(op, ast.GtE):
                    out.append(a - b)
                elif isinstance(op, ast.Gt):
                    out.append(a - b - Lin(1))
        return out

    n_br = 0
    node = chain
    while node is not None:
        n_br += 1
        facts = Facts(cond_facts(node.test) + [L - Lin(1), l - Lin(1)])
        # symbolic effect of the branch on the existing run
        new_S, new_L = S, L
        appended = None
        replaced = False
        for st in node.body:
            if isinstance(st, ast.AugAssign) and isinstance(st.op, (ast.Add, ast.Sub)):
                # ``x.f -= e`` is ``x.f = x.f - e``
                ld = copy.deepcopy(st.target)
                ld.ctx = ast.Load()
                st = ast.copy_location(ast.Assign(targets=[st.target], value=ast.BinOp(left=ld, op=st.op, right=st.value)), st)
                ast.fix_missing_locations(st)
            if isinstance(st, ast.Assign):
                t = U(st.targets[0])
                if t == "stroke_run.origin":
                    new_S = sym_after(st.value, sym, new_S, new_L, cur_mode)
                elif t == "stroke_run.length":
                    new_L = sym_after(st.value, sym, new_S, new_L, cur_mode)
                elif t == "stroke_layer.stroke_runs[-1].origin":
                    appended = (sym_after(st.value, sym, new_S, new_L, cur_mode), appended[1] if appended else None)
                elif t == "stroke_layer.stroke_runs[-1].length":
                    appended = (appended[0] if appended else None, sym_after(st.value, sym, new_S, new_L, cur_mode))
            if isinstance(st, ast.Expr) and isinstance(st.value, ast.Call) and last_attr(st.value.func) == "CopyFrom" and "create_stroke" in U(st.value):
                replaced = True
        label = U(node.test)[:70]
        if replaced:
            # full cover: the condition must imply o <= S and o + l >= S + L
            ok = facts.entails(S - o) and facts.entails(o + l - S - L)
            rep.ob("C15.R4", node, f"patch `{label}`: replace only when the new stroke covers the whole run", ok,
                   "" if ok else "an only partly covered run is replaced entirely: the uncovered part of the older stroke disappears from the saved file", key=f"C15.R4@patch:{n_br}:cover")
        else:
            # remaining pieces: [new_S, new_S+new_L) and optional appended; together they must equal [S, S+L) minus [o, o+l)
            pieces = [(new_S, new_L)] + ([appended] if appended and appended[0] is not None and appended[1] is not None else [])
            okp = True
            why = ""
            if len(pieces) == 1:
                a, ln = pieces[0]
                left = facts.entails(a - S) and facts.entails(S - a) and facts.entails(a + ln - o) and facts.entails(o - a - ln)  # [S, o)
                right = facts.entails(a - o - l) and facts.entails(o + l - a) and facts.entails(a + ln - S - L) and facts.entails(S + L - a - ln)  # [o+l, S+L)
                # the condition must also say that nothing else of the run is uncovered
                if left:
                    okp = facts.entails(o + l - S - L)  # new stroke reaches the end of the run
                    why = "" if okp else "the run is cut to [start, origin) although the new stroke may end before the run does"
                elif right:
                    okp = facts.entails(S - o)
                    why = "" if okp else "the run is cut to [origin+length, end) although the new stroke may start after the run does"
                else:
                    okp = False
                    why = (f"after the branch the run is [{a}, +{ln}) (as `>= 0` forms), which is neither [start, origin) nor [origin+length, end) under the branch condition: "
                           "the part of the older stroke that is not overlapped is lost or duplicated in the saved layers")
            else:
                (a1, l1), (a2, l2) = pieces
                okp = facts.entails(a1 - S) and facts.entails(S - a1) and facts.entails(a1 + l1 - o) and facts.entails(o - a1 - l1) \
                    and facts.entails(a2 - o - l) and facts.entails(o + l - a2) and facts.entails(a2 + l2 - S - L) and facts.entails(S + L - a2 - l2)
                why = "" if okp else "the two remaining pieces are not [start, origin) and [origin+length, end)"
            rep.ob("C15.R4", node, f"patch `{label}`: the uncovered part of the existing run is preserved exactly", okp, why, key=f"C15.R4@patch:{n_br}:remainder")
        if len(node.orelse) == 1 and isinstance(node.orelse[0], ast.If):
            node = node.orelse[0]
        else:
            node = None
    rep.ob("C15.R4", loop, f"add_stroke distinguishes {n_br} overlap cases", n_br >= 4, "", key="C15.R4@patch:cases")


def sym_after(value, sym, cur_S, cur_L, cur_mode=None):
    """symbolic value of an assigned expression where stroke_run.origin/length denote the *current* (possibly updated) values
    and locals computed before the branch denote the original run"""
    if cur_mode is not None:
        cur_mode[0] = True
    try:
        v = sym(value)
    finally:
        if cur_mode is not None:
            cur_mode[0] = False
    if v is None:
        return None
    out = v
    if "S_cur" in out.t and cur_S is not None:
        out = out.subst("S_cur", cur_S)
    if "L_cur" in out.t and cur_L is not None:
        out = out.subst("L_cur", cur_L)
    return out


VARIANTS = [
    T("cell-for-stroke-chained-bounds", "model.py", '        if row < 0 or col < 0:\n            return None\n        if row >= len(data) or col >= len(data[row]):\n            return None\n', "        if not (0 <= row < len(data) and 0 <= col < len(data[row])):\n            return None\n"),
    M("cell-for-stroke-no-negative-check", "model.py", '        if row < 0 or col < 0:\n            return None\n        if row >= len(data) or col >= len(data[row]):\n            return None\n', "        if row >= len(data) or col >= len(data[row]):\n            return None\n", "C15.R3"),
    M("cell-for-stroke-off-by-one-bound", "model.py", '        if row < 0 or col < 0:\n            return None\n        if row >= len(data) or col >= len(data[row]):\n            return None\n', "        if not (0 <= row <= len(data) and 0 <= col < len(data[row])):\n            return None\n", "C15.R3"),
    M("revert-fix-fingerprint-glued-colour", "model.py", "                            str(cell.style.bg_color.r),\n                            str(cell.style.bg_color.g),\n                            str(cell.style.bg_color.b),\n                        )",
      "                            str(cell.style.bg_color.r)\n                            + str(cell.style.bg_color.g)\n                            + str(cell.style.bg_color.b),\n                        )", "C15.R2"),
    M("revert-fix-custom-style-name-last", "model.py", 'return "Custom Style " + str(max(custom_style_ids) + 1)', 'return "Custom Style " + str(custom_style_ids[-1] + 1)', "C15.R2"),
    M("custom-style-name-by-count", "model.py", 'return "Custom Style " + str(max(custom_style_ids) + 1)', 'return "Custom Style " + str(len(set(custom_styles)) + 1)', "C15.R2"),
    M("cell-style-skipped-for-plain-styles", "model.py", "                if cell._style is not None and cell._style._update_cell_style:\n",
      "                if cell._style is not None and cell._style._update_cell_style:\n                    if cell._style._cell_style_obj_id is None and cell._style.bg_color is None:\n                        continue\n", "C15.R2"),
    M("add-stroke-right-indexed-by-row", "model.py", "            layer_ids = sidecar_obj.right_column_stroke_layers\n            row_column_index = col\n            origin = row",
      "            layer_ids = sidecar_obj.right_column_stroke_layers\n            row_column_index = row\n            origin = col", "C15.R4"),
    M("add-stroke-bottom-in-top-layers", "model.py", "            layer_ids = sidecar_obj.bottom_row_stroke_layers", "            layer_ids = sidecar_obj.top_row_stroke_layers", "C15.R4"),
    T("add-stroke-augmented-length", "model.py", "                    stroke_run.origin = origin + length\n                    stroke_run.length = stroke_run.length - length",
      "                    stroke_run.origin = origin + length\n                    stroke_run.length -= length"),
    M("extract-vertical-axes-swapped", "model.py", "self.set_cell_border(table_id, row, start_column, side, border_value)", "self.set_cell_border(table_id, start_column, row, side, border_value)", "C15.R4"),
    M("extract-run-one-short", "model.py", "for col in range(start_column, start_column + stroke_run.length):", "for col in range(start_column, start_column + stroke_run.length - 1):", "C15.R4"),
    M("extract-left-treated-horizontal", "model.py", '                if side in ["top", "bottom"]:\n                    start_row = stroke_layer.row_column_index', '                if side in ["top", "bottom", "left"]:\n                    start_row = stroke_layer.row_column_index', "C15.R4"),
    M("border-memo-neighbour-kept", "model.py", "                self._row_heights[table_id].pop(row, None)\n                self._row_heights[table_id].pop(row - 1, None)",
      "                self._row_heights[table_id].pop(row, None)", "C15.R3"),
    M("border-memo-wrong-axis", "model.py", "                self._col_widths[table_id].pop(col, None)\n                self._col_widths[table_id].pop(col + 1, None)",
      "                self._row_heights[table_id].pop(col, None)\n                self._row_heights[table_id].pop(col + 1, None)", "C15.R3"),
    T("border-memo-del-form", "model.py", "                self._row_heights[table_id].pop(row, None)\n                self._row_heights[table_id].pop(row + 1, None)",
      "                for stale in (row, row + 1):\n                    self._row_heights[table_id].pop(stale, None)"),
    M("style-shared-by-id", "cell.py", "            self._style = Style.from_storage(self, self._model)\n", "            self._style = self._model._style_cache.setdefault((self._text_style_id, self._cell_style_id), Style.from_storage(self, self._model))\n", "C15.R2"),
    M("revert-fix-apply-then-stamp", "document.py", "        self._model.add_stroke(self._table_id, row, col, side, border_value, length)\n\n        if side in [\"top\", \"bottom\"]:",
      "        if side in [\"top\", \"bottom\"]:", "C15.R1",
      more=(("document.py", "                self._model.set_cell_border(self._table_id, border_row_num, col, side, border_value)\n\n    def set_cell_formatting",
             "                self._model.set_cell_border(self._table_id, border_row_num, col, side, border_value)\n        self._model.add_stroke(self._table_id, row, col, side, border_value, length)\n\n    def set_cell_formatting"),)),
    M("right-neighbour-wrong", "model.py", "self.cell_for_stroke(table_id, \"left\", row, col + 1)", "self.cell_for_stroke(table_id, \"left\", row, col - 1)", "C15.R3"),
    M("update-forgets-italic", "model.py", "        style_obj.char_properties.italic = style.italic\n", "", "C15.R2"),
    M("fingerprint-no-wrap", "model.py", "                        str(cell.style.text_wrap),\n", "", "C15.R2"),
    M("fingerprint-no-image", "model.py", "                    if cell._style.bg_image is not None:\n                        fingerprint += (cell._style.bg_image.filename,)\n", "", "C15.R2"),
    M("patch-end-ge", "model.py", "elif origin in stroke_range and (origin + length) == stroke_end:", "elif origin in stroke_range and (origin + length) >= stroke_end:", "C15.R4"),
    M("patch-start-origin", "model.py", "                    stroke_run.origin = origin + length\n                    stroke_run.length = stroke_run.length - length", "                    stroke_run.origin = origin + length\n                    stroke_run.length = stroke_run.length - length - 1", "C15.R4"),
    M("bottom-layers-swapped", "model.py", "            layer_ids = sidecar_obj.bottom_row_stroke_layers\n            row_column_index = row", "            layer_ids = sidecar_obj.bottom_row_stroke_layers\n            row_column_index = col", "C15.R4"),
    M("setter-lower-wins", "cell.py", "if self._right is None or value._order > self._right._order:", "if self._right is None or value._order < self._right._order:", "C15.R1"),
    M("order-not-incremented", "model.py", "        sidecar_obj.max_order += 1\n", "", "C15.R1"),
    M("bg-channels-swapped", "model.py", "                        \"g\": style.bg_color.g / 255,\n                        \"b\": style.bg_color.b / 255,\n                        \"a\": 1.0,\n                        \"rgbspace\": \"srgb\",\n                    },\n                },\n            }\n        else:",
      "                        \"g\": style.bg_color.b / 255,\n                        \"b\": style.bg_color.g / 255,\n                        \"a\": 1.0,\n                        \"rgbspace\": \"srgb\",\n                    },\n                },\n            }\n        else:", "C15.R2"),
    M("from-storage-swapped-indent", "cell.py", "            left_indent=model.cell_left_indent(cell),\n            right_indent=model.cell_right_indent(cell),", "            left_indent=model.cell_right_indent(cell),\n            right_indent=model.cell_left_indent(cell),", "C15.R2"),
    T("stamp-before-extract-twin-none", "document.py", "        # The stroke is given its order first so that it supersedes older strokes on the cells\n", ""),
]

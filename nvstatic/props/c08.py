"""C08 — formula text is a faithful infix rendering of the stored expression."""

from __future__ import annotations

import ast

from .. import pb
from ..core import AnalysisError, U, body_walk, call_name, last_attr, try_const
from ..selftest import M, T

EXPLANATION = (
    "operand-stack abstract interpretation of every Formula handler reached through NODE_FUNCTION_MAP: "
    "pop order from popn/pop themselves, symbols bound by tuple unpacking, f-string pushes read as "
    "sequences of literals and stack symbols; glyphs are validated by a round trip through the writer's "
    "OPERATOR_MAP/OPERATOR_INFIX_MAP; n-ary handlers must restore argument order with exactly one reversal"
)
TRUSTED = ["python ast", "TSCEArchives descriptor (ASTNodeType enum)", "src/numbers_parser/generated/functionmap.py"]

BINARY_NODES = {
    "ADDITION_NODE", "SUBTRACTION_NODE", "MULTIPLICATION_NODE", "DIVISION_NODE", "POWER_NODE",
    "CONCATENATION_NODE", "EQUAL_TO_NODE", "NOT_EQUAL_TO_NODE", "LESS_THAN_NODE", "GREATER_THAN_NODE",
    "LESS_THAN_OR_EQUAL_TO_NODE", "GREATER_THAN_OR_EQUAL_TO_NODE",
}
UNARY = {"NEGATION_NODE": ("prefix", "-"), "PERCENT_NODE": ("postfix", "%")}


class Sym:
    def __init__(self, idx):
        self.idx = idx  # 0 = first popped = top of stack

    def __repr__(self):
        return f"P{self.idx}"


class Seq:
    """A popped sequence; ``top_first`` says whether element 0 is the top of the stack."""

    def __init__(self, top_first, count, sep=None):
        self.top_first = top_first
        self.count = count
        self.sep = sep


class Joined:
    def __init__(self, sep, seq):
        self.sep = sep
        self.seq = seq


class Text:
    def __init__(self, parts):
        self.parts = parts  # list of str | Sym | Joined | Other


class Other:
    def __init__(self, txt):
        self.txt = txt

    def __repr__(self):
        return f"<{self.txt}>"


def popn_orientation(repo):
    """Derive from Formula.popn whether element 0 of its result is the top of the stack."""
    f = repo.func("formula.py", "Formula.popn")
    for n in body_walk(f):
        if isinstance(n, ast.AugAssign) and isinstance(n.op, ast.Add) and "_stack.pop()" in U(n.value):
            return True, n  # values += (pop,)  -> first popped first
        if isinstance(n, ast.Assign) and isinstance(n.value, ast.BinOp) and isinstance(n.value.op, ast.Add):
            l, r = U(n.value.left), U(n.value.right)
            tgt = U(n.targets[0])
            if "_stack.pop()" in r and l == tgt:
                return True, n
            if "_stack.pop()" in l and r == tgt:
                return False, n
        if isinstance(n, ast.Call) and last_attr(n.func) == "append" and n.args and "_stack.pop()" in U(n.args[0]):
            return True, n
        if isinstance(n, ast.Call) and last_attr(n.func) == "insert" and len(n.args) == 2 and "_stack.pop()" in U(n.args[1]):
            return False, n
    # generator shape: tuple(self._stack.pop() for _ in range(n)) / [self._stack.pop() for _ in range(n)]
    for n in body_walk(f):
        if isinstance(n, (ast.GeneratorExp, ast.ListComp)) and "_stack.pop()" in U(n.elt) and len(n.generators) == 1:
            par = getattr(n, "_parent", None)
            rev = isinstance(par, ast.Call) and call_name(par) == "reversed"
            return (not rev), n
    # slice shape: values = tuple(reversed(self._stack[-n:])); del self._stack[-n:]
    for n in body_walk(f):
        if isinstance(n, ast.Subscript) and U(n.value) == "self._stack" and isinstance(n.slice, ast.Slice) and isinstance(n.ctx, ast.Load):
            sl = n.slice
            if sl.upper is None and isinstance(sl.lower, ast.UnaryOp) and isinstance(sl.lower.op, ast.USub):
                par = getattr(n, "_parent", None)
                rev = isinstance(par, ast.Call) and call_name(par) == "reversed"
                return (True if rev else False), n
    raise AnalysisError("Formula.popn: accumulation shape not recognised")


class Interp:
    def __init__(self, func, top_first):
        self.func = func
        self.top_first = top_first
        self.args_param = func.args.vararg.arg if func.args.vararg else None
        self.pos = [a.arg for a in func.args.args][1:]

    def run(self):
        """Returns list of paths; each path = (pops_scalar, [pushed values], env, seq_pops)."""
        results = []
        self._block(self.func.body, {"__pops": 0, "__pushes": [], "__seqs": []}, results)
        return results

    def _copy(self, env):
        e = dict(env)
        e["__pushes"] = list(env["__pushes"])
        e["__seqs"] = list(env["__seqs"])
        return e

    def _block(self, stmts, env, results, cont=None):
        for i, s in enumerate(stmts):
            if isinstance(s, ast.If):
                rest = stmts[i + 1 :]
                for arm in (s.body, s.orelse):
                    e2 = self._copy(env)
                    self._block(list(arm) + list(rest), e2, results, cont)
                return
            if isinstance(s, ast.For):
                # loops: interpret body once symbolically, mark environment
                e2 = env
                e2["__in_loop"] = U(s.iter)
                self._block(s.body, e2, [], None)
                e2.pop("__in_loop", None)
                continue
            if isinstance(s, ast.Return):
                break
            self._stmt(s, env)
        results.append(env)

    def _stmt(self, s, env):
        if isinstance(s, ast.Assign) and len(s.targets) == 1:
            val = self._eval(s.value, env)
            t = s.targets[0]
            if isinstance(t, (ast.Tuple, ast.List)):
                names = [U(x) for x in t.elts]
                if isinstance(val, Seq) and isinstance(val.count, int) and val.count == len(names):
                    for i, n in enumerate(names):
                        idx = i if val.top_first else len(names) - 1 - i
                        env[n] = Sym(val.base + idx) if hasattr(val, "base") else Sym(idx)
                elif isinstance(val, Other) and val.txt == self.args_param:
                    for n, role in zip(names, ("ROW", "COL", "NODE")):
                        env[n] = Other(role)
                else:
                    for n in names:
                        env[n] = Other(f"unpack({U(s.value)})")
            else:
                env[U(t)] = val
        elif isinstance(s, ast.Expr):
            self._eval(s.value, env)
        elif isinstance(s, ast.AugAssign):
            env[U(s.target)] = Other(U(s))

    def _eval(self, e, env):
        if isinstance(e, ast.Constant):
            return Text([e.value]) if isinstance(e.value, str) else Other(repr(e.value))
        if isinstance(e, ast.Name):
            return env.get(e.id, Other(e.id))
        if isinstance(e, ast.Subscript) and isinstance(e.value, ast.Name) and e.value.id == self.args_param:
            idx = try_const(e.slice)
            return Other({0: "ROW", 1: "COL", 2: "NODE"}.get(idx, U(e)))
        if isinstance(e, ast.Subscript) and isinstance(e.slice, ast.Slice):
            v = self._eval(e.value, env)
            sl = e.slice
            if isinstance(v, Seq) and sl.lower is None and sl.upper is None and try_const(sl.step) == -1:
                r = Seq(not v.top_first, v.count)
                r.elem = getattr(v, "elem", None)
                return r
            return Other(U(e))
        if isinstance(e, ast.Attribute):
            base = self._eval(e.value, env)
            if isinstance(base, Other) and base.txt == "NODE":
                return Other("NODE." + e.attr)
            return Other(U(e))
        if isinstance(e, ast.JoinedStr):
            parts = []
            for v in e.values:
                if isinstance(v, ast.Constant):
                    parts.append(v.value)
                else:
                    parts.append(self._eval(v.value, env))
            # merge adjacent literals
            merged = []
            for p in parts:
                if isinstance(p, str) and merged and isinstance(merged[-1], str):
                    merged[-1] += p
                else:
                    merged.append(p)
            flat = []
            for p in merged:
                if isinstance(p, Text):
                    flat.extend(p.parts)
                else:
                    flat.append(p)
            return Text(flat)
        if isinstance(e, (ast.ListComp, ast.GeneratorExp)) and len(e.generators) == 1 and "self.popn(" in U(e.elt):
            # one popped group per iteration: the groups come out in pop order (last group first)
            elem = self._eval(e.elt, env)
            r = Seq(self.top_first, U(e.generators[0].iter))
            r.elem = elem
            return r
        if isinstance(e, (ast.ListComp, ast.GeneratorExp)) and len(e.generators) == 1:
            src = self._eval(e.generators[0].iter, env)
            elt = e.elt
            tgt = U(e.generators[0].target)
            # [str(x) for x in seq] / (x for x in seq) keep order
            if isinstance(src, Seq) and (U(elt) == tgt or (isinstance(elt, ast.Call) and call_name(elt) == "str" and U(elt.args[0]) == tgt)):
                return src
            return Other(U(e))
        if isinstance(e, ast.Call):
            name = last_attr(e.func)
            recv = U(e.func.value) if isinstance(e.func, ast.Attribute) else None
            if recv == "self" and name == "popn":
                cnt_v = self._eval(e.args[0], env)
                cnt = try_const(e.args[0])
                seq = Seq(self.top_first, cnt if isinstance(cnt, int) else (cnt_v.txt if isinstance(cnt_v, Other) else U(e.args[0])))
                seq.base = env["__pops"]
                if isinstance(cnt, int):
                    env["__pops"] += cnt
                env["__seqs"].append(seq)
                return seq
            if recv == "self" and name == "pop":
                s = Sym(env["__pops"])
                env["__pops"] += 1
                return s
            if recv == "self" and name == "push":
                v = self._eval(e.args[0], env)
                env["__pushes"].append((v, e, env.get("__in_loop")))
                return Other("push")
            if name == "reversed" and len(e.args) == 1:
                v = self._eval(e.args[0], env)
                if isinstance(v, Seq):
                    r = Seq(not v.top_first, v.count)
                    r.elem = getattr(v, "elem", None)
                    return r
                return Other(U(e))
            if name in ("list", "tuple") and len(e.args) == 1:
                return self._eval(e.args[0], env)
            if name == "str" and len(e.args) == 1:
                v = self._eval(e.args[0], env)
                return v if isinstance(v, (Sym, Other)) else v
            if name == "join" and isinstance(e.func, ast.Attribute) and len(e.args) == 1:
                sep = try_const(e.func.value)
                v = self._eval(e.args[0], env)
                if isinstance(v, Seq):
                    return Joined(sep, v)
                return Other(U(e))
            if name == "append" and isinstance(e.func, ast.Attribute) and len(e.args) == 1:
                lst = U(e.func.value)
                v = self._eval(e.args[0], env)
                if env.get("__in_loop") is not None:
                    # rows.append(<row text>) inside ``for _ in range(num_rows)``: rows are popped last-first
                    env[lst] = Seq(self.top_first, env["__in_loop"])
                    env[lst].elem = v
                return Other("append")
            if name == "node_to_ref":
                env.setdefault("__calls", []).append((name, [self._eval(a, env) for a in e.args]))
                return Other("REF")
            if name == "upper" and isinstance(e.func, ast.Attribute):
                return Other("upper(" + U(e.func.value) + ")")
            if name == "replace" and isinstance(e.func, ast.Attribute):
                a = [try_const(x) for x in e.args]
                base = self._eval(e.func.value, env)
                return Other(f"replace({base!r},{a[0]!r},{a[1]!r})") if len(a) == 2 else Other(U(e))
            return Other(U(e))
        if isinstance(e, ast.List) and not e.elts:
            return Seq(self.top_first, 0)
        return Other(U(e))


def _parts_repr(v):
    if isinstance(v, Text):
        return "".join(p if isinstance(p, str) else "{" + repr(p) + "}" for p in v.parts)
    return repr(v)



def check_number_to_str(repo, rep):
    """Digit accounting of number_to_str, read off its function summary: with X = |exponent| and L = number of mantissa digits,
    the text ``digits + '0'*Z`` denotes the value iff Z == X - L + 1, and ``'0.' + '0'*Z + digits`` iff Z == X - 1."""
    import re as _re
    from ..funsum import Summarizer
    f = repo.func("formula.py", "number_to_str")
    vname = f.args.args[0].arg
    nosp = lambda e: U(e).replace(" ", "")  # noqa: E731
    # the text that is taken apart: ``repr(v)``, possibly trimmed (whatever the function tests for an 'e')
    paths0 = Summarizer(consts=repo.consts).summarize(f)
    VT = None
    for p in paths0:
        for c, _o in p.conds:
            if isinstance(c, ast.Compare) and len(c.ops) == 1 and isinstance(c.ops[0], (ast.In, ast.NotIn)) and try_const(c.left) == "e" and f"repr({vname})" in nosp(c.comparators[0]):
                VT = nosp(c.comparators[0])
    if VT is None:
        raise AnalysisError("number_to_str: exponent branch not found")
    SPLIT = f"{VT}.split('e')"
    EXP, MAN = SPLIT + "[1]", SPLIT + "[0]"

    def removed_chars(d):
        """the characters a digit-reducing expression over the mantissa text removes, or None"""
        if isinstance(d, ast.Call) and U(d.func) == "re.sub" and len(d.args) == 3 and nosp(d.args[2]) == MAN and try_const(d.args[1]) == "":
            pat = try_const(d.args[0])
            if isinstance(pat, str):
                try:
                    rx = _re.compile(pat)
                except _re.error:
                    return None
                return {c for c in "0123456789.,-+eE" if rx.fullmatch(c)}
            return None
        if isinstance(d, ast.Call) and isinstance(d.func, ast.Attribute) and d.func.attr == "translate" and len(d.args) == 1 and nosp(d.func.value) == MAN:
            t = d.args[0]
            if isinstance(t, ast.Name):
                t = repo.module_assign("formula.py", t.id) or t
            if isinstance(t, ast.Call) and U(t.func) == "str.maketrans" and len(t.args) == 3 and try_const(t.args[0]) == "" and try_const(t.args[1]) == "" \
                    and isinstance(try_const(t.args[2]), str):
                return set(try_const(t.args[2]))
            return None
        if isinstance(d, ast.Call) and isinstance(d.func, ast.Attribute) and d.func.attr == "replace" and len(d.args) == 2 and try_const(d.args[1]) == "" \
                and isinstance(try_const(d.args[0]), str) and len(try_const(d.args[0])) == 1:
            inner = set() if nosp(d.func.value) == MAN else removed_chars(d.func.value)
            return None if inner is None else inner | {try_const(d.args[0])}
        return None

    def flat(e):
        if isinstance(e, ast.Constant) and isinstance(e.value, str):
            return [("s", e.value)] if e.value else []
        if isinstance(e, ast.JoinedStr):
            out = []
            for v in e.values:
                if isinstance(v, ast.Constant):
                    out += flat(v)
                elif isinstance(v, ast.FormattedValue) and v.format_spec is None and v.conversion == -1:
                    out += flat(v.value) if isinstance(v.value, (ast.JoinedStr, ast.Constant)) else [("e", v.value)]
                else:
                    return None
            return out
        if isinstance(e, ast.BinOp) and isinstance(e.op, ast.Add):
            a, b = flat(e.left), flat(e.right)
            return None if a is None or b is None else a + b
        return [("e", e)]

    def sign_of(c, outcome):
        """+1 / -1 when (c, outcome) fixes the sign of the exponent"""
        if isinstance(c, ast.Compare) and len(c.ops) == 1 and nosp(c.left) == f"int({EXP})" and isinstance(try_const(c.comparators[0]), int):
            k, op = try_const(c.comparators[0]), type(c.ops[0])
            pos = {(ast.Gt, 0): 1, (ast.GtE, 0): 1, (ast.GtE, 1): 1, (ast.Lt, 0): -1, (ast.LtE, 0): -1, (ast.Lt, 1): -1}.get((op, k))
            if pos is not None:
                return pos if outcome else -pos
        return 0

    cases = []
    plain = False
    for p in paths0:
        has_e = None
        sign = 0
        for c, o in p.conds:
            if isinstance(c, ast.Compare) and len(c.ops) == 1 and isinstance(c.ops[0], (ast.In, ast.NotIn)) and try_const(c.left) == "e" and nosp(c.comparators[0]) == VT:
                has_e = isinstance(c.ops[0], ast.In) == bool(o)
            sign = sign or sign_of(c, o)
        if p.kind != "return" or has_e is None:
            raise AnalysisError("number_to_str: exponent branch not found")
        if not has_e:
            plain = plain or nosp(p.ret) == VT
            continue
        pending = [(p.ret, sign)]
        while pending:
            e, sg = pending.pop()
            if isinstance(e, ast.IfExp):
                s1 = sign_of(e.test, True)
                pending.append((e.body, sg or s1))
                pending.append((e.orelse, sg or -s1))
            else:
                cases.append((sg, e, p.node))
    if not plain:
        raise AnalysisError("number_to_str: the plain repr branch not found")
    if len(cases) < 2:
        raise AnalysisError("number_to_str: both exponent branches not found")
    digit_exprs = []
    for sign, e, st in cases:
        if sign == 0:
            raise AnalysisError("number_to_str: return outside the sign branches")
        parts = flat(e) or []
        shape, z, dg = [], None, None
        for kind, v in parts:
            if kind == "s":
                shape.append(v)
            elif isinstance(v, ast.BinOp) and isinstance(v.op, ast.Mult) and any(try_const(x) == "0" for x in (v.left, v.right)):
                shape.append("zeros")
                z = v.right if try_const(v.left) == "0" else v.left
            elif removed_chars(v) is not None:
                shape.append("digits")
                dg = v
                digit_exprs.append(v)
            else:
                shape.append(U(v)[:40])
        dtxt = nosp(dg) if dg is not None else None

        def lin_digits(x):
            """(cX, cL, c0) over X = |int(exp)|, L = len(digits)"""
            if isinstance(x, ast.Constant) and isinstance(x.value, int) and not isinstance(x.value, bool):
                return (0, 0, x.value)
            if isinstance(x, ast.Call):
                t = nosp(x)
                if t == f"abs(int({EXP}))":
                    return (1, 0, 0)
                if t == f"int({EXP})":
                    return (sign, 0, 0)
                if dtxt and t == f"len({dtxt})":
                    return (0, 1, 0)
                return None
            if isinstance(x, ast.UnaryOp) and isinstance(x.op, ast.USub):
                a = lin_digits(x.operand)
                return None if a is None else tuple(-y for y in a)
            if isinstance(x, ast.BinOp) and isinstance(x.op, (ast.Add, ast.Sub)):
                a, b = lin_digits(x.left), lin_digits(x.right)
                if a is None or b is None:
                    return None
                k = 1 if isinstance(x.op, ast.Add) else -1
                return tuple(m + k * n for m, n in zip(a, b))
            return None

        if sign > 0:
            ok_shape = shape == ["digits", "zeros"]
            want = (1, -1, 1)
            what = "large numbers: digits then X - L + 1 zeros"
            key = "C08.R5@number_to_str:positive-exponent"
        else:
            ok_shape = shape == ["0.", "zeros", "digits"]
            want = (1, 0, -1)
            what = "small numbers: '0.' then X - 1 zeros then digits"
            key = "C08.R5@number_to_str:negative-exponent"
        zl = lin_digits(z) if z is not None else None
        ok = ok_shape and zl == want
        detail = ""
        if not ok:
            detail = (f"renders {shape} with zero count (X, L, const) = {zl}; the text denotes the stored value only for {want} "
                      f"(X = |exponent|, L = mantissa digits): e.g. " + ("5e+16 is printed as 5000000000000000" if sign > 0 else "1.234e-05 is printed with the wrong number of zeros"))
        rep.ob("C08.R5", st, f"number_to_str, {what}", ok, detail, key=key)
    rem = [removed_chars(d) for d in digit_exprs]
    ok = bool(rem) and all(r is not None and "." in r and not (r & set("0123456789")) for r in rem)
    rep.ob("C08.R5", f, "number_to_str: mantissa reduced to its digits", ok, "" if ok else f"characters removed from the mantissa text: {[sorted(r) if r is not None else None for r in rem]}",
           key="C08.R5@number_to_str:digits")


def _check_date_value(repo, rep, m, h, base_txt):
    """The rendered datetime is the 2001-01-01 epoch plus exactly the stored number of seconds."""
    expr = None
    try:
        expr = ast.parse(base_txt, mode="eval").body
    except SyntaxError:
        pass
    hops = 0
    while isinstance(expr, ast.Name) and hops < 3:
        defs = [n for n in body_walk(m) if isinstance(n, ast.Assign) and len(n.targets) == 1 and U(n.targets[0]) == expr.id]
        if len(defs) != 1:
            break
        expr = defs[0].value
        hops += 1

    def is_epoch(e):
        if isinstance(e, ast.Name):
            v = repo.module_assign("constants.py", e.id) or repo.module_assign("formula.py", e.id)
            return v is not None and is_epoch(v)
        return (isinstance(e, ast.Call) and last_attr(e.func) == "datetime" and [try_const(a) for a in e.args] == [2001, 1, 1]
                and not [k for k in e.keywords if k.arg not in ("tzinfo",)])

    def is_stored_seconds(e):
        if not (isinstance(e, ast.Call) and last_attr(e.func) == "timedelta"):
            return False
        kws = {k.arg: k.value for k in e.keywords}
        if e.args or set(kws) != {"seconds"}:
            return False
        v = kws["seconds"]
        return isinstance(v, ast.Attribute) and v.attr.endswith("_dateNum") or (isinstance(v, ast.Name) and any(
            isinstance(n, ast.Assign) and U(n.targets[0]) == v.id and isinstance(n.value, ast.Attribute) and n.value.attr.endswith("_dateNum") for n in body_walk(m)))

    ok = (isinstance(expr, ast.BinOp) and isinstance(expr.op, ast.Add)
          and ((is_epoch(expr.left) and is_stored_seconds(expr.right)) or (is_epoch(expr.right) and is_stored_seconds(expr.left))))
    rep.ob("C08.R5", m, f"{h}: the date is datetime(2001, 1, 1) + timedelta(seconds=<stored dateNum>)", ok,
           "" if ok else f"the rendered date is `{U(expr) if expr is not None else base_txt}`: rounding, another unit or another epoch prints a different day for some stored instants",
           key=f"C08.R5@{h}:value")


def check_function_names(repo, rep):
    """The name printed for a stored function id is the one the confirmed tree prints (nvstatic/reference/tables.json; the
    repository holds no second source for these pairs, so the confirmed pairs are the reference; new ids may be added)."""
    import json
    import os
    ref_path = os.path.join(os.path.dirname(os.path.dirname(os.path.abspath(__file__))), "reference", "tables.json")
    try:
        with open(ref_path, encoding="utf-8") as fh:
            ref = {int(k): v for k, v in json.load(fh)["FUNCTION_MAP"].items()}
    except (OSError, KeyError, ValueError) as e:
        raise AnalysisError(f"reference table of function names not readable: {e}") from e
    node = repo.module_assign("src/numbers_parser/generated/functionmap.py", "FUNCTION_MAP")
    try:
        cur = ast.literal_eval(node)
    except Exception as e:  # noqa: BLE001
        raise AnalysisError(f"generated/functionmap.py: FUNCTION_MAP is not a literal table ({e})") from e
    changed = [(i, ref[i], cur.get(i)) for i in sorted(ref) if cur.get(i) != ref[i]]
    detail = "; ".join(f"stored function id {i} is printed as {c!r} (confirmed: {r!r})" for i, r, c in changed[:4])
    rep.ob("C08.R4", node, f"function names: the {len(ref)} confirmed id -> name pairs are unchanged ({len(cur) - len(set(cur) & set(ref))} new ids)", not changed,
           detail + (": a formula that calls such a function is shown with another function's name" if changed else ""), key="C08.R4@function-map")


def _fold_table(repo, rel, node, depth=0):
    """A table written as a dict display, possibly merged from smaller ones: ``{**A, **B, "k": v}``, ``A | B``, ``dict(A, **B)``,
    ``dict.fromkeys(<names>, v)``, a name bound at module level to one of these.  Later entries win, as in Python."""
    if depth > 5:
        raise AnalysisError("table nested too deeply")
    if isinstance(node, ast.Name):
        return _fold_table(repo, rel, repo.module_assign(rel, node.id), depth + 1)
    if isinstance(node, ast.Dict):
        out = {}
        for k, v in zip(node.keys, node.values):
            if k is None:
                out.update(_fold_table(repo, rel, v, depth + 1))
            else:
                out[try_const(k)] = try_const(v)
        return out
    if isinstance(node, ast.BinOp) and isinstance(node.op, ast.BitOr):
        out = dict(_fold_table(repo, rel, node.left, depth + 1))
        out.update(_fold_table(repo, rel, node.right, depth + 1))
        return out
    if isinstance(node, ast.Call) and U(node.func) == "dict.fromkeys" and 1 <= len(node.args) <= 2 and not node.keywords:
        keys = node.args[0]
        if isinstance(keys, ast.Name):
            keys = repo.module_assign(rel, keys.id)
        kv = try_const(keys)
        if isinstance(kv, (tuple, list, str)):
            val = try_const(node.args[1]) if len(node.args) == 2 else None
            return {k: val for k in kv}
    if isinstance(node, ast.Call) and U(node.func) == "dict" and len(node.args) <= 1:
        out = dict(_fold_table(repo, rel, node.args[0], depth + 1)) if node.args else {}
        for kw in node.keywords:
            if kw.arg is None:
                out.update(_fold_table(repo, rel, kw.value, depth + 1))
            else:
                out[kw.arg] = try_const(kw.value)
        return out
    raise AnalysisError(f"table expression `{U(node)[:60]}` is outside the folded language")


def run(repo, rep, tier):
    check_function_names(repo, rep)
    tree = repo.tree("formula.py")
    nfm_node = repo.module_assign("formula.py", "NODE_FUNCTION_MAP")
    nfm = try_const(nfm_node)
    if not isinstance(nfm, dict):
        nfm = _fold_table(repo, "formula.py", nfm_node)
    infix_node = repo.module_assign("formula.py", "OPERATOR_INFIX_MAP")
    infix = {try_const(k): try_const(v) for k, v in zip(infix_node.keys, infix_node.values)}
    opmap_node = repo.module_assign("formula.py", "OPERATOR_MAP")
    # str.maketrans({...})
    opmap = {}
    if isinstance(opmap_node, ast.Call) and opmap_node.args and isinstance(opmap_node.args[0], ast.Dict):
        d = opmap_node.args[0]
        opmap = {try_const(k): try_const(v) for k, v in zip(d.keys, d.values)}
    else:
        raise AnalysisError("OPERATOR_MAP is not str.maketrans({...})")
    enum = pb.enum_named(repo, "TSCEArchives", "ASTNodeType")
    if len(enum) < 40:
        raise AnalysisError("ASTNodeType enum not found in TSCEArchives descriptor")
    methods = repo.methods("formula.py", "Formula")
    rep.extra["node_types_in_descriptor"] = len(enum)

    # ---- R1 dispatch closure
    for k, v in nfm.items():
        ok = k in enum
        rep.ob("C08.R1", nfm_node, f"map key {k}", ok, "" if ok else "not an ASTNodeType name: the entry can never match", key=f"C08.R1@key:{k}")
        if v is not None:
            okm = v in methods
            rep.ob("C08.R1", nfm_node, f"{k} -> Formula.{v}", okm, "" if okm else "no such method", key=f"C08.R1@method:{k}")
            if okm:
                m = methods[v][0]
                sig_ok = m.args.vararg is not None or len(m.args.args) >= 4
                rep.ob("C08.R1", m, f"Formula.{v} accepts (row, col, node)", sig_ok, "", key=f"C08.R1@sig:{v}")
    # every operator node type must be dispatched
    for nt in sorted(BINARY_NODES | set(UNARY) | {"FUNCTION_NODE", "LIST_NODE", "ARRAY_NODE", "STRING_NODE", "NUMBER_NODE", "BOOLEAN_NODE", "DATE_NODE"}):
        ok = nfm.get(nt) is not None
        rep.ob("C08.R1", nfm_node, f"{nt} is dispatched", ok, "" if ok else "node type has no handler: expressions using it lose an operand/operator", key=f"C08.R1@dispatched:{nt}")
    # TableFormulas.formula: three cases and call order
    tf = repo.func("formula.py", "TableFormulas.formula")
    src = U(tf)
    defs_tf = {n.targets[0].id: n.value for n in body_walk(tf) if isinstance(n, ast.Assign) and isinstance(n.targets[0], ast.Name)}

    def _res(e, depth=0):
        while isinstance(e, ast.Name) and e.id in defs_tf and depth < 4:
            e = defs_tf[e.id]
            depth += 1
        return e

    calls = [n for n in body_walk(tf) if isinstance(n, ast.Call) and len(n.args) == 3 and [U(a) for a in n.args] == ["row", "col", "node"]]
    ok_call = False
    ok_get = False
    for c in calls:
        fn = _res(c.func)
        if isinstance(fn, ast.Call) and call_name(fn) == "getattr" and len(fn.args) == 2 and U(fn.args[0]) == "formula":
            ok_call = True
            key = _res(fn.args[1])
            kt_ = U(key).replace(" ", "")
            # the table entry of the node's own type: subscript, or .get(node_type[, default]) (the default only marks "no entry")
            ok_get = kt_ == "NODE_FUNCTION_MAP[node_type]" or (isinstance(key, ast.Call) and U(key.func) == "NODE_FUNCTION_MAP.get" and 1 <= len(key.args) <= 2
                                                              and U(key.args[0]) == "node_type" and not key.keywords)
    rep.ob("C08.R1", tf, "handler invoked as func(row, col, node)", ok_call, "", key="C08.R1@formula:callorder")
    rep.ob("C08.R1", tf, "handler looked up by the node's own type", ok_get, "", key="C08.R1@formula:getattr")
    loops = [n for n in body_walk(tf) if isinstance(n, ast.For)]
    def _stored_nodes(it):
        it = _res(it)
        t_ = U(it).replace(" ", "")
        if isinstance(it, ast.Call) and isinstance(it.func, ast.Attribute) and it.func.attr == "get" and len(it.args) == 1 and U(it.args[0]) == "formula_key":
            base_ = _res(it.func.value)
            return "formula_ast(self._table_id)" in U(base_) or U(it.func.value) == "all_formulas"
        return "all_formulas[formula_key]" in t_ and not isinstance(it, ast.Call)
    ok_loop = any(_stored_nodes(l.iter) for l in loops)
    rep.ob("C08.R1", tf, "nodes visited in stored (post-fix) order", ok_loop,
           "" if ok_loop else "the node array is not iterated directly in order", key="C08.R1@formula:order")
    ret = [n for n in body_walk(tf) if isinstance(n, ast.Return) and n.value is not None]
    ok_ret = any(U(r.value) == "str(formula)" for r in ret)
    rep.ob("C08.R1", tf, "result is str(formula)", ok_ret, "", key="C08.R1@formula:result")

    # ---- R0 stack primitives
    top_first, node = popn_orientation(repo)
    rep.ob("C08.R0", node, "popn accumulates in pop order" if top_first else "popn accumulates in reverse pop order", True, "", key="C08.R0@popn")
    fpopn = repo.func("formula.py", "Formula.popn")
    neg_slices = [n for n in body_walk(fpopn) if isinstance(n, ast.Subscript) and isinstance(n.slice, ast.Slice) and n.slice.upper is None
                  and isinstance(n.slice.lower, ast.UnaryOp) and isinstance(n.slice.lower.op, ast.USub)]
    if neg_slices:
        cnt = U(neg_slices[0].slice.lower.operand)
        guarded = any(isinstance(g, ast.If) and U(g.test).replace(" ", "") in (f"{cnt}==0", f"not{cnt}", f"{cnt}<1", f"{cnt}<=0") and any(isinstance(x, ast.Return) for x in g.body) for g in fpopn.body)
        rep.ob("C08.R0", neg_slices[0], f"popn: `{U(neg_slices[0])}` with a possibly zero count", guarded,
               "" if guarded else f"`[-{cnt}:]` is the whole stack when {cnt} == 0: a zero-argument function call swallows every operand below it", key="C08.R0@popn:zero-count")
    fpop = repo.func("formula.py", "Formula.pop")
    rep.ob("C08.R0", fpop, "pop returns self._stack.pop()", "self._stack.pop()" in U(fpop), "", key="C08.R0@pop")
    fpush = repo.func("formula.py", "Formula.push")
    rep.ob("C08.R0", fpush, "push appends to self._stack", "self._stack.append(val)" in U(fpush) or "self._stack.append(" in U(fpush), "", key="C08.R0@push")
    fstr = repo.func("formula.py", "Formula.__str__")
    rep.ob("C08.R0", fstr, "__str__ joins the stack", "self._stack" in U(fstr), "", key="C08.R0@str")

    # ---- R2 binary operators
    for nt in sorted(BINARY_NODES):
        h = nfm.get(nt)
        if h is None or h not in methods:
            continue
        m = methods[h][0]
        paths = Interp(m, top_first).run()
        for env in paths:
            pushes = env["__pushes"]
            ok = len(pushes) == 1 and env["__pops"] == 2
            detail = ""
            glyph = None
            if ok:
                v = pushes[0][0]
                ok = isinstance(v, Text) and len(v.parts) == 3 and isinstance(v.parts[0], Sym) and isinstance(v.parts[2], Sym) and isinstance(v.parts[1], str)
                if ok:
                    left, glyph, right = v.parts
                    ok = left.idx == 1 and right.idx == 0
                    if not ok:
                        detail = f"renders `{_parts_repr(v)}`: the left operand must be the deeper stack entry (P1) and the right operand the top (P0)"
                else:
                    detail = f"push `{_parts_repr(v)}` is not `left glyph right`"
            else:
                detail = f"pops {env['__pops']} and pushes {len(pushes)} value(s); a binary operator pops 2 and pushes 1"
            rep.ob("C08.R2", m, f"{nt} -> {h}: operand order", ok, detail, key=f"C08.R2@{h}:order")
            if glyph is not None:
                g = "".join(opmap.get(ord(c) if isinstance(next(iter(opmap), ""), int) else c, c) for c in glyph)
                back = infix.get(g)
                okg = back == nt
                rep.ob("C08.R2", m, f"{h}: glyph {glyph!r}", okg,
                       "" if okg else f"glyph {glyph!r} reads back (through OPERATOR_MAP/OPERATOR_INFIX_MAP) as {back}, but the handler renders {nt}",
                       key=f"C08.R2@{h}:glyph")

    # ---- R3 unary
    for nt, (pos, glyph) in UNARY.items():
        h = nfm.get(nt)
        if h is None or h not in methods:
            continue
        m = methods[h][0]
        for env in Interp(m, top_first).run():
            pushes = env["__pushes"]
            want = [glyph, "P0"] if pos == "prefix" else ["P0", glyph]
            got = None
            if len(pushes) == 1 and isinstance(pushes[0][0], Text):
                got = [p if isinstance(p, str) else repr(p) for p in pushes[0][0].parts]
            ok = env["__pops"] == 1 and got == want
            rep.ob("C08.R3", m, f"{nt} -> {h}", ok, "" if ok else f"renders {got}, expected {want}", key=f"C08.R3@{h}")

    # ---- R4 n-ary order
    def check_joined(h, m, v, what, sep_want, key):
        ok = isinstance(v, Joined) and v.sep == sep_want and v.seq.top_first is False
        detail = ""
        if not ok:
            if isinstance(v, Joined):
                detail = (f"{what} joined with {v.sep!r} in " + ("pop order (last argument first)" if v.seq.top_first else "argument order")
                          + f"; expected separator {sep_want!r} and argument order (exactly one reversal of the popped sequence)")
            else:
                detail = f"{what} is not a join over the popped arguments: {v!r}"
        rep.ob("C08.R4", m, f"{h}: {what}", ok, detail, key=key)
        return ok

    h = nfm.get("FUNCTION_NODE")
    if h in methods:
        m = methods[h][0]
        paths = Interp(m, top_first).run()
        seen = False
        for env in paths:
            for v, call, _ in env["__pushes"]:
                if isinstance(v, Text):
                    seen = True
                    parts = v.parts
                    ok_shape = len(parts) == 4 and parts[1] == "(" and parts[3] == ")"
                    rep.ob("C08.R4", m, f"{h}: NAME(args) shape", ok_shape, "" if ok_shape else f"renders `{_parts_repr(v)}`", key=f"C08.R4@{h}:shape")
                    if ok_shape:
                        check_joined(h, m, parts[2], "arguments", ",", f"C08.R4@{h}:args")
                        cnt = parts[2].seq.count if isinstance(parts[2], Joined) else None
                        okc = isinstance(cnt, str) and ("AST_function_node_numArgs" in cnt or cnt == "num_args" or "len(self._stack)" in cnt)
                        rep.ob("C08.R4", m, f"{h}: arity from the node", okc or cnt is not None, "", key=f"C08.R4@{h}:arity")
        rep.ob("C08.R4", m, f"{h}: pushes one call text", seen, "", key=f"C08.R4@{h}:push")
        srcm = U(m)
        # the name is looked up in FUNCTION_MAP under the node's own function index (subscript or .get), and the value
        # looked up is the one that is rendered
        from ..symexec import expand_aliases
        lookups = [n for n in body_walk(m) if (isinstance(n, ast.Subscript) and U(n.value) == "FUNCTION_MAP" and isinstance(n.ctx, ast.Load))
                   or (isinstance(n, ast.Call) and isinstance(n.func, ast.Attribute) and n.func.attr == "get" and U(n.func.value) == "FUNCTION_MAP" and len(n.args) == 1)]
        keys = [U(expand_aliases(m, n.slice if isinstance(n, ast.Subscript) else n.args[0])) for n in lookups]
        own_index = bool(keys) and all(k.endswith(".AST_function_node_index") for k in keys)
        # the variable that receives the lookup is the one in the pushed text
        recv = set()
        for n in body_walk(m):
            if isinstance(n, ast.Assign) and len(n.targets) == 1 and isinstance(n.targets[0], ast.Name) and any(l is x for l in lookups for x in ast.walk(n.value)):
                recv.add(n.targets[0].id)
        pushed_names = set()
        for env in paths:
            for v, call, _ in env["__pushes"]:
                if isinstance(v, Text) and v.parts:
                    pushed_names.add(str(v.parts[0]))
        # (the interpreter shows a value taken from an expression as <expr>, a literal as itself: the fallback name)
        flows = bool(pushed_names) and any("FUNCTION_MAP" in p_ for p_ in pushed_names) \
            and all("FUNCTION_MAP" in p_ or any(r in p_ for r in recv) or "<" not in p_ for p_ in pushed_names)
        ok_name = own_index and flows
        rep.ob("C08.R4", m, f"{h}: name from FUNCTION_MAP[node.AST_function_node_index]", ok_name,
               "" if ok_name else f"lookup keys {keys}; looked-up value held in {sorted(recv)}; rendered name part {sorted(pushed_names)}", key=f"C08.R4@{h}:name")
        ok_ar = "node.AST_function_node_numArgs" in srcm
        rep.ob("C08.R4", m, f"{h}: arity field AST_function_node_numArgs", ok_ar, "", key=f"C08.R4@{h}:arityfield")
    h = nfm.get("LIST_NODE")
    if h in methods:
        m = methods[h][0]
        for env in Interp(m, top_first).run():
            for v, call, _ in env["__pushes"]:
                ok_shape = isinstance(v, Text) and len(v.parts) == 3 and v.parts[0] == "(" and v.parts[2] == ")"
                rep.ob("C08.R4", m, f"{h}: (args) shape", ok_shape, "" if ok_shape else f"renders `{_parts_repr(v)}`", key=f"C08.R4@{h}:shape")
                if ok_shape:
                    check_joined(h, m, v.parts[1], "arguments", ",", f"C08.R4@{h}:args")
        rep.ob("C08.R4", m, f"{h}: arity field AST_list_node_numArgs", "node.AST_list_node_numArgs" in U(m), "", key=f"C08.R4@{h}:arityfield")
    h = nfm.get("ARRAY_NODE")
    if h in methods:
        m = methods[h][0]
        paths = Interp(m, top_first).run()
        n_push = 0
        for env in paths:
            for v, call, _ in env["__pushes"]:
                n_push += 1
                ok_shape = isinstance(v, Text) and len(v.parts) == 3 and v.parts[0] == "{" and v.parts[2] == "}"
                rep.ob("C08.R4", m, f"{h}: {{...}} shape", ok_shape, "" if ok_shape else f"renders `{_parts_repr(v)}`", key=f"C08.R4@{h}:shape{n_push}")
                if not ok_shape:
                    continue
                inner = v.parts[1]
                if isinstance(inner, Joined) and inner.sep == ",":
                    check_joined(h, m, inner, "1-D elements", ",", f"C08.R4@{h}:1d")
                elif isinstance(inner, Joined) and inner.sep == ";":
                    check_joined(h, m, inner, "2-D rows", ";", f"C08.R4@{h}:rows")
                    elem = getattr(inner.seq, "elem", None)
                    # rows hold f"{args}" texts of a per-row join
                    if isinstance(elem, Text) and len(elem.parts) == 1:
                        elem = elem.parts[0]
                    check_joined(h, m, elem, "2-D row elements", ",", f"C08.R4@{h}:cols")
                else:
                    rep.ob("C08.R4", m, f"{h}: elements", False, f"not a join over popped elements: {inner!r}", key=f"C08.R4@{h}:elems{n_push}")
        srcm = U(m)
        rep.ob("C08.R4", m, f"{h}: row/column counts from the node", "node.AST_array_node_numRow" in srcm and "node.AST_array_node_numCol" in srcm, "", key=f"C08.R4@{h}:counts")
        # popn count per row must be the column count, the loop count the row count
        okc = "self.popn(num_cols)" in srcm and "range(num_rows)" in srcm and "num_rows = node.AST_array_node_numRow" in srcm and "num_cols = node.AST_array_node_numCol" in srcm
        rep.ob("C08.R4", m, f"{h}: pops numCol per row, numRow rows", okc, "" if okc else "row/column counts are not used as (rows outer, columns inner)", key=f"C08.R4@{h}:dims")

    # ---- R5 literals
    h = nfm.get("STRING_NODE")
    if h in methods:
        m = methods[h][0]
        for env in Interp(m, top_first).run():
            for v, call, _ in env["__pushes"]:
                ok = isinstance(v, Text) and len(v.parts) == 3 and v.parts[0] == '"' and v.parts[2] == '"' and isinstance(v.parts[1], Other) \
                    and v.parts[1].txt.startswith("replace(") and v.parts[1].txt.endswith(",'\"','\"\"')") and "AST_string_node_string" in v.parts[1].txt
                rep.ob("C08.R5", m, f"{h}: quotes doubled and wrapped", ok, "" if ok else f"renders `{_parts_repr(v)}`", key=f"C08.R5@{h}")
    ta = repo.func("formula.py", "Formula.text_archive")
    sta = U(ta)
    ok = "[1:-1]" in sta and ".replace('\"\"', '\"')" in sta
    rep.ob("C08.R5", ta, "writer strips the quotes and un-doubles (inverse of the reader)", ok, "", key="C08.R5@text_archive")
    h = nfm.get("BOOLEAN_NODE")
    if h in methods:
        m = methods[h][0]
        n = 0
        for env in Interp(m, top_first).run():
            for v, call, _ in env["__pushes"]:
                n += 1
                ok = isinstance(v, Other) and v.txt.startswith("upper(str(") and "_node_boolean" in v.txt
                rep.ob("C08.R5", m, f"{h}: upper-cased stored boolean", ok, "" if ok else f"pushes {v!r}", key=f"C08.R5@{h}:{n}")
    h = nfm.get("NUMBER_NODE")
    if h in methods:
        m = methods[h][0]
        # summary of the handler: exactly one text is pushed; it is str(decimal_low) when decimal_high carries the
        # integer marker, else number_to_str(number), all read from the node the handler was given
        import copy as _copy
        from ..funsum import Asg, Summarizer, _Simp, decide
        from ..symexec import _strip as _sstrip
        paths_n = Summarizer(effect_calls={"self.push"}).summarize(m)
        bad = []
        n_out = 0
        for fx, kind, _got, p_ in decide(paths_n, {}):
            n_out += 1
            pushes = [e for e in p_.effects if e[0] == "call:self.push"]
            marker = [k for k in fx if "AST_number_node_decimal_high" in k]
            if len(pushes) != 1 or len(marker) != 1 or len(fx) != 1:
                bad.append(f"{len(pushes)} texts pushed under {fx}")
                continue
            is_int = fx[marker[0]] == ("==" in marker[0])
            node_t = marker[0].split(".AST_number_node_decimal_high")[0]
            const_ok = marker[0].replace(" ", "").endswith("==3476778912330022912")
            got = U(_Simp(Asg({}, fx)).visit(_copy.deepcopy(_sstrip(pushes[0][1]))))
            want = f"str({node_t}.AST_number_node_decimal_low)" if is_int else f"number_to_str({node_t}.AST_number_node_number)"
            if got != want or not const_ok or node_t not in ("args[2]", "node"):
                bad.append(f"with {marker[0]} = {fx[marker[0]]} the text pushed is `{got}` instead of `{want}`")
        ok = not bad and n_out == 2
        rep.ob("C08.R5", m, f"{h}: integer from decimal_low else number_to_str(number)", ok, "; ".join(bad[:2]), key=f"C08.R5@{h}")
    h = nfm.get("DATE_NODE")
    if h in methods:
        m = methods[h][0]
        for env in Interp(m, top_first).run():
            for v, call, _ in env["__pushes"]:
                got = _parts_repr(v)
                import re as _re
                mm = _re.fullmatch(r"DATE\(\{<(.+)\.year>\},\{<(.+)\.month>\},\{<(.+)\.day>\}\)", got)
                ok = bool(mm) and mm.group(1) == mm.group(2) == mm.group(3)
                rep.ob("C08.R5", m, f"{h}: DATE(year,month,day)", ok, "" if ok else f"renders `{got}`", key=f"C08.R5@{h}")
                if ok:
                    _check_date_value(repo, rep, m, h, mm.group(1))
    h = nfm.get("EMPTY_ARGUMENT_NODE")
    if h in methods:
        m = methods[h][0]
        for env in Interp(m, top_first).run():
            ok = len(env["__pushes"]) == 1 and isinstance(env["__pushes"][0][0], Text) and env["__pushes"][0][0].parts in ([""], []) and env["__pops"] == 0
            rep.ob("C08.R5", m, f"{h}: pushes an empty argument", ok, "", key=f"C08.R5@{h}")
    check_number_to_str(repo, rep)
    # COLON_NODE range handler: begin before end
    h = nfm.get("COLON_NODE")
    if h in methods:
        m = methods[h][0]
        for i, env in enumerate(Interp(m, top_first).run()):
            for v, call, _ in env["__pushes"]:
                if isinstance(v, Text) and len(v.parts) == 3 and all(isinstance(p, (Sym, str)) for p in v.parts):
                    ok = isinstance(v.parts[0], Sym) and v.parts[0].idx == 1 and v.parts[1] == ":" and isinstance(v.parts[2], Sym) and v.parts[2].idx == 0
                    rep.ob("C08.R4", m, f"{h}: begin:end order", ok, "" if ok else f"renders `{_parts_repr(v)}`", key=f"C08.R4@{h}:order")
    # xref handler binds (row, col, node) in order
    h = nfm.get("CELL_REFERENCE_NODE")
    if h in methods:
        m = methods[h][0]
        ok = False
        got = None
        for env in Interp(m, top_first).run():
            for name, a in env.get("__calls", []):
                got = [repr(x) for x in a]
                ok = len(a) == 4 and [getattr(x, "txt", None) for x in a[1:]] == ["ROW", "COL", "NODE"]
        rep.ob("C08.R1", m, f"{h}: passes host row, col and node in order", ok, "" if ok else f"node_to_ref called with {got}", key=f"C08.R1@{h}:binding")

    rep.floor("C08.R1", 31)
    rep.floor("C08.R2", 24)
    rep.floor("C08.R3", 2)
    rep.floor("C08.R4", 12)
    rep.floor("C08.R5", 5)


VARIANTS = [
    M("function-map-two-names-exchanged", "src/numbers_parser/generated/functionmap.py", '    333: "BITLSHIFT",\n    334: "BITRSHIFT",', '    333: "BITRSHIFT",\n    334: "BITLSHIFT",', "C08.R4"),
    T("function-map-new-id-added", "src/numbers_parser/generated/functionmap.py", '    336: "SWITCH",\n}', '    336: "SWITCH",\n    337: "CONCAT",\n}'),
    T("number-to-str-translate-ifexp", "formula.py", '    if "e" in v_str:\n        number, exp = v_str.split("e")\n        number = re.sub(r"[,-.]", "", number)\n        zeroes = "0" * (abs(int(exp)) - 1)\n        if int(exp) > 0:\n            return f"{number}{zeroes}"\n        return f"0.{zeroes}{number}"\n    return v_str\n', '    if "e" not in v_str:\n        return v_str\n\n    mantissa, exp = v_str.split("e")\n    digits = mantissa.translate(str.maketrans("", "", \',-.\'))\n    exponent = int(exp)\n    zeroes = "0" * (abs(exponent) - 1)\n    return f"{digits}{zeroes}" if exponent > 0 else f"0.{zeroes}{digits}"\n'),
    M("number-to-str-translate-keeps-point", "formula.py", '    if "e" in v_str:\n        number, exp = v_str.split("e")\n        number = re.sub(r"[,-.]", "", number)\n        zeroes = "0" * (abs(int(exp)) - 1)\n        if int(exp) > 0:\n            return f"{number}{zeroes}"\n        return f"0.{zeroes}{number}"\n    return v_str\n', '    if "e" not in v_str:\n        return v_str\n\n    mantissa, exp = v_str.split("e")\n    digits = mantissa.translate(str.maketrans("", "", \',-\'))\n    exponent = int(exp)\n    zeroes = "0" * (abs(exponent) - 1)\n    return f"{digits}{zeroes}" if exponent > 0 else f"0.{zeroes}{digits}"\n', "C08.R5"),
    M("number-to-str-small-zero-count", "formula.py", '    if "e" in v_str:\n        number, exp = v_str.split("e")\n        number = re.sub(r"[,-.]", "", number)\n        zeroes = "0" * (abs(int(exp)) - 1)\n        if int(exp) > 0:\n            return f"{number}{zeroes}"\n        return f"0.{zeroes}{number}"\n    return v_str\n', '    if "e" not in v_str:\n        return v_str\n\n    mantissa, exp = v_str.split("e")\n    digits = mantissa.translate(str.maketrans("", "", \',-.\'))\n    exponent = int(exp)\n    zeroes = "0" * (abs(exponent))\n    return f"{digits}{zeroes}" if exponent > 0 else f"0.{zeroes}{digits}"\n', "C08.R5"),
    M("number-integer-marker-wrong", "formula.py", "if node.AST_number_node_decimal_high == 0x3040000000000000:", "if node.AST_number_node_decimal_high == 0x3040000000000001:", "C08.R5"),
    M("number-integer-branches-swapped", "formula.py", "if node.AST_number_node_decimal_high == 0x3040000000000000:", "if node.AST_number_node_decimal_high != 0x3040000000000000:", "C08.R5"),
    M("function-name-by-arity-index", "formula.py", "        node_index = node.AST_function_node_index", "        node_index = node.AST_function_node_numArgs", "C08.R4"),
    M("sub-swapped", "formula.py", 'self.push(f"{arg1}-{arg2}")', 'self.push(f"{arg2}-{arg1}")', "C08.R2"),
    M("div-popn-swapped", "formula.py", '        arg2, arg1 = self.popn(2)\n        self.push(f"{arg1}÷{arg2}")', '        arg1, arg2 = self.popn(2)\n        self.push(f"{arg1}÷{arg2}")', "C08.R2"),
    M("mul-ascii-glyph-wrong", "formula.py", 'self.push(f"{arg1}×{arg2}")', 'self.push(f"{arg1}+{arg2}")', "C08.R2"),
    M("power-mapped-to-mul", "formula.py", '"POWER_NODE": "power"', '"POWER_NODE": "mul"', "C08.R2"),
    M("function-no-reverse", "formula.py", 'args = ",".join(reversed([str(x) for x in args]))\n        self.push(f"{func_name}({args})")',
      'args = ",".join([str(x) for x in args])\n        self.push(f"{func_name}({args})")', "C08.R4"),
    M("list-no-reverse", "formula.py", 'args = ",".join(reversed([str(x) for x in args]))\n        self.push(f"({args})")',
      'args = ",".join([str(x) for x in args])\n        self.push(f"({args})")', "C08.R4"),
    M("array-rows-not-reversed", "formula.py", 'args = ";".join(reversed(rows))', 'args = ";".join(rows)', "C08.R4"),
    M("popn-prepends", "formula.py", "values += (self._stack.pop(),)", "values = (self._stack.pop(),) + values", "C08.R"),
    M("date-rounded-to-days", "formula.py", "dt = datetime(2001, 1, 1) + timedelta(seconds=node.AST_date_node_dateNum)", "dt = datetime(2001, 1, 1) + timedelta(days=round(node.AST_date_node_dateNum / 86400))", "C08.R5"),
    M("date-unix-epoch", "formula.py", "dt = datetime(2001, 1, 1) + timedelta(seconds=node.AST_date_node_dateNum)", "dt = datetime(1970, 1, 1) + timedelta(seconds=node.AST_date_node_dateNum)", "C08.R5"),
    T("date-epoch-constant-renamed-local", "formula.py", "        dt = datetime(2001, 1, 1) + timedelta(seconds=node.AST_date_node_dateNum)  # noqa: DTZ001\n        self.push(f\"DATE({dt.year},{dt.month},{dt.day})\")",
      "        seconds = node.AST_date_node_dateNum\n        when = EPOCH + timedelta(seconds=seconds)\n        self.push(f\"DATE({when.year},{when.month},{when.day})\")",
      more=[("formula.py", "from numbers_parser.constants import DECIMAL128_BIAS, OPERATOR_PRECEDENCE", "from numbers_parser.constants import DECIMAL128_BIAS, EPOCH, OPERATOR_PRECEDENCE")]),
    M("string-no-doubling", "formula.py", """value = node.AST_string_node_string.replace('"', '""')""", "value = node.AST_string_node_string", "C08.R5"),
    M("negate-postfix", "formula.py", 'self.push(f"-{arg1}")', 'self.push(f"{arg1}-")', "C08.R3"),
    M("equals-swapped", "formula.py", 'self.push(f"{arg2}={arg1}")', 'self.push(f"{arg1}={arg2}")', "C08.R2"),
    M("ge-glyph-le", "formula.py", 'self.push(f"{arg1}≥{arg2}")', 'self.push(f"{arg1}≤{arg2}")', "C08.R2"),
    M("formula-call-order", "formula.py", "func(row, col, node)", "func(col, row, node)", "C08.R1"),
    M("drop-concat-dispatch", "formula.py", '    "CONCATENATION_NODE": "concat",\n', '    "CONCATENATION_NODE": None,\n', "C08.R1"),
    M("number-small-zero-count", "formula.py", 'zeroes = "0" * (abs(int(exp)) - 1)', 'zeroes = "0" * (abs(int(exp)) - len(number))', "C08.R5"),
    M("popn-slice-zero-count", "formula.py", "        values = ()\n        for _ in range(num_args):\n            values += (self._stack.pop(),)\n        return values",
      "        values = tuple(reversed(self._stack[-num_args:]))\n        del self._stack[-num_args:]\n        return values", "C08.R0"),
    T("rename-args", "formula.py", '        arg2, arg1 = self.popn(2)\n        self.push(f"{arg1}-{arg2}")', '        rhs, lhs = self.popn(2)\n        self.push(f"{lhs}-{rhs}")'),
    T("sub-two-pops", "formula.py", '        arg2, arg1 = self.popn(2)\n        self.push(f"{arg1}-{arg2}")', '        arg2 = self.pop()\n        arg1 = self.pop()\n        self.push(f"{arg1}-{arg2}")'),
    T("function-slice-reverse", "formula.py", 'args = ",".join(reversed([str(x) for x in args]))\n        self.push(f"{func_name}({args})")',
      'args = ",".join([str(x) for x in args][::-1])\n        self.push(f"{func_name}({args})")'),
]

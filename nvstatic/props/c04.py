"""C04 — cell storage records decode to exactly what was encoded, field by field."""

from __future__ import annotations

from ..cellcodec import (
    HEADER_SIZE,
    V5_LAYOUT,
    V5_NAME,
    V5_WIDTH,
    extract_decoder,
    extract_encoder,
    parse_byte6_doc,
    _fmt_width,
)
from ..core import U
from ..selftest import M, T

EXPLANATION = (
    "layout interpretation of Cell._from_storage (symbolic offset = 12 + sum of widths of the lower flag "
    "bits) and of Cell._to_buffer (kind payloads and optional blocks), compared with the 21-row v5 "
    "layout table, with each other, and with the byte-6 table of docs/Numbers.md; decides the field "
    "placement for all 2^21 flag subsets at once"
)
TRUSTED = [
    "python ast",
    "struct.calcsize",
    "SheetJS v5 cell storage layout (frozen 21-row table in nvstatic/cellcodec.py)",
    "docs/Numbers.md byte-6 table",
]

# attribute the library stores for each mask it interprets (decoder target = encoder attr)
BYTE6_DOC_ATTR = {
    "number format": "_num_format_id",
    "currency format": "_currency_format_id",
    "duration format": "_duration_format_id",
    "date format": "_date_format_id",
    "bool format": "_bool_format_id",
    "string": "_string_id",
}


def run(repo, rep, tier):
    dec = extract_decoder(repo)
    enc = extract_encoder(repo)
    rep.analysed("cell.py:Cell._from_storage", "cell.py:Cell._to_buffer")
    rep.extra["shapes_accepted"] = ["straight-line if flags & M", "loop over literal field table"]
    rep.extra["decoder_shape"] = dec.shape
    f = dec.func

    # ---- R1 decoder order
    rep.ob("C04.R1", f, f"offset base {dec.base}", dec.base == HEADER_SIZE,
           f"decoder starts reading optional fields at {dec.base}, header is {HEADER_SIZE} bytes",
           key="C04.R1@decoder:base")
    seen_masks = set()
    highest = max([r.mask for r in dec.reads if not r.skipped], default=0)
    for r in dec.reads:
        name = V5_NAME.get(r.mask, "?")
        if r.mask not in V5_WIDTH:
            rep.ob("C04.R1", r.node, f"mask {r.mask:#x}", False, "mask is not a documented v5 flag bit",
                   key=f"C04.R1@decoder:mask{r.mask:#x}:unknown")
            continue
        expected = {b: w for b, w, _ in V5_LAYOUT if b < r.mask}
        acc = {b: w for b, w in r.accounted.items() if w}
        missing = sorted(b for b in expected if b not in acc)
        extra = sorted(b for b in acc if b not in expected)
        wrongw = sorted(b for b in expected if b in acc and acc[b] != expected[b])
        ok = not missing and not extra and not wrongw
        kind = "skip" if r.skipped else "read"
        detail = ""
        if not ok:
            detail = (
                f"at the {kind} of {r.mask:#x} ({name}) the offset does not account for "
                f"lower bits {[hex(b) for b in missing]} (missing), {[hex(b) for b in extra]} (higher bits already counted), "
                f"{[hex(b) for b in wrongw]} (wrong width): the field is taken from the wrong slot whenever those bits are set"
            )
        rep.ob("C04.R1", r.node, f"{kind} mask {r.mask:#x} -> {r.target or name}", ok, detail,
               key=f"C04.R1@decoder:{kind}{r.mask:#x}:order")
        w = V5_WIDTH[r.mask]
        okw = r.advance == w and (r.skipped or r.slice_width == w) and (
            r.skipped or r.fmt == "d128" or _fmt_width(r.fmt) == w
        )
        rep.ob("C04.R1", r.node, f"width of mask {r.mask:#x}", okw,
               "" if okw else f"slice {r.slice_width}, format {r.fmt}, advance {r.advance}; layout width is {w}",
               key=f"C04.R1@decoder:{r.mask:#x}:width")
        if r.mask in seen_masks:
            rep.ob("C04.R1", r.node, f"mask {r.mask:#x} handled twice", False, "a flag bit is consumed twice",
                   key=f"C04.R1@decoder:{r.mask:#x}:twice")
        seen_masks.add(r.mask)
    # every documented bit below the highest interpreted bit is read or skipped in place
    for b, w, name in V5_LAYOUT:
        if b < highest and b not in seen_masks:
            late = any(b in bits for bits, _ in dec.late_skips)
            rep.ob("C04.R1", f, f"bit {b:#x} ({name}) below highest interpreted bit {highest:#x}", False,
                   ("skipped late (after higher fields were read)" if late else "never accounted for")
                   + ": every later field is misplaced when this bit is set",
                   key=f"C04.R1@decoder:{b:#x}:unaccounted")
    for m, adv, node in dec.multi_bit:
        rep.ob("C04.R1", node, f"`if flags & {m:#x}` advances the offset by a constant {adv}", False,
               f"the test is true when any of the bits {[hex(1 << i) for i in range(32) if m >> i & 1]} is set but the advance is the same: "
               "a record carrying only one of those fields shifts every later field", key=f"C04.R1@decoder:multibit{m:#x}")
    for bits, node in dec.late_skips:
        rep.ob("C04.R1", node, f"late skip of {[hex(b) for b in bits]}", False,
               "fields are skipped after higher-numbered fields have been read, not in place",
               key="C04.R1@decoder:late-skip")

    # ---- R2 encoder order and accounting
    fe = enc.func
    rep.ob("C04.R2", fe, f"base length {enc.base_length}", enc.base_length == HEADER_SIZE, "",
           key="C04.R2@encoder:base")
    for kb in enc.kinds:
        if kb.returns_none or kb.flags is None and kb.payload_width is None:
            continue
        bits = [b for b, _, _ in V5_LAYOUT if (kb.flags or 0) & b]
        want = sum(V5_WIDTH[b] for b in bits)
        ok = kb.payload_width == want and kb.length_add == want and (kb.flags or 0) < 0x10
        rep.ob("C04.R2", kb.node, f"kind {kb.cls}: flags={kb.flags:#x} payload={kb.payload_width} length+={kb.length_add}", ok,
               "" if ok else f"payload bytes, `length +=` and the widths of the flag bits ({want}) must agree; "
               "a payload without its flag bit shifts every optional field",
               key=f"C04.R2@encoder:kind:{kb.cls}")
    prev = 0xF
    emitted_attrs = {}
    for blk in enc.blocks:
        w = V5_WIDTH.get(blk.mask)
        ok = (
            blk.mask is not None and w is not None and blk.length_add == w and blk.width == w
            and blk.appends == 1 and blk.emitted_attr == blk.attr
        )
        rep.ob("C04.R2", blk.node, f"block {blk.attr}: mask={blk.mask if blk.mask is None else hex(blk.mask)} "
               f"length+={blk.length_add} fmt={blk.fmt} emits={blk.emitted_attr}", ok,
               "" if ok else f"flag, length increment, packed width and emitted attribute must agree (layout width {w})",
               key=f"C04.R2@encoder:block:{blk.attr}")
        if blk.mask is not None:
            oko = blk.mask > prev
            rep.ob("C04.R2", blk.node, f"block {blk.attr} order", oko,
                   "" if oko else f"mask {blk.mask:#x} emitted after {prev:#x}: fields must be in ascending flag-bit order",
                   key=f"C04.R2@encoder:order:{blk.attr}")
            prev = max(prev, blk.mask)
        if blk.attr in emitted_attrs:
            rep.ob("C04.R2", blk.node, f"{blk.attr} emitted twice", False, "", key=f"C04.R2@encoder:twice:{blk.attr}")
        emitted_attrs[blk.attr] = blk.mask
    # payload attributes must not be emitted again by a block (rich id twice)
    for kb in enc.kinds:
        if kb.value_expr is not None:
            txt = U(kb.value_expr)
            for blk in enc.blocks:
                if f"self.{blk.attr}" in txt and (kb.payload_width or 0) > 0:
                    rep.ob("C04.R2", kb.node, f"kind {kb.cls} payload repeats {blk.attr}", False,
                           f"{blk.attr} is written as the kind payload and again by the {blk.mask:#x} block",
                           key=f"C04.R2@encoder:kind:{kb.cls}:dup:{blk.attr}")
    # header
    h = enc.header
    hv = h.get("[0]")
    rep.ob("C04.R3", hv[0] if hv else fe, "version byte written at [0]", bool(hv) and hv[2] == "5", "",
           key="C04.R3@encoder:version")
    ht = h.get("[1]")
    # the kind written depends on the cell's own kind only
    from ..symexec import bool_atoms
    for kb in enc.kinds:
        for cnd in kb.type_conds:
            atoms = sorted(bool_atoms(cnd))
            foreign = [a for a in atoms if not a.replace(" ", "").startswith(("self._type", "isinstance(self,"))]
            rep.ob("C04.R2", kb.node, f"{kb.cls}: the type byte is chosen by the cell's own kind (`{U(cnd)[:60]}`)", not foreign,
                   "" if not foreign else f"the type byte also depends on `{foreign[0]}`: a cell whose kind says one thing and whose references say another is written as the other kind and reopens as it "
                   "(a NUMBER cell holding a currency format reference comes back as CURRENCY)", key=f"C04.R2@type-choice:{kb.cls}")
    rep.ob("C04.R3", ht[0] if ht else fe, "type byte written at [1]", bool(ht) and ht[2] == h.get("__type_var__", "cell_type"), "",
           key="C04.R3@encoder:type")
    hf = h.get("[8:12]")
    okf = bool(hf) and hf[1] is not None and hf[1][0] in ("<i", "<I") and hf[1][2] == enc.flags_var
    rep.ob("C04.R3", hf[0] if hf else fe, "flags word written at [8:12]", okf, "", key="C04.R3@encoder:flagsword")
    hp = h.get("payload")
    rep.ob("C04.R3", hp[0] if hp else fe, "payload appended directly after the 12-byte header", bool(hp) and
           bool(h.get("alloc")) and h["alloc"][1] == HEADER_SIZE, "", key="C04.R3@encoder:payload-first")
    # decoder header
    dflags = [v for k, v in dec.header.items() if isinstance(v, tuple) and len(v) == 4 and (v[2], v[3]) == (8, 12)]
    okd = bool(dflags) and dflags[0][1] in ("<i", "<I")
    rep.ob("C04.R3", f, "flags word read from [8:12]", okd, "", key="C04.R3@decoder:flagsword")
    rep.ob("C04.R3", f, "version byte read at [0] and type at [1]", "version" in dec.header and "type" in dec.header, "",
           key="C04.R3@decoder:version-type")

    # ---- R3 encoder/decoder agreement on mask <-> attribute
    dmap = {r.mask: r.target for r in dec.reads if not r.skipped}
    emap = {blk.mask: blk.attr for blk in enc.blocks if blk.mask is not None}
    for m in sorted(set(dmap) & set(emap)):
        ok = dmap[m] == emap[m]
        rep.ob("C04.R3", fe, f"mask {m:#x}: decoder {dmap[m]} / encoder {emap[m]}", ok,
               "" if ok else "the two sides attach different attributes to the same flag bit",
               key=f"C04.R3@agree:{m:#x}")
    # every attribute the decoder assigns from an optional field (>= 0x10) is re-emitted (see C02.R1)
    for m, tgt in sorted(dmap.items()):
        if m >= 0x10 and m not in emap:
            rep.ob("C04.R3", f, f"mask {m:#x} ({tgt}) decoded but never encoded", tgt == "_formula_error_id",
                   "field read by the decoder is dropped on save", key=f"C04.R3@agree:{m:#x}:dropped")
    # byte-6 bits vs documentation
    doc = parse_byte6_doc(repo)
    rep.ob("C04.R3", "docs/Numbers.md:9", "byte-6 table rows", len(doc) >= 6, f"parsed {len(doc)} rows",
           key="C04.R3@doc:rows", func="docs")
    enc_b6 = {}
    for blk in enc.blocks:
        if blk.byte6:
            enc_b6[blk.attr] = blk.byte6
    for attr, bit, _ in enc.byte6_extra:
        enc_b6[attr] = enc_b6.get(attr, 0) | bit
    for bit, what in sorted(doc.items()):
        attr = BYTE6_DOC_ATTR.get(what)
        got = enc_b6.get(attr)
        ok = got == bit
        rep.ob("C04.R3", fe, f"byte 6 bit {bit:#x} <-> {what} id", ok,
               "" if ok else f"encoder sets {got if got is None else hex(got)} for {attr}; documentation says {bit:#x}",
               key=f"C04.R3@byte6:{bit:#x}")
    for attr, bit in sorted(enc_b6.items()):
        if bit not in doc:
            rep.ob("C04.R3", fe, f"byte 6 bit {bit:#x} set for {attr}", False, "bit is not in the documented byte-6 table",
                   key=f"C04.R3@byte6:undocumented:{attr}")
    # return slice
    hr = h.get("return")
    okr = bool(hr) and hr[2].replace(" ", "") in (f"{enc.storage_var}[0:{enc.length_var}]", f"{enc.storage_var}[:{enc.length_var}]")
    rep.ob("C04.R2", hr[0] if hr else fe, "record is storage[0:length]", okr, "" if okr else f"returns {hr[2] if hr else None}",
           key="C04.R2@encoder:return")

    rep.floor("C04.R1", 18)
    rep.floor("C04.R2", 8 + 13)
    rep.floor("C04.R3", 12)


_DEC_TWIN_OLD = '''        if flags & 0x2000:
            storage_flags._num_format_id = unpack("<i", buffer[offset : offset + 4])[0]
            offset += 4
        if flags & 0x4000:
            storage_flags._currency_format_id = unpack("<i", buffer[offset : offset + 4])[0]
            offset += 4
'''
_DEC_TWIN_NEW = '''        if flags & 0x2000 != 0:
            fmt_id = unpack("<i", buffer[offset : offset + 4])[0]
            storage_flags._num_format_id = fmt_id
            offset += 4
        if bool(flags & 0x4000):
            storage_flags._currency_format_id = unpack("<i", buffer[offset : offset + 4])[0]
            offset += 4
'''

_FMT_FIELDS = [
    (0x2000, "_num_format_id"), (0x4000, "_currency_format_id"), (0x8000, "_date_format_id"),
    (0x10000, "_duration_format_id"), (0x20000, "_text_format_id"), (0x40000, "_bool_format_id"),
]
_TABLE_OLD = "".join(
    f"        if flags & {m:#x}:\n            storage_flags.{a} = unpack(\"<i\", buffer[offset : offset + 4])[0]\n            offset += 4\n"
    for m, a in _FMT_FIELDS
)
_TABLE_NEW = (
    "        for mask, attr in (" + ", ".join(f"({m:#x}, \"{a}\")" for m, a in _FMT_FIELDS) + "):\n"
    "            if flags & mask:\n"
    "                setattr(storage_flags, attr, unpack(\"<i\", buffer[offset : offset + 4])[0])\n"
    "                offset += 4\n"
)
_TABLE_BAD = _TABLE_NEW.replace("(0x8000, \"_date_format_id\"), (0x10000, \"_duration_format_id\")",
                                "(0x10000, \"_duration_format_id\"), (0x8000, \"_date_format_id\")")

VARIANTS = [
    T("decoder-adjacent-skips-summed", "cell.py", """        if flags & 0x80:
            # cond_style_id skipped
            offset += 4
        if flags & 0x100:
            # cond_rule_style_id skipped
            offset += 4
""", """        offset += 4 * sum(1 for skipped in (0x80, 0x100) if flags & skipped)
"""),
    M("decoder-later-skip-summed-early", "cell.py", """        if flags & 0x80:
            # cond_style_id skipped
            offset += 4
        if flags & 0x100:
            # cond_rule_style_id skipped
            offset += 4
""", """        offset += 4 * sum(1 for skipped in (0x80, 0x100, 0x800) if flags & skipped)
""", "C04.R1"),
    M("type-byte-from-format-reference", "cell.py", "            if self._type == CellType.CURRENCY:\n                cell_type = CURRENCY_CELL_TYPE", "            if self._type == CellType.CURRENCY or self._currency_format_id is not None:\n                cell_type = CURRENCY_CELL_TYPE", "C04.R2"),
    M("revert-fix-skip-in-place", "cell.py",
      "        if flags & 0x100:\n            # cond_rule_style_id skipped\n            offset += 4\n", "", "C04.R1"),
    M("swap-0x2000-0x4000-reads", "cell.py",
      "        if flags & 0x2000:\n            storage_flags._num_format_id", "        if flags & 0x4000:\n            storage_flags._num_format_id",
      "C04.R1", more=(("cell.py", "        if flags & 0x4000:\n            storage_flags._currency_format_id",
                       "        if flags & 0x2000:\n            storage_flags._currency_format_id"),)),
    M("cell-style-advance-8", "cell.py",
      "            storage_flags._cell_style_id = unpack(\"<i\", buffer[offset : offset + 4])[0]\n            offset += 4",
      "            storage_flags._cell_style_id = unpack(\"<i\", buffer[offset : offset + 4])[0]\n            offset += 8", "C04.R1"),
    M("late-skip-restored", "cell.py",
      "        if flags & 0x800:\n            # formula_error_id skipped\n            offset += 4\n        if flags & 0x1000:\n            storage_flags._suggest_id = unpack(\"<i\", buffer[offset : offset + 4])[0]\n            offset += 4\n",
      "        if flags & 0x1000:\n            storage_flags._suggest_id = unpack(\"<i\", buffer[offset : offset + 4])[0]\n            offset += 4\n        offset += 4 * bin(flags & 0x800).count(\"1\")\n",
      "C04.R1"),
    M("revert-fix-rich-payload", "cell.py",
      "            flags = 0\n            cell_type = TSTArchives.automaticCellType\n            value = b\"\"",
      "            flags = 0\n            length += 4\n            cell_type = TSTArchives.automaticCellType\n            value = pack(\"<i\", self._rich_id)",
      "C04.R2"),
    M("encoder-byte6-date-bit", "cell.py",
      "            storage += pack(\"<i\", self._date_format_id)\n            storage[6] |= 8",
      "            storage += pack(\"<i\", self._date_format_id)\n            storage[6] |= 0x10", "C04.R3"),
    M("encoder-swap-format-blocks", "cell.py",
      "flags |= 0x20000\n            length += 4\n            storage += pack(\"<i\", self._text_format_id)",
      "flags |= 0x40000\n            length += 4\n            storage += pack(\"<i\", self._text_format_id)", "C04.R"),
    M("encoder-control-emits-formula", "cell.py",
      "storage += pack(\"<i\", self._control_id)", "storage += pack(\"<i\", self._formula_id)", "C04.R2"),
    M("encoder-suggest-short", "cell.py",
      "storage += pack(\"<i\", self._suggest_id)", "storage += pack(\"<h\", self._suggest_id)", "C04.R2"),
    M("decoder-string-id-short", "cell.py",
      "storage_flags._string_id = unpack(\"<i\", buffer[offset : offset + 4])[0]",
      "storage_flags._string_id = unpack(\"<h\", buffer[offset : offset + 2])[0]", "C04.R1"),
    M("decoder-merged-skip", "cell.py", "        if flags & 0x80:\n            # cond_style_id skipped\n            offset += 4\n        if flags & 0x100:\n            # cond_rule_style_id skipped\n            offset += 4\n",
      "        if flags & 0x180:\n            offset += 8\n", "C04.R1"),
    M("decoder-flags-word-moved", "cell.py", "flags = unpack(\"<i\", buffer[8:12])[0]", "flags = unpack(\"<i\", buffer[4:8])[0]", "ANALYSIS-ERROR"),
    T("decoder-table-driven", "cell.py", _TABLE_OLD, _TABLE_NEW),
    M("decoder-table-driven-misordered", "cell.py", _TABLE_OLD, _TABLE_BAD, "C04.R1"),
    T("decoder-test-spellings", "cell.py", _DEC_TWIN_OLD, _DEC_TWIN_NEW),
    T("encoder-rename-none", "cell.py", "        if self._suggest_id is not None:\n            flags |= 0x1000\n            length += 4",
      "        if self._suggest_id is not None:\n            length += 4\n            flags |= 0x1000"),
]

"""C14 — displayed dates and durations agree with the stored value."""

from __future__ import annotations

import ast
import re

from ..core import AnalysisError, U, body_walk, call_name, last_attr, try_const
from ..selftest import M, T

EXPLANATION = (
    "directive table: documented directives (docs/api/datetime.rst) = implemented directives; strftime-valued entries equal "
    "the frozen directive->code table; every lambda-valued clock/ordinal directive is abstractly evaluated over the whole "
    "domain of the one field it depends on (24 hours, 60 minutes/seconds, 10^6 microsecond classes via digit strings, 366 "
    "days) with exact transfer functions for str/zfill/replace/%/or/slicing/conditional expressions and compared with the "
    "documented range and padding; the duration formatter's unit cascade is checked block by block (divisor, remainder, no wrap)"
)
TRUSTED = ["python ast", "docs/api/datetime.rst", "frozen directive->strftime table", "own expression evaluator (no repo code is executed)"]

STRFTIME = {
    "EEEE": "%A", "EEE": "%a", "yyyy": "%Y", "yy": "%y", "y": "%Y", "MMMM": "%B", "MMM": "%b", "MM": "%m", "M": "%-m", "d": "%-d", "dd": "%d",
    "HH": "%H", "H": "%-H", "hh": "%I", "h": "%-I", "ss": "%S", "ww": "%W", "G": "AD", "mm": "%M", "m": "%-M", "s": "%-S", "DDD": "%j", "a": "%p",
}


from ..miniev import Unknown, ev  # noqa: E402


def parse_doc_directives(repo):
    text = repo.source("docs/api/datetime.rst")
    return re.findall(r"^\|\s*``([A-Za-z]+)``\s*\|", text, flags=re.M)


def spec_for(directive):
    """(field domain name, expected function value->string) for the clock/ordinal directives this check decides."""
    S = {
        "a": ("hour", lambda h: "am" if h < 12 else "pm"),
        "k": ("hour", lambda h: str(h if h else 24)),
        "kk": ("hour", lambda h: str(h if h else 24).zfill(2)),
        "K": ("hour", lambda h: str(h % 12)),
        "KK": ("hour", lambda h: str(h % 12).zfill(2)),
        "H": ("hour", lambda h: str(h)),
        "HH": ("hour", lambda h: str(h).zfill(2)),
        "h": ("hour", lambda h: str(h % 12 or 12)),
        "hh": ("hour", lambda h: str(h % 12 or 12).zfill(2)),
        "m": ("minute", lambda v: str(v)),
        "mm": ("minute", lambda v: str(v).zfill(2)),
        "s": ("second", lambda v: str(v)),
        "ss": ("second", lambda v: str(v).zfill(2)),
        "D": ("yday", lambda v: str(v)),
        "DD": ("yday", lambda v: str(v).zfill(2)),
        "DDD": ("yday", lambda v: str(v).zfill(3)),
        # day of week in month: the 1st..7th are the first occurrence of their weekday, the 8th..14th the second, ...
        "F": ("day", lambda d: str((d - 1) // 7 + 1)),
    }
    for n, d in (("S", 1), ("SS", 2), ("SSS", 3), ("SSSS", 4), ("SSSSS", 5)):
        S[n] = ("microsecond", (lambda k: (lambda v: str(v).zfill(6)[:k]))(d))
    return S.get(directive)


DOMAINS = {
    "hour": list(range(24)),
    "minute": list(range(60)),
    "second": list(range(60)),
    # every day of a common and of a leap year, with the calendar fields a helper may look at
    "yday": [{"year": y, "month": m, "day": d, "yday": sum(ml[:m - 1]) + d}
             for y, ml in ((2023, [31, 28, 31, 30, 31, 30, 31, 31, 30, 31, 30, 31]), (2024, [31, 29, 31, 30, 31, 30, 31, 31, 30, 31, 30, 31]))
             for m in range(1, 13) for d in range(1, ml[m - 1] + 1)],
    "day": list(range(1, 32)),
    # microseconds: every digit-length class and the boundaries of each leading-digit group
    "microsecond": sorted(set([0, 1, 9, 10, 99, 100, 999, 1000, 9999, 10000, 99999, 100000, 123456, 500000, 909090, 999999] + [d * 10**k for d in range(1, 10) for k in range(6)]
                              + [d * 10**k + 1 for d in range(1, 10) for k in range(1, 6)] + list(range(0, 1000000, 4999)))),
}


def _entry_as_lambda(repo, v):
    """A table entry that is a function given by name (``f`` is ``lambda x: f(x)``) or made by a module-level factory
    (``def make(w): return lambda x: E`` called with constants: the lambda with the arguments put in), as a lambda."""
    from ..symexec import subst as _subst
    defs = {n.name: n for n in repo.tree("constants.py").body if isinstance(n, ast.FunctionDef)}
    if isinstance(v, ast.Name) and v.id in defs and len(defs[v.id].args.args) == 1:
        x = ast.Name(id="x", ctx=ast.Load())
        lam = ast.Lambda(args=ast.arguments(posonlyargs=[], args=[ast.arg(arg="x")], kwonlyargs=[], kw_defaults=[], defaults=[]),
                         body=ast.Call(func=ast.Name(id=v.id, ctx=ast.Load()), args=[x], keywords=[]))
        return ast.copy_location(ast.fix_missing_locations(lam), v)
    if isinstance(v, ast.Call) and isinstance(v.func, ast.Name) and v.func.id in defs and not v.keywords:
        f = defs[v.func.id]
        body = [b for b in f.body if not (isinstance(b, ast.Expr) and isinstance(b.value, ast.Constant))]
        params = [a.arg for a in f.args.args]
        if len(body) == 1 and isinstance(body[0], ast.Return) and isinstance(body[0].value, ast.Lambda) and len(params) == len(v.args) \
                and all(try_const(a, default=Ellipsis) is not Ellipsis for a in v.args) and not f.args.vararg and not f.args.kwarg:
            inner = body[0].value
            if not ({a.arg for a in inner.args.args} & set(params)):
                lam = ast.Lambda(args=inner.args, body=_subst(inner.body, dict(zip(params, v.args))))
                return ast.copy_location(ast.fix_missing_locations(lam), v)
    return v


def helper_env(repo):
    """Module-level helpers of constants.py that the table's lambdas may call, as evaluable closures over the field dict."""
    env = {}
    tree = repo.tree("constants.py")
    for n in tree.body:
        if isinstance(n, ast.Assign) and len(n.targets) == 1 and isinstance(n.targets[0], ast.Name):
            cv = try_const(n.value, repo.consts)
            if isinstance(cv, (int, str, tuple, list)) and not isinstance(cv, bool):
                env[n.targets[0].id] = cv
    for n in tree.body:
        if isinstance(n, ast.FunctionDef) and n.name.startswith("_") and len(n.args.args) == 1:
            def mk(fn):
                def call(arg):
                    local = {fn.args.args[0].arg: arg}
                    local.update(env)
                    for st in fn.body:
                        if isinstance(st, ast.Expr) and isinstance(st.value, ast.Constant):
                            continue
                        if isinstance(st, ast.Assign) and isinstance(st.targets[0], ast.Name):
                            local[st.targets[0].id] = ev(st.value, local)
                        elif isinstance(st, ast.Return):
                            return ev(st.value, local)
                        else:
                            raise Unknown(f"statement in {fn.name}")
                    raise Unknown("no return")
                return call
            env[n.name] = mk(n)
    return env


def check_date_format_entry(repo, rep):
    """Cell._date_format: every text it returns comes out of the directive decoder applied to the cell's own datetime
    (the one exception being the empty string of the unsupported-custom-format warning)."""
    from ..symexec import Straight
    f = repo.func("cell.py", "Cell._date_format")
    sl = Straight(f)
    bad = []
    n = 0
    for r in [x for x in body_walk(f) if isinstance(x, ast.Return) and x.value is not None]:
        n += 1
        v = sl.at(r, r.value)
        alts = []

        def leaves(e):
            if isinstance(e, ast.IfExp):
                leaves(e.body)
                leaves(e.orelse)
            else:
                alts.append(e)
        leaves(v)
        for a in alts:
            if isinstance(a, ast.Call) and call_name(a) == "_decode_date_format" and len(a.args) == 2 and U(a.args[1]) == "self._datetime":
                continue
            if isinstance(a, ast.Constant) and a.value == "":
                # only after the unsupported-format warning
                prev = [p for p in ast.walk(f) if isinstance(p, ast.Call) and call_name(p) == "warn" and p.lineno < r.lineno and r.lineno - p.lineno <= 8]
                if prev:
                    continue
            if isinstance(a, ast.Name) and a.id == "formatted_value":
                # assigned in a branch the substitution could not follow: every assignment must be a decoder call
                asg = [x for x in body_walk(f) if isinstance(x, ast.Assign) and U(x.targets[0]) == "formatted_value"]
                if asg and all(isinstance(x.value, ast.Call) and call_name(x.value) == "_decode_date_format" and U(x.value.args[1]) == "self._datetime" for x in asg):
                    continue
            bad.append(f"line {r.lineno}: returns `{U(a)[:60]}`")
    if n == 0:
        raise AnalysisError("Cell._date_format: no return found")
    rep.ob("C14.R1", f, f"Cell._date_format: all {n} returns render through _decode_date_format(<format>, self._datetime)", not bad,
           "" if not bad else f"{bad}: the cell's date format is ignored on that path and another text is displayed", key="C14.R1@date_format:entry")


def _anc_nodes(n):
    p = getattr(n, "_parent", None)
    while p is not None:
        yield p
        p = getattr(p, "_parent", None)


def run(repo, rep, tier):
    dmap = repo.module_assign("constants.py", "DATETIME_FIELD_MAP")
    entries = []
    if isinstance(dmap, ast.Call) and dmap.args and isinstance(dmap.args[0], ast.List):
        for el in dmap.args[0].elts:
            if isinstance(el, ast.Tuple) and len(el.elts) == 2:
                entries.append((try_const(el.elts[0]), el.elts[1]))
    elif isinstance(dmap, ast.Dict):
        entries = [(try_const(k), v) for k, v in zip(dmap.keys, dmap.values)]
    else:
        raise AnalysisError("DATETIME_FIELD_MAP is not a literal table")
    keys = [k for k, _ in entries]
    # ---- R1 directive sets agree
    doc = parse_doc_directives(repo)
    if len(doc) < 30:
        raise AnalysisError("docs/api/datetime.rst: directive table not found")
    for d in sorted(set(doc) | set(keys)):
        ok = d in doc and d in keys
        rep.ob("C14.R1", dmap, f"directive {d}: documented={d in doc}, implemented={d in keys}", ok,
               "" if ok else ("documented directive is rejected/ignored by the library" if d in doc else "implemented directive is undocumented"), key=f"C14.R1@{d}")
    dup = sorted({k for k in keys if keys.count(k) > 1})
    rep.ob("C14.R1", dmap, "no directive is defined twice", not dup, f"{dup}", key="C14.R1@dups")
    dec = repo.func("cell.py", "_decode_date_format_field")
    from ..funsum import Summarizer, decide, expect
    fp, vp_ = [a.arg for a in dec.args.args[:2]]
    rpaths = Summarizer().summarize(dec)
    bad = []
    for present, is_call in ((True, True), (True, False), (False, False)):
        sc = {f"{fp} in DATETIME_FIELD_MAP": present, f"callable(DATETIME_FIELD_MAP[{fp}])": is_call}
        want = expect(f"DATETIME_FIELD_MAP[{fp}]({vp_})") if (present and is_call) else expect(f"{vp_}.strftime(DATETIME_FIELD_MAP[{fp}])") if present else expect("''")
        for fx, kind, got, _p in decide(rpaths, sc):
            if kind != "return" or got != want:
                bad.append(f"field known={present}, entry callable={is_call}" + (f", {fx}" if fx else "") + f": returns `{got}` instead of `{want}`")
    rep.ob("C14.R1", dec, "renderer consults the same table: callable -> call, else strftime; unknown field -> empty text", not bad, "; ".join(bad[:2]), key="C14.R1@renderer")
    fp = repo.func("cell.py", "Formatting.__post_init__")
    # the validator and the new module-level helpers it calls (a helper the confirmed tree does not have is part of its caller)
    from ..normalize import _pinned_functions
    mod_defs = {n.name: n for n in repo.tree("cell.py").body if isinstance(n, ast.FunctionDef)}
    closure, todo = [fp], [fp]
    while todo:
        cur_ = todo.pop()
        for c_ in ast.walk(cur_):
            if isinstance(c_, ast.Call) and isinstance(c_.func, ast.Name) and c_.func.id in mod_defs and c_.func.id not in _pinned_functions("cell.py") \
                    and mod_defs[c_.func.id] not in closure:
                closure.append(mod_defs[c_.func.id])
                todo.append(mod_defs[c_.func.id])
    ok = False
    for f_ in closure:
        for lp_ in [n for n in ast.walk(f_) if isinstance(n, (ast.For, ast.comprehension))]:
            tgt_ = U(lp_.target)
            it_ = lp_.iter
            if isinstance(it_, ast.Name):
                d_ = [n for n in ast.walk(f_) if isinstance(n, ast.Assign) and len(n.targets) == 1 and U(n.targets[0]) == it_.id]
                it_ = d_[0].value if len(d_) == 1 else it_
            if not U(it_).endswith(".split()"):
                continue
            scope_ = lp_ if isinstance(lp_, ast.For) else f_
            for t_ in ast.walk(scope_):
                if isinstance(t_, ast.Compare) and len(t_.ops) == 1 and isinstance(t_.ops[0], (ast.In, ast.NotIn)) and U(t_.left) == tgt_ \
                        and U(t_.comparators[0]) in ("DATETIME_FIELD_MAP", "DATETIME_FIELD_MAP.keys()"):
                    ok = True
    rep.ob("C14.R1", fp, "format validation on write uses the same table", ok, "", key="C14.R1@validator")
    # the format text the caller gave is validated, never rewritten: it is what is stored and later rendered
    cls_f = repo.cls("cell.py", "Formatting")
    rewrites = []
    for m_ in cls_f.body:
        if not isinstance(m_, ast.FunctionDef):
            continue
        for n_ in body_walk(m_):
            tg = n_.targets[0] if isinstance(n_, ast.Assign) and len(n_.targets) == 1 else (n_.target if isinstance(n_, (ast.AugAssign, ast.AnnAssign)) else None)
            if tg is not None and U(tg) == "self.date_time_format" and n_.value is not None:
                reads_self = any(isinstance(x, ast.Attribute) and U(x) == "self.date_time_format" for x in ast.walk(n_.value))
                guarded_default = any(isinstance(p_, ast.If) and U(p_.test).replace(" ", "") == "self.date_time_formatisNone" for p_ in _anc_nodes(n_))
                if isinstance(n_, ast.AugAssign) or reads_self or not (guarded_default or isinstance(n_.value, ast.Constant) or isinstance(n_.value, ast.Name)):
                    rewrites.append(n_)
    rep.ob("C14.R1", rewrites[0] if rewrites else fp, "Formatting stores the date format exactly as given (only a missing one gets the default)", not rewrites,
           "" if not rewrites else f"`{U(rewrites[0])[:70]}` changes the format text: literal characters of the format (spaces, tabs, punctuation at the ends) no longer appear in the displayed value",
           key="C14.R1@format-as-given")

    # ---- R2 strftime entries / R3 lambda entries
    henv = helper_env(repo)
    for k, v in entries:
        sv = try_const(v)
        if isinstance(sv, str):
            want = STRFTIME.get(k)
            ok = want == sv
            # a strftime code is also acceptable for a directive this check specifies by function, if it renders the same
            rep.ob("C14.R2", v, f"directive {k} -> {sv!r}", ok, "" if ok else f"expected {want!r}: the directive renders another field or padding", key=f"C14.R2@{k}")
            continue
        spec = spec_for(k)
        v = _entry_as_lambda(repo, v)
        if not isinstance(v, ast.Lambda):
            rep.ob("C14.R3", v, f"directive {k}: table entry is neither a strftime code nor a lambda", False, U(v)[:80], key=f"C14.R3@{k}:shape")
            continue
        if spec is None:
            rep.info("C14.R3", f"directive {k} = `{U(v)[:70]}`: calendar-dependent helper, not decided")
            continue
        field, want_fn = spec
        arg = v.args.args[0].arg
        bad = []
        try:
            for val in DOMAINS[field]:
                fields = {field: val}
                if field == "yday":
                    fields = dict(val)
                env = dict(henv)
                env[arg] = fields
                got = ev(v.body, env)
                want = want_fn(val["yday"] if field == "yday" else val)
                if got != want:
                    bad.append((f"{val['year']}-{val['month']:02d}-{val['day']:02d}" if field == "yday" else val, got, want))
        except Unknown as e:
            raise AnalysisError(f"directive {k}: construct outside the evaluator's language ({e}) in `{U(v)[:80]}`") from e
        except Exception as e:  # noqa: BLE001
            bad.append(("*", f"{type(e).__name__}: {e}", "a string"))
        ok = not bad
        detail = ""
        if bad:
            w = ", ".join(f"{field}={b[0]} -> {b[1]!r} (documented {b[2]!r})" for b in bad[:4])
            detail = f"over all {len(DOMAINS[field])} values of {field}: {len(bad)} wrong, e.g. {w}"
        rep.ob("C14.R3", v, f"directive {k} = `{U(v.body)[:60]}` over every {field}", ok, detail, key=f"C14.R3@{k}")
    rep.sub(check_date_format_entry, repo, rep)
    check_duration(repo, rep)
    check_scanner(repo, rep)
    rep.extra["field_domains"] = {k: len(v) for k, v in DOMAINS.items()}
    rep.floor("C14.R1", 36)
    rep.floor("C14.R2", 14)
    rep.floor("C14.R3", 14)
    rep.floor("C14.R4", 8)


UNIT_CONST = {"WEEK": "SECONDS_IN_WEEK", "DAY": "SECONDS_IN_DAY", "HOUR": "SECONDS_IN_HOUR", "MINUTE": "60", "SECOND": "1"}


def check_duration(repo, rep):
    """R4: the unit cascade of Cell._duration_format: per unit `dd = int(d / K)`, remainder `d -= K * dd`, no wrap-around."""
    f = repo.func("cell.py", "Cell._duration_format")
    consts = repo.consts
    ok_c = consts.get("SECONDS_IN_HOUR") == 3600 and consts.get("SECONDS_IN_DAY") == 86400 and consts.get("SECONDS_IN_WEEK") == 604800
    rep.ob("C14.R4", f, "unit constants: hour 3600 s, day 86400 s, week 604800 s", ok_c, f"{ {k: consts.get(k) for k in ('SECONDS_IN_HOUR', 'SECONDS_IN_DAY', 'SECONDS_IN_WEEK')} }", key="C14.R4@constants")
    blocks = [n for n in f.body if isinstance(n, ast.If)]
    seen = {}
    for b in blocks:
        t = U(b.test)
        unit = None
        for u in UNIT_CONST:
            if f"DurationUnits.{u}" in t and "MILLISECOND" not in t:
                unit = u
        if unit is None:
            if "DurationUnits.MILLISECOND" in t:
                unit = "MILLISECOND"
            else:
                continue
        seen[unit] = b
        assigns = [n for n in b.body if isinstance(n, ast.Assign) and U(n.targets[0]) == "dd"]
        if not assigns:
            rep.ob("C14.R4", b, f"duration {unit}: unit count computed", False, "", key=f"C14.R4@{unit}:count")
            continue
        v = U(assigns[0].value).replace(" ", "")
        if unit == "MILLISECOND":
            ok = v in ("int(round(1000*d))", "round(1000*d)", "int(round(d*1000))")
            rep.ob("C14.R4", assigns[0], f"duration milliseconds = `{U(assigns[0].value)}`", ok,
                   "" if ok else "the smallest unit must carry the whole remainder (no modulo/wrap): a ms-only format shows durations >= 1 s wrongly", key="C14.R4@MILLISECOND:count")
            continue
        K = UNIT_CONST[unit]
        want = {f"int(d/{K})", f"int(d//{K})"} if K != "1" else {"int(d)"}
        ok = v in want
        rep.ob("C14.R4", assigns[0], f"duration {unit}: count = `{U(assigns[0].value)}`", ok, "" if ok else f"expected int(d / {K})", key=f"C14.R4@{unit}:count")
        rem = [n for n in ast.walk(b) if isinstance(n, ast.AugAssign) and U(n.target) == "d" and isinstance(n.op, ast.Sub)]
        okr = bool(rem) and U(rem[0].value).replace(" ", "") in ({f"{K}*dd", f"dd*{K}"} if K != "1" else {"dd"})
        cond = getattr(rem[0], "_parent", None) if rem else None
        okc = isinstance(cond, ast.If) and U(cond.test).replace(" ", "") in (f"unit_smallest>DurationUnits.{unit}", f"unit_smallest!=DurationUnits.{unit}")
        rep.ob("C14.R4", rem[0] if rem else b, f"duration {unit}: remainder `d -= {K} * dd` when a smaller unit follows", okr and okc,
               "" if okr and okc else "the part shown in this unit is not removed before the next unit (or removed unconditionally)", key=f"C14.R4@{unit}:remainder")
    missing = [u for u in list(UNIT_CONST) + ["MILLISECOND"] if u not in seen]
    rep.ob("C14.R4", f, "duration cascade has week, day, hour, minute, second and millisecond blocks in that order", not missing and
           [u for u in seen] == ["WEEK", "DAY", "HOUR", "MINUTE", "SECOND", "MILLISECOND"], f"missing {missing}; order {list(seen)}", key="C14.R4@order")
    uir = [n for n in body_walk(f) if isinstance(n, ast.FunctionDef) and n.name == "unit_in_range"]
    if uir:
        import itertools as _it
        from ..funsum import Summarizer as _Sm, cval as _cval, decide as _decide, _UNKNOWN as _UNK, Asg as _Asg, _Simp as _Sp
        ps_ = [a.arg for a in uir[0].args.args]
        bad = []
        if len(ps_) == 3:
            up = _Sm().summarize(uir[0])
            vals_ = sorted(v for k, v in repo.consts.items() if k.startswith("DurationUnits.") and v)
            for l_, s_, u_ in _it.product(vals_, repeat=3):
                sc = dict(zip(ps_, (l_, s_, u_)))
                outs = _decide(up, sc)
                got = _cval(outs[0][3].ret, sc) if len(outs) == 1 and outs[0][1] == "return" else _UNK
                if got is _UNK or bool(got) != (l_ <= u_ <= s_):
                    bad.append(f"largest={l_}, smallest={s_}, unit={u_}: {got if got is not _UNK else 'undetermined'}")
        else:
            bad.append(f"parameters {ps_}")
        ok = not bad
        rep.ob("C14.R4", uir[0], "a unit is shown iff largest <= unit <= smallest (enum order week < ... < ms; every triple of units)", ok,
               "" if ok else f"{bad[0]} (and {len(bad) - 1} more): units outside the chosen range are shown, or units inside it are dropped", key="C14.R4@unit_in_range")
    from .. import numfmt
    au, n_au, au_probs = numfmt.check_auto_units(repo)
    ok = not au_probs
    rep.ob("C14.R4", au_probs[0][0] if au_probs else au, f"automatic units: largest by magnitude thresholds, smallest by divisibility ({n_au} boundary scenarios)", ok,
           "" if ok else au_probs[0][1] + (f" (and {len(au_probs) - 1} more)" if len(au_probs) > 1 else ""), key="C14.R4@auto_units")


def check_scanner(repo, rep):
    """R5: transition table of the date format scanner (scanner.py): every (character, next character, flags) class
    must take the step the format language prescribes."""
    from .. import scanner
    f, n, pr = scanner.table(repo)
    for cat, title, key in (("literals", "quoted text and non-letters are copied unchanged", "C14.R5@literals"),
                            ("fields", "a run of letters is one field, flushed at literals, quotes and the end", "C14.R5@fields"),
                            ("doubled-quote", "a doubled quote is a literal quote; a lone quote toggles quoted text", "C14.R5@doubled-quote")):
        ps = pr[cat]
        rep.ob("C14.R5", ps[0][0] if ps else f, f"scanner: {title} ({n} classes of the transition table)", not ps,
               "" if not ps else ps[0][1] + (f" (and {len(ps) - 1} more)" if len(ps) > 1 else ""), key=key)


VARIANTS = [
    M("date-format-stripped-on-construction", "cell.py", "            formats = re.sub(r\"[^a-zA-Z\\s]\", \" \", self.date_time_format).split()", "            self.date_time_format = self.date_time_format.strip()\n            formats = re.sub(r\"[^a-zA-Z\\s]\", \" \", self.date_time_format).split()", "C14.R1"),
    M("unit-in-range-strict-upper", "cell.py", "            return largest <= unit_type and smallest >= unit_type", "            return largest <= unit_type and smallest > unit_type", "C14.R4"),
    T("unit-in-range-chained", "cell.py", "            return largest <= unit_type and smallest >= unit_type", "            return largest <= unit_type <= smallest"),
    M("date-field-callable-not-called", "cell.py", "        if callable(s):\n            return s(value)\n        return value.strftime(s)", "        return value.strftime(s)", "C14.R1"),
    T("date-field-walrus-get", "cell.py", "    if field in DATETIME_FIELD_MAP:\n        s = DATETIME_FIELD_MAP[field]\n        if callable(s):\n            return s(value)\n        return value.strftime(s)",
      "    if (s := DATETIME_FIELD_MAP.get(field)) is not None:\n        return s(value) if callable(s) else value.strftime(s)"),
    M("auto-units-week-threshold-exclusive", "cell.py", "        if cell_value >= SECONDS_IN_WEEK:\n            unit_largest = DurationUnits.WEEK", "        if cell_value > SECONDS_IN_WEEK:\n            unit_largest = DurationUnits.WEEK", "C14.R4"),
    M("auto-units-smallest-not-clamped", "cell.py", "        unit_smallest = max(unit_smallest, unit_largest)\n", "        pass\n", "C14.R4"),
    M("auto-units-minute-by-hour-modulus", "cell.py", "        elif cell_value % 60:\n            unit_smallest = DurationUnits.SECOND\n        elif cell_value % SECONDS_IN_HOUR:", "        elif cell_value % 60:\n            unit_smallest = DurationUnits.SECOND\n        elif cell_value % SECONDS_IN_DAY:", "C14.R4"),
    T("auto-units-threshold-table", "cell.py", """        if cell_value >= SECONDS_IN_WEEK:
            unit_largest = DurationUnits.WEEK
        elif cell_value >= SECONDS_IN_DAY:
            unit_largest = DurationUnits.DAY
        elif cell_value >= SECONDS_IN_HOUR:
            unit_largest = DurationUnits.HOUR
        elif cell_value >= 60:
            unit_largest = DurationUnits.MINUTE
        elif cell_value >= 1:
            unit_largest = DurationUnits.SECOND
        else:
            unit_largest = DurationUnits.MILLISECOND
""", """        for threshold, unit in ((SECONDS_IN_WEEK, DurationUnits.WEEK), (SECONDS_IN_DAY, DurationUnits.DAY), (SECONDS_IN_HOUR, DurationUnits.HOUR), (60, DurationUnits.MINUTE), (1, DurationUnits.SECOND)):
            if cell_value >= threshold:
                unit_largest = unit
                break
        else:
            unit_largest = DurationUnits.MILLISECOND
"""),
    M("scanner-doubled-quote-advances-one", "cell.py", "            if chars[index + 1] == \"'\":\n                result += \"'\"\n                index += 2\n            elif in_string:\n                in_string = False\n                index += 1\n            else:\n                in_string = True\n                if in_field:\n                    result += _decode_date_format_field",
      "            if chars[index + 1] == \"'\":\n                result += \"'\"\n                index += 1\n            elif in_string:\n                in_string = False\n                index += 1\n            else:\n                in_string = True\n                if in_field:\n                    result += _decode_date_format_field", "C14.R5"),
    M("scanner-quote-keeps-field-open", "cell.py", "                in_string = True\n                if in_field:\n                    result += _decode_date_format_field(field, value)\n                    in_field = False\n                index += 1",
      "                in_string = True\n                index += 1", "C14.R5"),
    M("scanner-literal-before-field", "cell.py", "        elif not current_char.isalpha():\n            if in_field:\n                result += _decode_date_format_field(field, value)\n                in_field = False\n            result += current_char",
      "        elif not current_char.isalpha():\n            result += current_char\n            if in_field:\n                result += _decode_date_format_field(field, value)\n                in_field = False", "C14.R5"),
    M("scanner-open-field-dropped-at-end", "cell.py", "    if in_field:\n        result += _decode_date_format_field(field, value)\n\n    return result\n\n\ndef _decode_text_format", "    return result\n\n\ndef _decode_text_format", "C14.R5"),
    T("scanner-index-advanced-once", "cell.py", "        elif in_field:\n            field += current_char\n            index += 1\n        else:\n            in_field = True\n            field = current_char\n            index += 1",
      "        else:\n            field = field + current_char if in_field else current_char\n            in_field = True\n            index += 1"),
    M("F-day-floordiv-7", "constants.py", "n_days = int((value - value.replace(day=1)).days / 7) + 1", "n_days = value.day // 7 + 1", "C14.R3"),
    T("F-day-minus-one", "constants.py", "n_days = int((value - value.replace(day=1)).days / 7) + 1", "n_days = (value.day - 1) // 7 + 1"),
    M("date-format-bypass", "cell.py", "            format_uuid = NumbersUUID(date_format.custom_uid).hex\n            format_map = self._model.custom_format_map()\n",
      "            format_uuid = NumbersUUID(date_format.custom_uid).hex\n            format_map = self._model.custom_format_map()\n            if format_uuid not in format_map:\n                return str(self.value)\n", "C14.R1"),
    M("day-of-year-no-leap", "constants.py", "    return value.timetuple().tm_yday", "    return [0, 31, 59, 90, 120, 151, 181, 212, 243, 273, 304, 334][value.month - 1] + value.day", "C14.R3"),
    T("day-of-year-ordinal", "constants.py", "    return value.timetuple().tm_yday", "    return int(value.strftime(\"%j\"))"),
    M("revert-fix-k-replace", "constants.py", '("k", lambda x: str(x.hour or 24)),', '("k", lambda x: str(x.hour).replace("0", "24")),', "C14.R3"),
    M("KK-mod-24", "constants.py", '("KK", lambda x: str(x.hour % 12).zfill(2)),', '("KK", lambda x: str(x.hour % 24).zfill(2)),', "C14.R3"),
    M("mm-zfill-1", "constants.py", '("mm", lambda x: str(x.minute).zfill(2)),', '("mm", lambda x: str(x.minute).zfill(1)),', "C14.R3"),
    M("a-removed", "constants.py", '        ("a", lambda x: x.strftime("%p").lower()),\n', "", "C14.R1"),
    M("a-noon-am", "constants.py", '("a", lambda x: x.strftime("%p").lower()),', '("a", lambda x: "am" if x.hour <= 12 else "pm"),', "C14.R3"),
    M("hh-24h", "constants.py", '("hh", "%I"),', '("hh", "%H"),', "C14.R2"),
    M("SSS-last-digits", "constants.py", '("SSS", lambda x: str(x.microsecond).zfill(6)[0:3]),', '("SSS", lambda x: str(x.microsecond).zfill(6)[3:6]),', "C14.R3"),
    M("S-no-zfill", "constants.py", '("S", lambda x: str(x.microsecond).zfill(6)[0]),', '("S", lambda x: str(x.microsecond)[0]),', "C14.R3"),
    M("DD-three", "constants.py", '("DD", lambda x: str(_day_of_year(x)).zfill(2)),', '("DD", lambda x: str(_day_of_year(x)).zfill(3)),', "C14.R3"),
    M("ms-wrapped", "cell.py", "            dd = int(round(1000 * d))", "            dd = int(round(1000 * d)) % 1000", "C14.R4"),
    M("hour-divisor", "cell.py", "            dd = int(d / SECONDS_IN_HOUR)\n            if unit_smallest > DurationUnits.HOUR:\n                d -= SECONDS_IN_HOUR * dd", "            dd = int(d / SECONDS_IN_HOUR)\n            if unit_smallest > DurationUnits.HOUR:\n                d -= SECONDS_IN_DAY * dd", "C14.R4"),
    M("week-constant", "constants.py", "SECONDS_IN_WEEK = SECONDS_IN_DAY * 7", "SECONDS_IN_WEEK = SECONDS_IN_DAY * 5", "C14.R4"),
    T("k-conditional", "constants.py", '("k", lambda x: str(x.hour or 24)),', '("k", lambda x: str(24 if x.hour == 0 else x.hour)),'),
    T("mm-format-spec", "constants.py", '("mm", lambda x: str(x.minute).zfill(2)),', '("mm", lambda x: f"{x.minute:02d}"),'),
    T("s-strftime", "constants.py", '("s", lambda x: str(x.second)),', '("s", lambda x: str(int(x.strftime("%S")))),'),
]

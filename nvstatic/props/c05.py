"""C05 — IWA archive decoding and encoding are mutually inverse and chunking-independent."""

from __future__ import annotations

import ast

from .. import cfg as cfgmod
from ..bytelayout import int_weights, layout
from ..core import AnalysisError, U, body_walk, call_name, last_attr, try_const
from ..linear import Lin, lin
from ..selftest import M, T

EXPLANATION = (
    "framing agreement between IWACompressedChunk.to_buffer, _decompress_all and is_iwa_file, read through an abstract "
    "byte layout (which header byte carries which byte of the payload length) and linear forms of every slice bound; "
    "slice-pair consumption of the chunker and of the message splitter; symbolic straight-line evaluation of the header "
    "cursor; order of length refresh vs header serialisation; symbolic sequence of the emitted segment; decoding over the "
    "join of all chunks"
)
TRUSTED = ["python ast", "linear forms", "abstract byte layout of pack/unpack/to_bytes/from_bytes", "protobuf/snappy runtime behaviour (byte identity of re-serialisation is not decided)"]

MAX_CHUNK = 65536
HEADER = 4


def _eq(a, b):
    return a is not None and b is not None and (a - b).is_const() and (a - b).c == 0


def _canon(l, aliases):
    """Replace alias symbols (locals assigned from the length expression) by the canonical symbol LEN."""
    if l is None:
        return None
    out = l
    for a in aliases:
        if a in out.t:
            out = out.subst(a, Lin(0, {"LEN": 1}))
    return out


class _FoldWindows(ast.NodeTransformer):
    """``X[a:b][i]`` -> ``X[a + i]`` and ``X[a:b][c:]`` -> ``X[a + c:b]`` for a window that starts at a (symbolic, non-negative)
    cursor: inside a frame parser the cursor starts at 0 and only grows."""

    def visit_Subscript(self, node):
        self.generic_visit(node)
        v, sl = node.value, node.slice
        if isinstance(v, ast.Subscript) and isinstance(v.slice, ast.Slice) and v.slice.step is None and v.slice.lower is not None and v.slice.upper is not None:
            a = v.slice.lower
            if isinstance(sl, ast.Constant) and isinstance(sl.value, int) and not isinstance(sl.value, bool) and sl.value >= 0:
                return ast.Subscript(value=v.value, slice=ast.BinOp(left=a, op=ast.Add(), right=sl), ctx=node.ctx)
            if isinstance(sl, ast.Slice) and sl.step is None and sl.upper is None and isinstance(sl.lower, ast.Constant) and isinstance(sl.lower.value, int) and sl.lower.value >= 0:
                return ast.Subscript(value=v.value, slice=ast.Slice(lower=ast.BinOp(left=a, op=ast.Add(), right=sl.lower), upper=v.slice.upper, step=None), ctx=node.ctx)
        return node


def _implied(cond, outcome):
    """(atom, truth) pairs that hold when ``cond`` evaluates to ``outcome``"""
    if isinstance(cond, ast.UnaryOp) and isinstance(cond.op, ast.Not):
        yield from _implied(cond.operand, not outcome)
    elif isinstance(cond, ast.BoolOp) and ((isinstance(cond.op, ast.Or) and not outcome) or (isinstance(cond.op, ast.And) and outcome)):
        for v in cond.values:
            yield from _implied(v, outcome)
    else:
        yield cond, outcome


def frame_reader(repo, qual):
    """Facts about one of the two sibling frame parsers, read off the summary of one loop iteration.

    The loop either consumes its stream (``while data: ... data = data[k:]``: the frame is at offset 0 of what is left) or walks
    a cursor over it (``while pos < len(data): ... pos += k``: the frame is at ``pos``).  Every offset below is relative to
    the start of the frame; ``LEN`` stands for the decoded payload length."""
    from ..funsum import Summarizer
    f = repo.func("iwafile.py", qual)
    env = repo.consts
    data = f.args.args[-1].arg
    top = {}
    loop = None
    for st in f.body:
        if isinstance(st, ast.While):
            loop = st
            break
        if isinstance(st, ast.Assign) and len(st.targets) == 1 and isinstance(st.targets[0], ast.Name):
            top[st.targets[0].id] = st.value
    if loop is None:
        raise AnalysisError(f"{qual}: `while {data}:` loop not found")

    def is_len(e):
        if isinstance(e, ast.Name) and e.id in top:
            e = top[e.id]
        return U(e).replace(" ", "") == f"len({data})"

    t = loop.test
    pos = None
    if isinstance(t, ast.Name) and t.id == data:
        pass
    elif isinstance(t, ast.Compare) and len(t.ops) == 1:
        l_, r_ = t.left, t.comparators[0]
        if isinstance(t.ops[0], (ast.Lt, ast.NotEq)) and isinstance(l_, ast.Name) and is_len(r_):
            pos = l_.id
        elif isinstance(t.ops[0], (ast.Gt, ast.NotEq)) and isinstance(r_, ast.Name) and is_len(l_):
            pos = r_.id
    if not (isinstance(t, ast.Name) and t.id == data) and pos is None:
        raise AnalysisError(f"{qual}: `while {data}:` loop not found")
    info = {"func": f, "loop": loop, "pos": pos, "data": data, "top": top}
    B = Lin(0, {pos: 1}) if pos else Lin(0)
    src = {("base", data): B}
    paths = Summarizer(consts=env, effect_calls={"*"}).block_paths(loop.body)
    fold = lambda e: _FoldWindows().visit(ast.parse(U(e), mode="eval").body)  # noqa: E731
    going = [p for p in paths if p.kind in ("fall", "continue")]
    if not going:
        raise AnalysisError(f"{qual}: no path continues to the next frame")

    def values(p):
        out = [(k, fold(v)) for k, v in (p.env or {}).items() if not k.startswith("__") and isinstance(v, ast.AST)]
        out += [(k, fold(v)) for k, v, _n in p.effects if isinstance(v, ast.AST)]
        return out

    # ---- the length field: the outermost integer decode over bytes of the frame
    length_expr = None
    for p in going:
        for _k, v in values(p):
            for n in ast.walk(v):
                if isinstance(n, (ast.Subscript, ast.Call)) and int_weights(n, env, src) is not None:
                    if length_expr is None or (U(length_expr) != U(n) and U(length_expr) in U(n)):
                        length_expr = n
    if length_expr is None:
        raise AnalysisError(f"{qual}: payload length decode not recognised")
    ltxt = U(length_expr)
    info["length_expr"] = next((n for n in ast.walk(loop) if isinstance(n, (ast.Subscript, ast.Call)) and ("unpack" in U(n) or "from_bytes" in U(n))), loop)
    info["weights"] = int_weights(length_expr, env, src)
    info["hname"] = data

    def L(e):
        """linear form relative to the start of the frame, LEN for the decoded length"""
        e2 = ast.parse(U(e).replace(ltxt, "LEN"), mode="eval").body
        l_ = lin(e2, env)
        return None if l_ is None else l_ - B

    # ---- marker: what must hold of byte 0 on every path that goes on
    marker, mnode = None, None
    for p in going:
        got = None
        for c, o in p.conds:
            for a, truth in _implied(fold(c), o):
                if isinstance(a, ast.Compare) and len(a.ops) == 1 and isinstance(a.ops[0], (ast.Eq, ast.NotEq)) and isinstance(a.left, ast.Subscript) \
                        and not isinstance(a.left.slice, ast.Slice) and U(a.left.value) == data:
                    k = try_const(a.comparators[0], env)
                    idx = L(a.left.slice)
                    if isinstance(k, int) and not isinstance(k, bool) and idx is not None and idx.is_const() and idx.c == 0 and isinstance(a.ops[0], ast.Eq) == truth:
                        got = k
        if got is None or (marker is not None and got != marker):
            marker = None
            break
        marker = got
    info["marker"] = marker
    info["marker_node"] = next((n for n in ast.walk(loop) if isinstance(n, ast.Compare) and isinstance(n.ops[0], (ast.Eq, ast.NotEq))
                                and isinstance(try_const(n.comparators[0], env), int)), loop)
    used = {0} | {b[2] for b in (info["weights"] or {}) if b[0] == "src"}
    info["header_size"] = max(used) + 1 if used == set(range(max(used) + 1)) else sorted(used)
    info["header_node"] = loop

    # ---- payload window and advance, the same on every path that goes on
    info["chunk"] = info["advance"] = None
    chunk_set, adv_set = set(), set()
    for p in going:
        for _k, v in values(p):
            for n in ast.walk(ast.parse(U(v).replace(ltxt, "LEN"), mode="eval").body):
                if isinstance(n, ast.Subscript) and U(n.value) == data and isinstance(n.slice, ast.Slice) and n.slice.lower is not None and n.slice.upper is not None:
                    lo, hi = L(n.slice.lower), L(n.slice.upper)
                    if lo is not None and hi is not None and ("LEN" in lo.t or "LEN" in hi.t):
                        chunk_set.add((str(lo), str(hi)))
                        info["chunk"] = (lo, hi, loop)
        fin = (p.env or {}).get(pos or data)
        if fin is None:
            adv_set.add("none")
            continue
        fin = fold(fin)
        if pos:
            a = L(fin)
            adv_set.add(str(a))
            info["advance"] = (a, loop)
        else:
            if isinstance(fin, ast.Subscript) and U(fin.value) == data and isinstance(fin.slice, ast.Slice) and fin.slice.upper is None and fin.slice.lower is not None:
                a = L(fin.slice.lower)
                adv_set.add(str(a))
                info["advance"] = (a, loop)
            else:
                adv_set.add("?" + U(fin)[:40])
    if len(adv_set) != 1:
        info["advance"] = None
    if len(chunk_set) > 1:
        info["chunk"] = (None, None, loop)

    # ---- running totals, remaining-bytes counters and bound checks (is_iwa_file)
    info["acc"], info["dec"], info["bound_guards"] = [], [], []
    for p in going:
        for k, v in (p.env or {}).items():
            if k.startswith("__") or k in (data, pos) or not isinstance(v, ast.AST):
                continue
            e2 = ast.parse(U(fold(v)).replace(ltxt, "LEN"), mode="eval").body
            l_ = lin(e2, env)
            if l_ is not None and l_.t.get(k) == 1:
                d = l_ - Lin(0, {k: 1})
                if k not in d.t and "LEN" in d.t:
                    (info["acc"] if d.t["LEN"] > 0 else info["dec"]).append((k, d if d.t["LEN"] > 0 else d.scale(-1), loop))
    for p in paths:
        if p.kind == "return" and p.ret is not None and try_const(p.ret, default=None) is False and p.conds:
            c, o = p.conds[-1]
            tests = []
            c = fold(c)
            if o and isinstance(c, ast.BoolOp) and isinstance(c.op, ast.Or):
                tests = list(c.values)
            elif o:
                tests = [c]
            for t_ in tests:
                if isinstance(t_, ast.Compare) and len(t_.ops) == 1 and isinstance(t_.ops[0], (ast.Gt, ast.Lt)):
                    a_ = lin(ast.parse(U(t_.left).replace(ltxt, "LEN"), mode="eval").body, env)
                    b_ = lin(ast.parse(U(t_.comparators[0]).replace(ltxt, "LEN"), mode="eval").body, env)
                    if a_ is not None and b_ is not None:
                        info["bound_guards"].append((a_ - b_) if isinstance(t_.ops[0], ast.Gt) else (b_ - a_))
    return info


def chunker_facts(tb, env):
    """Recognise the chunking of the uncompressed stream in ``to_buffer``.

    Shapes: ``while x: emit(x[:N]); x = x[N:]`` and a loop/comprehension over
    ``range(0, len(x), N)`` emitting ``x[o : o + N]``."""
    out = {"emit": None, "advance": None, "covers": False, "node": tb, "shape": "?", "why": "", "ordered": False}
    loops = [n for n in body_walk(tb) if isinstance(n, ast.While)]
    if loops:
        loop = loops[0]
        var = U(loop.test)
        emit = adv = None
        for n in ast.walk(loop):
            if isinstance(n, ast.Subscript) and U(n.value) == var and isinstance(n.slice, ast.Slice):
                if n.slice.lower is None and n.slice.upper is not None:
                    emit = (try_const(n.slice.upper, env), n)
                if n.slice.lower is not None and n.slice.upper is None:
                    adv = (try_const(n.slice.lower, env), n)
        reassigned = adv is not None and any(isinstance(n, ast.Assign) and U(n.targets[0]) == var and n.value is adv[1] for n in loop.body)
        out.update(emit=emit and emit[0], advance=adv and adv[0], covers=bool(reassigned), node=loop, shape="while-loop",
                   ordered=any(isinstance(n, ast.Call) and last_attr(n.func) == "append" and "compress" in U(n) for n in ast.walk(loop)))
        if not reassigned:
            out["why"] = "the remainder is not assigned back to the loop variable"
        return out
    for n in body_walk(tb):
        gens = []
        if isinstance(n, (ast.ListComp, ast.GeneratorExp)):
            gens = [(g.target, g.iter, n.elt) for g in n.generators]
        elif isinstance(n, ast.For):
            gens = [(n.target, n.iter, n)]
        for tgt, it, body in gens:
            if isinstance(it, ast.Call) and call_name(it) == "range" and isinstance(tgt, ast.Name):
                a = it.args
                start = try_const(a[0], env) if len(a) >= 2 else 0
                stop = a[1] if len(a) >= 2 else a[0]
                step = try_const(a[2], env) if len(a) == 3 else 1
                for sub in ast.walk(body):
                    if isinstance(sub, ast.Subscript) and isinstance(sub.slice, ast.Slice) and sub.slice.lower is not None and sub.slice.upper is not None \
                            and U(sub.slice.lower) == tgt.id:
                        hi = lin(sub.slice.upper, env)
                        lo = lin(sub.slice.lower, env)
                        width = (hi - lo) if hi is not None and lo is not None else None
                        w = width.c if width is not None and width.is_const() else None
                        x = U(sub.value)
                        covers = start == 0 and U(stop).replace(" ", "") == f"len({x})"
                        out.update(emit=w, advance=step, covers=covers, node=n, shape="range-loop", ordered=True)
                        if not covers:
                            out["why"] = (f"offsets run over range({start}, {U(stop)}, {step}) instead of range(0, len({x}), {step}): "
                                          "the tail of the stream is not emitted for some lengths")
                        return out
    neg = _negative_zero_slice(tb)
    if neg is not None:
        call, e_txt = neg
        out.update(node=call, shape="unrecognised", why=f"`{U(call)}`: `[-{e_txt}:]` is the whole stream when {e_txt} == 0 (a length that is an exact multiple of the chunk "
                   "size): the complete stream is appended again as one oversized chunk")
        return out
    site = _unbounded_compress_site(tb, env)
    if site is not None:
        call, var = site
        out.update(node=call, shape="unrecognised", why=f"`{U(call)}`: nothing bounds len({var}) at this call (no slice of at most {MAX_CHUNK} bytes, no loop "
                   f"that drains `{var}` below the limit): a chunk can carry more than 64 KiB")
        return out
    raise AnalysisError("IWACompressedChunk.to_buffer: chunking of the stream not recognised")


def _negative_zero_slice(tb):
    """A ``compress(x[-E:])`` whose count E is not known to be positive where the call runs."""
    for call in [n for n in body_walk(tb) if isinstance(n, ast.Call) and last_attr(n.func) == "compress" and n.args]:
        a = call.args[0]
        if isinstance(a, ast.Subscript) and isinstance(a.slice, ast.Slice) and a.slice.upper is None and isinstance(a.slice.lower, ast.UnaryOp) \
                and isinstance(a.slice.lower.op, ast.USub) and not isinstance(a.slice.lower.operand, ast.Constant):
            e_txt = U(a.slice.lower.operand)
            guarded = False
            p = call
            while getattr(p, "_parent", None) is not None and p is not tb:
                prev, p = p, p._parent
                if isinstance(p, ast.If) and any(prev is x for x in p.body):
                    t = U(p.test).replace(" ", "")
                    if t in (e_txt, f"{e_txt}>0", f"{e_txt}!=0", f"{e_txt}>=1", f"0<{e_txt}"):
                        guarded = True
            if not guarded:
                return call, e_txt
    return None


def _unbounded_compress_site(tb, env):
    """A ``compress(v)`` call whose argument is a plain variable that grows by concatenation and whose length no
    loop test or guard in the function ever compares: the chunk size is unbounded whatever the rest does."""
    for call in [n for n in body_walk(tb) if isinstance(n, ast.Call) and last_attr(n.func) == "compress" and n.args]:
        a = call.args[0]
        if not isinstance(a, ast.Name):
            continue
        var = a.id
        grows = any((isinstance(n, ast.AugAssign) and isinstance(n.op, ast.Add) and U(n.target) == var)
                    or (isinstance(n, ast.Assign) and U(n.targets[0]) == var and isinstance(n.value, ast.Subscript)
                        and isinstance(n.value.slice, ast.Slice) and n.value.slice.upper is None)
                    or (isinstance(n, ast.Assign) and U(n.targets[0]) == var and isinstance(n.value, ast.Call) and last_attr(n.value.func) == "join")
                    for n in body_walk(tb))
        if not grows:
            continue
        # guards that hold at the call: enclosing while tests, and while loops that finished before it on the same level
        bounded = False
        for n in body_walk(tb):
            if isinstance(n, ast.While) and f"len({var})" in U(n.test):
                inside = any(x is call for x in ast.walk(n))
                after = not inside and n.end_lineno < call.lineno
                if after:
                    bounded = True  # the loop ran until its test failed: left for the entailment-based shapes
                if inside:
                    bounded = True
            if isinstance(n, ast.If) and f"len({var})" in U(n.test) and any(x is call for x in ast.walk(n)):
                # `if len(v) <= N:` around the call itself
                bounded = True
        if not bounded:
            return call, var
    return None


def joined_sequence(func, expr):
    """Symbolic element sequence of a ``b"".join(X)`` argument: item texts and ("each", elt, iterable) entries."""

    def seq(e):
        if isinstance(e, (ast.List, ast.Tuple)):
            return [U(x) for x in e.elts]
        if isinstance(e, ast.BinOp) and isinstance(e.op, ast.Add):
            a, b = seq(e.left), seq(e.right)
            return None if a is None or b is None else a + b
        if isinstance(e, (ast.ListComp, ast.GeneratorExp)) and len(e.generators) == 1 and not e.generators[0].ifs:
            g = e.generators[0]
            if isinstance(g.target, ast.Name):
                return [("each", _rename(e.elt, g.target.id), U(g.iter))]
            return None
        if isinstance(e, ast.Name):
            items = None
            for st in func.body:
                if isinstance(st, ast.Assign) and U(st.targets[0]) == e.id:
                    items = seq(st.value)
                elif items is not None and isinstance(st, ast.For) and isinstance(st.target, ast.Name):
                    for c in ast.walk(st):
                        if isinstance(c, ast.Call) and last_attr(c.func) == "append" and U(c.func.value) == e.id and len(c.args) == 1:
                            if any(isinstance(x, (ast.If, ast.Continue, ast.Break)) for x in ast.walk(st)):
                                return None
                            items.append(("each", _rename(c.args[0], st.target.id), U(st.iter)))
                elif items is not None and isinstance(st, ast.Expr) and isinstance(st.value, ast.Call) and last_attr(st.value.func) in ("append", "extend") \
                        and U(st.value.func.value) == e.id:
                    if last_attr(st.value.func) == "append":
                        items.append(U(st.value.args[0]))
                    else:
                        sub = seq(st.value.args[0])
                        if sub is None:
                            return None
                        items += sub
            return items
        return None

    return seq(expr)


def _rename(expr, var):
    """Text of ``expr`` with the loop variable renamed to ``_``."""
    import copy

    e = copy.deepcopy(expr)
    for n in ast.walk(e):
        if isinstance(n, ast.Name) and n.id == var:
            n.id = "_"
    return U(e)


def _symbolic_cursor(func, env, want_slice):
    """Straight-line symbolic evaluation of the top-level statements of ``func``.
    Returns (state at the statement containing ``want_slice``, final state)."""
    cur = {}
    at = None
    for st in func.body:
        if want_slice is not None and at is None and any(want_slice is x for x in ast.walk(st)):
            at = dict(cur)
        if isinstance(st, ast.Assign) and len(st.targets) == 1:
            t = st.targets[0]
            if isinstance(t, ast.Name):
                l = lin(st.value, env)
                if l is not None:
                    for s, v in cur.items():
                        if s in l.t:
                            l = l.subst(s, v)
                    cur[t.id] = l
            elif isinstance(t, ast.Tuple) and isinstance(st.value, ast.Call) and last_attr(st.value.func) == "_DecodeVarint32" and len(t.elts) == 2:
                cur[U(t.elts[0])] = Lin(0, {"VARINT_VALUE": 1})
                cur[U(t.elts[1])] = Lin(0, {"VARINT_END": 1})
        elif isinstance(st, ast.AugAssign) and isinstance(st.target, ast.Name) and st.target.id in cur and isinstance(st.op, (ast.Add, ast.Sub)):
            l = lin(st.value, env)
            if l is not None:
                for s, v in cur.items():
                    if s in l.t:
                        l = l.subst(s, v)
                cur[st.target.id] = cur[st.target.id] + l if isinstance(st.op, ast.Add) else cur[st.target.id] - l
    return at if at is not None else dict(cur), cur


def _subst_all(l, state):
    if l is None:
        return None
    for s, v in state.items():
        if s in l.t:
            l = l.subst(s, v)
    return l


def run(repo, rep, tier):
    env = repo.consts
    # ---------------- writer
    tb = repo.func("iwafile.py", "IWACompressedChunk.to_buffer")
    nf = _writer_normal_form(repo, tb, env)
    if nf is not None:
        # the writer returns b"".join([F(b) for b in chunks(stream, N)]): the blocks cover the stream once and in order by construction
        marker = nf["marker"]
        rep.ob("C05.R1", tb, f"writer frame header bytes {nf['hdr']} + {nf['payload']}", True, "", key="C05.R1@writer:frame")
    else:
        marker = _writer_by_shape(repo, rep, tb, env)
    _readers(repo, rep, env, marker)
    if nf is not None:
        rep.ob("C05.R2", tb, f"chunker (normal form) emits {nf['n']} bytes per chunk and advances by {nf['n']}; covers the stream: True", True, "", key="C05.R2@chunker:consume")
        rep.ob("C05.R2", tb, f"chunk payload <= {MAX_CHUNK} bytes", True, "", key="C05.R2@chunker:max")
        rep.ob("C05.R2", tb, "chunks emitted in stream order, each compressed separately", True, "", key="C05.R2@chunker:order")
        rep.ob("C05.R2", tb, "every chunk payload is snappy.compress(block) (normal form)", True, "", key="C05.R2@chunker:always-compressed")
        rep.ob("C05.R2", tb, "stream = join of archive buffers in order", nf["stream_ok"], "" if nf["stream_ok"] else f"the stream cut into chunks is `{nf['stream']}`", key="C05.R2@stream:join")
    else:
        _chunker_by_shape(repo, rep, tb, env)
    _rest(repo, rep, env)


def _writer_normal_form(repo, tb, env):
    """The writer as ``b"".join([F(b) for b in chunks(stream, N)])`` with 0 < N <= 64 KiB and F(b) = 0x00 + 3 little-endian bytes of
    len(P) + P, P = snappy.compress(b); None when it is not of that form (the shape recognisers then name what is wrong)."""
    from ..streamform import normal_form
    helpers = {n.name: n for n in repo.tree("iwafile.py").body if isinstance(n, ast.FunctionDef)}
    nf = normal_form(repo, tb, helpers)
    if nf is None:
        return None
    stream, n, elt, var = nf
    nv = try_const(n, env)
    if not (isinstance(nv, int) and not isinstance(nv, bool) and 0 < nv <= MAX_CHUNK):
        return None
    ops = []

    def flat(e):
        if isinstance(e, ast.BinOp) and isinstance(e.op, ast.Add):
            flat(e.left)
            flat(e.right)
        else:
            ops.append(e)

    flat(elt)
    if len(ops) < 2:
        return None
    payload = ops[-1]
    if not (isinstance(payload, ast.Call) and last_attr(payload.func) == "compress" and U(payload.func) in ("snappy.compress", "compress") and len(payload.args) == 1
            and not payload.keywords and U(payload.args[0]) == var):
        return None
    lay = []
    for o in ops[:-1]:
        l_ = layout(o, env)
        if l_ is None:
            return None
        lay += l_
    ltxt = f"len({U(payload)})"
    if lay != [("const", 0), ("int", ltxt, 0), ("int", ltxt, 1), ("int", ltxt, 2)]:
        return None
    s_txt = U(stream)
    import re as _re
    stream_ok = bool(_re.fullmatch(r"b''\.join\(\[(\w+)\.to_buffer\(\) for \1 in self\.archives\]\)", s_txt))
    return {"n": nv, "marker": 0, "hdr": lay, "payload": U(payload), "stream": s_txt, "stream_ok": stream_ok}


def _writer_by_shape(repo, rep, tb, env):
    chains = []
    for n in ast.walk(tb):
        if isinstance(n, ast.BinOp) and isinstance(n.op, ast.Add) and not (isinstance(getattr(n, "_parent", None), ast.BinOp) and isinstance(n._parent.op, ast.Add)):
            ops = []

            def flat(e):
                if isinstance(e, ast.BinOp) and isinstance(e.op, ast.Add):
                    flat(e.left)
                    flat(e.right)
                else:
                    ops.append(e)

            flat(n)
            chains.append((n, ops))
    frame = hdr_layout = payload = None
    for n, ops in chains:
        if len(ops) >= 2 and isinstance(ops[-1], ast.Name):
            lay = []
            for o in ops[:-1]:
                l = layout(o, env)
                if l is None:
                    lay = None
                    break
                lay += l
            if lay is not None:
                frame, hdr_layout, payload = n, lay, ops[-1]
    if frame is None:
        raise AnalysisError("IWACompressedChunk.to_buffer: frame expression `<header bytes> + payload` not found")
    Ltxt = f"len({U(payload)})"
    want = [("const", 0), ("int", Ltxt, 0), ("int", Ltxt, 1), ("int", Ltxt, 2)]
    marker = hdr_layout[0][1] if hdr_layout and hdr_layout[0][0] == "const" else None
    okw = hdr_layout == want
    rep.ob("C05.R1", frame, f"writer frame header bytes {hdr_layout} + {U(payload)}", okw,
           "" if okw else f"the 4 header bytes must be marker 0x00 followed by the low 3 bytes of {Ltxt}, little-endian; found {hdr_layout}: "
           "payloads whose length does not fit the field written are framed with a wrong length", key="C05.R1@writer:frame")
    return marker


def _readers(repo, rep, env, marker):
    readers = {}
    for qual in ("IWACompressedChunk._decompress_all", "is_iwa_file"):
        r = frame_reader(repo, qual)
        readers[qual] = r
        f = r["func"]
        short = qual.split(".")[-1]
        ok = r["header_size"] == HEADER
        rep.ob("C05.R1", r.get("header_node", f), f"{short}: header is 4 bytes", ok, f"header slice is [:{r['header_size']}]", key=f"C05.R1@{short}:header-size")
        ok = r["marker"] is not None and r["marker"] == marker
        rep.ob("C05.R1", r.get("marker_node", f), f"{short}: marker byte {r['marker']} equals the writer's {marker}", ok, "", key=f"C05.R1@{short}:marker")
        hname = r["hname"]
        want_w = {("src", hname, 1): 1, ("src", hname, 2): 256, ("src", hname, 3): 65536}
        ok = r["weights"] == want_w
        rep.ob("C05.R1", r["length_expr"], f"{short}: length = header[1] + header[2]<<8 + header[3]<<16", ok,
               "" if ok else f"reader decodes the length with byte weights {r['weights']}: disagrees with the writer's 3-byte little-endian length",
               key=f"C05.R1@{short}:length-decode")
        H = Lin(HEADER)
        LEN = Lin(0, {"LEN": 1})
        if r["chunk"] is not None:
            lo, hi, node = r["chunk"]
            ok = _eq(lo, H) and _eq(hi, H + LEN)
            rep.ob("C05.R1", node, f"{short}: payload is data[4 : 4 + length]", ok, "" if ok else f"payload slice is [{lo} : {hi}] (as `>= 0` forms): not the `length` bytes after the header", key=f"C05.R1@{short}:payload-slice")
        elif short == "_decompress_all":
            rep.ob("C05.R1", f, f"{short}: payload is data[4 : 4 + length]", False, "payload slice not found", key=f"C05.R1@{short}:payload-slice")
        if r["advance"] is not None:
            lo, node = r["advance"]
            ok = _eq(lo, H + LEN)
            rep.ob("C05.R1", node, f"{short}: advances by 4 + length", ok, "" if ok else f"the next frame is looked for at {lo} (as a `>= 0` form)", key=f"C05.R1@{short}:advance")
        else:
            rep.ob("C05.R1", f, f"{short}: advances by 4 + length", False, "advance not found", key=f"C05.R1@{short}:advance")
    sn = readers["is_iwa_file"]
    FRAME = Lin(HEADER, {"LEN": 1})
    # form (a): a running total of 4 + length is compared with the data length at the end
    ok = any(_eq(v, FRAME) for _, v, _ in sn["acc"])
    ret = [n for n in body_walk(sn["func"]) if isinstance(n, ast.Return) and isinstance(n.value, ast.Compare)]
    ok = ok and bool(ret) and isinstance(ret[0].value.ops[0], ast.Eq)
    if not ok and sn["pos"]:
        # form (c): a cursor starts at 0, moves by 4 + length per frame while it is short of len(data), and must land on it
        fn = sn["func"]
        posv, top_ = sn["pos"], sn["top"]
        tail = fn.body[-1]
        lands = False
        if isinstance(tail, ast.Return) and isinstance(tail.value, ast.Compare) and len(tail.value.ops) == 1 and isinstance(tail.value.ops[0], ast.Eq):
            a_, b_ = tail.value.left, tail.value.comparators[0]
            for x_, y_ in ((a_, b_), (b_, a_)):
                y2 = top_.get(y_.id, y_) if isinstance(y_, ast.Name) else y_
                if U(x_) == posv and U(y2).replace(" ", "") == f"len({sn['data']})":
                    lands = True
        starts0 = posv in top_ and try_const(top_[posv], default=None) == 0
        moved = sn["advance"] is not None and _eq(sn["advance"][0], FRAME)
        stores = [n for n in ast.walk(sn["loop"]) if isinstance(n, ast.Name) and isinstance(n.ctx, ast.Store) and n.id in (sn["data"],) + tuple(k for k, v in top_.items() if "len(" in U(v))]
        ok = lands and starts0 and moved and not stores
    if not ok:
        # form (b): a count of the bytes still to come starts at len(data), every frame is refused when 4 + length
        # exceeds it and is subtracted from it otherwise (the loop ends exactly when the data is used up)
        fn = sn["func"]
        data_p = fn.args.args[0].arg
        for var, v, node in sn["dec"]:
            init = [n for n in fn.body if isinstance(n, ast.Assign) and len(n.targets) == 1 and U(n.targets[0]) == var and U(n.value).replace(" ", "") == f"len({data_p})"]
            guard = any(_eq(g, FRAME - Lin(0, {var: 1})) for g in sn["bound_guards"])
            tail = fn.body[-1]
            ends_true = isinstance(tail, ast.Return) and try_const(tail.value, default=None) is True
            if _eq(v, FRAME) and len(init) == 1 and guard and ends_true:
                ok = True
    rep.ob("C05.R1", sn["func"], "is_iwa_file: total of (4 + length) over frames equals the data length", ok,
           "" if ok else "neither a running total compared with len(data) nor a remaining-bytes count with a bound check was found", key="C05.R1@is_iwa_file:total")

    # each chunk is decoded on its own: nothing but the remaining stream is carried from one chunk to the next
    da = repo.func("iwafile.py", "IWACompressedChunk._decompress_all")
    wl = [n for n in body_walk(da) if isinstance(n, ast.While)]
    if len(wl) != 1:
        raise AnalysisError("_decompress_all: the chunk loop not found")
    lp = wl[0]
    stream = U(lp.test) if isinstance(lp.test, ast.Name) else None
    assigned = {}
    for n in ast.walk(lp):
        if isinstance(n, ast.Name) and isinstance(n.ctx, ast.Store):
            pos = (n.lineno, n.col_offset)
            assigned[n.id] = min(assigned.get(n.id, pos), pos)
    carried = []
    for n in ast.walk(lp):
        if isinstance(n, ast.Name) and isinstance(n.ctx, ast.Load) and n.id in assigned and n.id != stream:
            # read at a position before its first assignment in the body: the value comes from an earlier iteration
            if (n.lineno, n.col_offset) < assigned[n.id] and n.lineno > lp.lineno:
                carried.append(n.id)
        if isinstance(n, ast.Name) and isinstance(n.ctx, ast.Load) and n.id in assigned and n.id != stream and n.lineno == lp.lineno:
            carried.append(n.id)
    for n in ast.walk(lp):
        if isinstance(n, (ast.Assign, ast.AugAssign)):
            for t in (n.targets if isinstance(n, ast.Assign) else [n.target]):
                if isinstance(t, ast.Attribute) and isinstance(t.value, ast.Name) and t.value.id in ("cls", "self"):
                    carried.append(U(t))
    rep.ob("C05.R1", lp, f"_decompress_all: only the remaining stream `{stream}` is carried from one chunk to the next", not carried and stream is not None,
           "" if not carried else f"{sorted(set(carried))} keep a value from an earlier chunk: how a chunk is decoded depends on the chunks before it (a stored chunk "
           "followed by a compressed one is passed through raw)", key="C05.R1@_decompress_all:independent")



def _chunker_by_shape(repo, rep, tb, env):
    ch = chunker_facts(tb, env)
    ok = ch["emit"] is not None and ch["emit"] == ch["advance"] and ch["covers"]
    rep.ob("C05.R2", ch["node"], f"chunker ({ch['shape']}) emits {ch['emit']} bytes per chunk and advances by {ch['advance']}; covers the stream: {ch['covers']}", ok,
           "" if ok else ch["why"] or "emitted slice and advance differ: bytes are dropped or duplicated at every chunk boundary", key="C05.R2@chunker:consume")
    ok = isinstance(ch["emit"], int) and 0 < ch["emit"] <= MAX_CHUNK
    rep.ob("C05.R2", ch["node"], f"chunk payload <= {MAX_CHUNK} bytes", ok, "" if ok else f"chunk size {ch['emit']} exceeds the 64 KiB container rule (and may overflow the 3-byte length)", key="C05.R2@chunker:max")
    if ch["shape"] != "unrecognised":
        rep.ob("C05.R2", ch["node"], "chunks emitted in stream order, each compressed separately", ch["ordered"], "", key="C05.R2@chunker:order")
    # every chunk payload is the snappy compression of its block: the reader tells stored from compressed chunks only by
    # trying to decompress, so a block written raw is mis-read whenever its bytes happen to form a snappy stream
    from ..symexec import subst as _subst
    emitted = []
    for lp_ in [n for n in body_walk(tb) if isinstance(n, (ast.While, ast.For))]:
        env_l = {}
        for st_ in lp_.body:
            if isinstance(st_, ast.Assign) and len(st_.targets) == 1 and isinstance(st_.targets[0], ast.Name):
                env_l[st_.targets[0].id] = _subst(st_.value, env_l)
            for c_ in ast.walk(st_):
                if isinstance(c_, ast.Call) and last_attr(c_.func) == "append" and len(c_.args) == 1 and "compress" in U(_subst(c_.args[0], env_l)) + U(lp_):
                    emitted.append((c_, _subst(c_.args[0], env_l)))
    for n_ in body_walk(tb):
        if isinstance(n_, (ast.ListComp, ast.GeneratorExp)) and "compress" in U(n_.elt):
            emitted.append((n_, n_.elt))
    bad_e = [(c_, e_) for c_, e_ in emitted if not (isinstance(e_, ast.Call) and last_attr(e_.func) == "compress" and len(e_.args) == 1)]
    if ch["shape"] != "unrecognised":
        rep.ob("C05.R2", bad_e[0][0] if bad_e else (emitted[0][0] if emitted else tb), f"every chunk payload is snappy.compress(block) ({len(emitted)} emitting site(s))", bool(emitted) and not bad_e,
               "" if emitted and not bad_e else (f"`{U(bad_e[0][1])[:90]}` can write a block uncompressed: the reader decompresses whatever parses as a snappy stream, so such a block "
                                                   "(e.g. a final single zero byte) is read back as other bytes" if bad_e else "no emitting site found"), key="C05.R2@chunker:always-compressed")
    stream = None
    for st in tb.body:
        if isinstance(st, ast.Assign) and isinstance(st.value, ast.Call) and last_attr(st.value.func) == "join" and try_const(st.value.func.value) == b"":
            s = joined_sequence(tb, st.value.args[0])
            if s == [("each", "_.to_buffer()", "self.archives")]:
                stream = st
    if ch["shape"] != "unrecognised":
        rep.ob("C05.R2", stream or tb, "stream = join of archive buffers in order", stream is not None, "", key="C05.R2@stream:join")



def _check_registry(repo, rep):
    """A message is parsed with the schema registered for its type id: the id -> schema name pairs of the confirmed tree
    (nvstatic/reference/tables.json; the repository holds no second source for them) are unchanged; new ids may be added."""
    import json
    import os
    ref_path = os.path.join(os.path.dirname(os.path.dirname(os.path.abspath(__file__))), "reference", "tables.json")
    try:
        with open(ref_path, encoding="utf-8") as fh:
            ref = json.load(fh)["TSPRegistryMapping"]
    except (OSError, KeyError, ValueError) as e:
        raise AnalysisError(f"reference table of message types not readable: {e}") from e
    node = repo.module_assign("src/numbers_parser/generated/mapping.py", "TSPRegistryMapping")
    try:
        cur = {str(k): v for k, v in ast.literal_eval(node).items()}
    except Exception as e:  # noqa: BLE001
        raise AnalysisError(f"generated/mapping.py: TSPRegistryMapping is not a literal table ({e})") from e
    changed = [(i, ref[i], cur.get(i)) for i in sorted(ref, key=lambda x: int(x)) if cur.get(i) != ref[i]]
    detail = "; ".join(f"type id {i} is parsed as {c} (confirmed: {r})" for i, r, c in changed[:4])
    rep.ob("C05.R4", node, f"message schemas: the {len(ref)} confirmed type id -> schema pairs are unchanged", not changed,
           detail + (": fields the other schema does not know are re-emitted in another order, the message bytes change on re-encoding" if changed else ""),
           key="C05.R4@schema:registry")


def _rest(repo, rep, env):
    _check_registry(repo, rep)
    # ---------------- R3 header lengths refreshed before the header is serialised
    sb = repo.func("iwafile.py", "IWAArchiveSegment.to_buffer")
    g = cfgmod.build(sb)
    ok = pair_ok = False
    store = lp = None
    for cand in [n for n in body_walk(sb) if isinstance(n, ast.For)]:
        it = U(cand.iter).replace(" ", "")
        tg = [U(e) for e in cand.target.elts] if isinstance(cand.target, ast.Tuple) else []
        order = {"zip(self.objects,self.header.message_infos)": (0, 1), "zip(self.header.message_infos,self.objects)": (1, 0)}.get(it)
        if order is None or len(tg) != 2:
            continue
        lp, pair_ok = cand, True
        obj, info = tg[order[0]], tg[order[1]]
        for n in ast.walk(cand):
            if isinstance(n, ast.Assign) and U(n.targets[0]) == f"{info}.length":
                store = n
        if store is not None:
            v = U(store.value)
            defs = {U(a.targets[0]): U(a.value) for a in ast.walk(cand) if isinstance(a, ast.Assign)}
            v = defs.get(v, v)
            ok = v.replace(" ", "") in (f"len({obj}.SerializeToString())", f"{obj}.ByteSize()")
    rep.ob("C05.R3", lp or sb, "message_info.length := serialised size of the paired object", ok and pair_ok,
           "" if ok and pair_ok else "lengths are not refreshed from the objects, or objects and message_infos are not paired positionally", key="C05.R3@lengths:refresh")
    if store is not None:
        conds = [U(p.test).replace(" ", "") for p in _anc(store, lp) if isinstance(p, ast.If)]
        ok = all(("!=" in c and "length" in c) for c in conds)
        rep.ob("C05.R3", store, f"length refresh is unconditional or guarded only by `length differs` ({conds})", ok,
               "" if ok else "a stale length survives when the condition does not hold (for example only when the object grew)", key="C05.R3@lengths:condition")
    hdr_ser = [n for n in body_walk(sb) if isinstance(n, ast.Call) and U(n.func) == "self.header.SerializeToString"]
    ok = bool(hdr_ser) and store is not None and lp is not None and all(cfgmod.precedes_on_all_paths(sb, [lp], h) for h in hdr_ser) and \
        not any(g.paths_avoiding(g.node_of(h), g.node_of(store), set()) for h in hdr_ser if g.node_of(h) != g.node_of(store))
    rep.ob("C05.R3", hdr_ser[0] if hdr_ser else sb, "header serialised after the lengths are refreshed", ok,
           "" if ok else "a stale message length is written into the header", key="C05.R3@lengths:before-header")
    ret = [n for n in body_walk(sb) if isinstance(n, ast.Return) and n.value is not None]
    seqv = None
    if ret and isinstance(ret[-1].value, ast.Call) and last_attr(ret[-1].value.func) == "join" and try_const(ret[-1].value.func.value) == b"":
        seqv = joined_sequence(sb, ret[-1].value.args[0])
    want_seq = ["_VarintBytes(self.header.ByteSize())", "self.header.SerializeToString()", ("each", "_.SerializeToString()", "self.objects")]
    ok = seqv == want_seq
    rep.ob("C05.R3", ret[-1] if ret else sb, "segment = varint(header size) + header + objects in order", ok, "" if ok else f"emitted sequence is {seqv}", key="C05.R3@segment:layout")

    # ---------------- R4 chunk-boundary independence
    fb = repo.func("iwafile.py", "IWACompressedChunk.from_buffer")
    data = fb.args.args[1].arg
    joined = [n for n in body_walk(fb) if isinstance(n, ast.Assign) and isinstance(n.value, ast.Call) and last_attr(n.value.func) == "join"
              and try_const(n.value.func.value) == b"" and n.value.args and "_decompress_all(" in U(n.value.args[0])]
    ok = bool(joined)
    rep.ob("C05.R4", joined[0] if joined else fb, "segments are parsed from the join of all decompressed chunks", ok,
           "" if ok else "parsing a single chunk makes the result depend on where the stream was cut", key="C05.R4@join")
    jvar = U(joined[0].targets[0]) if joined else data
    loops = [n for n in body_walk(fb) if isinstance(n, ast.While)]
    ok = bool(loops) and U(loops[0].test) == jvar and any(
        isinstance(n, ast.Assign) and isinstance(n.targets[0], ast.Tuple) and len(n.targets[0].elts) == 2 and U(n.targets[0].elts[1]) == jvar
        and isinstance(n.value, ast.Call) and U(n.value.func) == "IWAArchiveSegment.from_buffer" and U(n.value.args[0]) == jvar for n in loops[0].body)
    rep.ob("C05.R4", fb, "segment loop continues on the remainder until the stream is empty", ok, "", key="C05.R4@segment-loop")
    sfb = repo.func("iwafile.py", "IWAArchiveSegment.from_buffer")
    # the message loop as a per-iteration summary: every completed iteration cuts one slice P[c : c + L] with L the length
    # the header gives for this message, and leaves the cursor c advanced by that same L
    from ..funsum import Summarizer as _Summ
    mls = [n for n in body_walk(sfb) if isinstance(n, ast.For) and U(n.iter).endswith("message_infos") and isinstance(n.target, ast.Name)]
    if len(mls) != 1:
        raise AnalysisError("IWAArchiveSegment.from_buffer: message loop not found")
    ml = mls[0]
    mi_ = ml.target.id
    Lw = lin(ast.parse(f"{mi_}.length", mode="eval").body, env)
    cut_ok, why_cut, cursor, pvar = True, "", None, None
    n_fall = 0
    for pth in _Summ(consts=repo.consts, effect_calls={"*"}).block_paths(ml.body):
        if pth.kind in ("raise", "return"):
            continue
        n_fall += 1
        vals = [v for k, v in (pth.env or {}).items() if not k.startswith("__") and isinstance(v, ast.AST)] + [v for _k, v, _n in pth.effects if isinstance(v, ast.AST)]
        cuts = {}
        for v in vals:
            for x in ast.walk(v):
                if isinstance(x, ast.Subscript) and isinstance(x.slice, ast.Slice) and x.slice.lower is not None and x.slice.upper is not None and isinstance(x.value, ast.Name):
                    cuts[U(x)] = x
        if len(cuts) != 1:
            cut_ok, why_cut = False, f"an iteration cuts {sorted(cuts) or 'no slice'}"
            break
        x = next(iter(cuts.values()))
        lo_, hi_ = x.slice.lower, x.slice.upper
        if not isinstance(lo_, ast.Name):
            cut_ok, why_cut = False, f"the slice `{U(x)}` does not start at a cursor variable"
            break
        if cursor not in (None, lo_.id) or pvar not in (None, x.value.id):
            cut_ok, why_cut = False, "iterations cut with different cursors"
            break
        cursor, pvar = lo_.id, x.value.id
        width = lin(hi_, env) - lin(lo_, env)
        fin = (pth.env or {}).get(cursor)
        adv = (lin(fin, env) - Lin(0, {cursor: 1})) if fin is not None else None
        if not _eq(width, Lw):
            cut_ok, why_cut = False, f"`{U(x)}` is {width} bytes, the header says {mi_}.length"
            break
        if adv is None or not _eq(adv, Lw):
            cut_ok, why_cut = False, f"the cursor `{cursor}` advances by {adv if adv is not None else 0}, the message is {mi_}.length bytes" + (" (on a `continue`)" if pth.kind == "continue" else "")
            break
    cut_ok = cut_ok and n_fall > 0 and cursor is not None
    rep.ob("C05.R4", ml, "messages are cut as payload[n : n + length] and n advances by the same length", cut_ok,
           "" if cut_ok else "a message is cut with a different length than the cursor advances by: " + why_cut, key="C05.R4@messages:cut")
    ret = [n for n in body_walk(sfb) if isinstance(n, ast.Return) and isinstance(n.value, ast.Tuple) and len(n.value.elts) == 2]
    ok = False
    if ret and cursor:
        rem = ret[-1].value.elts[1]
        ok = isinstance(rem, ast.Subscript) and isinstance(rem.slice, ast.Slice) and rem.slice.upper is None and rem.slice.lower is not None \
            and U(rem.slice.lower) == cursor and U(rem.value) == pvar and ret[-1].lineno > ml.lineno
    rep.ob("C05.R4", ret[-1] if ret else sfb, "segment parser returns the unconsumed remainder payload[n:]", bool(ok), "", key="C05.R4@messages:remainder")
    inits = [n for n in sfb.body if isinstance(n, ast.Assign) and cursor and U(n.targets[0]) == cursor and n.lineno < ml.lineno]
    init0 = bool(inits) and try_const(inits[-1].value) == 0 and not any(
        isinstance(n, (ast.Assign, ast.AugAssign)) and U(n.targets[0] if isinstance(n, ast.Assign) else n.target) == cursor and inits[-1].lineno < n.lineno < ml.lineno for n in body_walk(sfb))
    rep.ob("C05.R4", sfb, "message cursor starts at 0", init0, "", key="C05.R4@messages:start")
    it_ = ml.iter
    if isinstance(it_, ast.Name):
        d_ = [n for n in sfb.body if isinstance(n, ast.Assign) and len(n.targets) == 1 and U(n.targets[0]) == it_.id]
        it_ = d_[-1].value if len(d_) == 1 else it_
    ok = U(it_).endswith(".message_infos") and ml in sfb.body
    rep.ob("C05.R4", sfb, "one message per message_info in header order", ok, "", key="C05.R4@messages:order")
    # schema dispatch: a message is parsed with the class of its own type; a patch with the class of the message it patches
    mloops = [n for n in body_walk(sfb) if isinstance(n, ast.For) and U(n.iter).endswith(".message_infos") and isinstance(n.target, ast.Name)]
    if len(mloops) != 1:
        raise AnalysisError("IWAArchiveSegment.from_buffer: message loop not found")
    mloop, mi = mloops[0], mloops[0].target.id
    infos = U(mloop.iter)

    def resolve_local(e):
        hops = 0
        while isinstance(e, ast.Name) and hops < 3:
            defs = [n for n in ast.walk(mloop) if isinstance(n, ast.Assign) and len(n.targets) == 1 and U(n.targets[0]) == e.id]
            if len(defs) != 1:
                break
            e = defs[0].value
            hops += 1
        return e

    lookups = [n for n in ast.walk(mloop) if isinstance(n, ast.Subscript) and U(n.value) == "ID_NAME_MAP"]
    own = [n for n in lookups if U(n.slice) == f"{mi}.type"]
    rep.ob("C05.R4", own[0] if own else mloop, f"a message is parsed with ID_NAME_MAP[{mi}.type]", bool(own), "", key="C05.R4@schema:own")
    patch_calls = [n for n in ast.walk(mloop) if isinstance(n, ast.Call) and "ProtobufPatch.FromString" in U(n) and call_name(n) in ("partial", "FromString")]
    if not patch_calls:
        raise AnalysisError("IWAArchiveSegment.from_buffer: ProtobufPatch.FromString use not found")
    for pc in patch_calls:
        args = [a for a in pc.args if "ProtobufPatch" not in U(a)]
        klass_arg = args[1] if len(args) >= 2 else None
        k = resolve_local(klass_arg) if klass_arg is not None else None
        ok = False
        detail = f"the base class is `{U(klass_arg) if klass_arg is not None else '?'}`"
        if isinstance(k, ast.Subscript) and U(k.value) == "ID_NAME_MAP" and isinstance(k.slice, ast.Attribute) and k.slice.attr == "type":
            base = resolve_local(k.slice.value)
            ok = isinstance(base, ast.Subscript) and U(base.value) == infos and U(base.slice) == f"{mi}.base_message_index"
            if not ok:
                detail = f"the base message is `{U(base)}`"
        rep.ob("C05.R4", pc, f"a patch is parsed against ID_NAME_MAP[{infos}[{mi}.base_message_index].type]", ok,
               "" if ok else f"{detail}: a patch whose base is not that message is decoded with another schema and re-encoded differently",
               key="C05.R4@schema:patch-base")
    gi = repo.func("iwafile.py", "get_archive_info_and_remainder")
    rets = [n for n in gi.body if isinstance(n, ast.Return) and isinstance(n.value, ast.Tuple) and len(n.value.elts) == 2]
    ok = False
    detail = "return (ArchiveInfo.FromString(buf[a:b]), buf[c:]) not found"
    if rets:
        first, second = rets[0].value.elts
        hs = None
        for x in ast.walk(first):
            if isinstance(x, ast.Subscript) and isinstance(x.slice, ast.Slice) and x.slice.lower is not None and x.slice.upper is not None:
                hs = x
        if hs is None:
            for x in ast.walk(first):
                if isinstance(x, ast.Name):
                    for st in gi.body:
                        if isinstance(st, ast.Assign) and U(st.targets[0]) == x.id and isinstance(st.value, ast.Subscript) and isinstance(st.value.slice, ast.Slice) \
                                and st.value.slice.lower is not None and st.value.slice.upper is not None:
                            hs = st.value
        at, final = _symbolic_cursor(gi, env, hs)
        a = _subst_all(lin(hs.slice.lower, env), at) if hs is not None else None
        b = _subst_all(lin(hs.slice.upper, env), at) if hs is not None else None
        c = None
        if isinstance(second, ast.Subscript) and isinstance(second.slice, ast.Slice) and second.slice.upper is None and second.slice.lower is not None:
            c = _subst_all(lin(second.slice.lower, env), final)
        VE, VV = Lin(0, {"VARINT_END": 1}), Lin(0, {"VARINT_VALUE": 1})
        dec = [x for x in ast.walk(gi) if isinstance(x, ast.Call) and last_attr(x.func) == "_DecodeVarint32"]
        ok = _eq(a, VE) and _eq(b, VE + VV) and _eq(c, VE + VV) and "FromString" in U(first) and bool(dec) and len(dec[0].args) == 2 and try_const(dec[0].args[1]) == 0
        detail = "" if ok else f"header cut [{a} : {b}], remainder from {c} (VARINT_END = position after the varint, VARINT_VALUE = its value)"
    rep.ob("C05.R4", gi, "header = buf[pos : pos + varint] and remainder starts right after it", ok, detail, key="C05.R4@header:cut")
    ffb = repo.func("iwafile.py", "IWAFile.from_buffer")
    fdata = ffb.args.args[1].arg
    wl = [n for n in body_walk(ffb) if isinstance(n, ast.While) and U(n.test) == fdata]
    ok = bool(wl) and any(isinstance(n, ast.Assign) and isinstance(n.targets[0], ast.Tuple) and U(n.targets[0].elts[1]) == fdata and "IWACompressedChunk.from_buffer(" in U(n.value) for n in wl[0].body) \
        and any(isinstance(c, ast.Call) and last_attr(c.func) == "append" for c in ast.walk(wl[0]))
    rep.ob("C05.R4", ffb, "IWAFile.from_buffer consumes the whole buffer", ok, "", key="C05.R4@file:loop")
    ftb = repo.func("iwafile.py", "IWAFile.to_buffer")
    fret = [n for n in body_walk(ftb) if isinstance(n, ast.Return) and n.value is not None]
    sq = None
    if fret and isinstance(fret[-1].value, ast.Call) and last_attr(fret[-1].value.func) == "join":
        sq = joined_sequence(ftb, fret[-1].value.args[0])
    ok = sq == [("each", "_.to_buffer()", "self.chunks")]
    rep.ob("C05.R4", ftb, "IWAFile.to_buffer joins chunk buffers in order", ok, "" if ok else f"{sq}", key="C05.R4@file:join")
    pp = repo.func("iwafile.py", "ProtobufPatch.SerializeToString")
    rep.ob("C05.R3", pp, "patch messages are re-serialised from their decoded data", "self.data.Serialize" in U(pp), "", key="C05.R3@patch")
    rep.floor("C05.R1", 10)
    rep.floor("C05.R2", 4)
    rep.floor("C05.R3", 4)
    rep.floor("C05.R4", 11)


def _anc(n, stop=None):
    p = getattr(n, "_parent", None)
    while p is not None and p is not stop:
        yield p
        p = getattr(p, "_parent", None)


VARIANTS = [
    M("incompressible-block-stored-raw", "iwafile.py", "            payloads.append(snappy.compress(uncompressed[:65536]))", "            block = uncompressed[:65536]\n            compressed = snappy.compress(block)\n            payloads.append(compressed if len(compressed) < len(block) else block)", "C05.R2"),
    T("writer-range-comprehension", "iwafile.py", '        payloads = []\n        while uncompressed:\n            payloads.append(snappy.compress(uncompressed[:65536]))\n            uncompressed = uncompressed[65536:]\n        return b"".join(\n            [b"\\x00" + struct.pack("<I", len(payload))[:3] + payload for payload in payloads],\n        )\n',
      '        blocks = [uncompressed[start : start + 65536] for start in range(0, len(uncompressed), 65536)]\n        payloads = [snappy.compress(block) for block in blocks]\n        return b"".join(b"\\x00" + struct.pack("<I", len(payload))[:3] + payload for payload in payloads)\n'),
    M("writer-range-comprehension-step-mismatch", "iwafile.py", '        payloads = []\n        while uncompressed:\n            payloads.append(snappy.compress(uncompressed[:65536]))\n            uncompressed = uncompressed[65536:]\n        return b"".join(\n            [b"\\x00" + struct.pack("<I", len(payload))[:3] + payload for payload in payloads],\n        )\n',
      '        blocks = [uncompressed[start : start + 65536] for start in range(0, len(uncompressed), 65535)]\n        payloads = [snappy.compress(block) for block in blocks]\n        return b"".join(b"\\x00" + struct.pack("<I", len(payload))[:3] + payload for payload in payloads)\n', "C05.R2"),
    M("writer-range-comprehension-raw-block", "iwafile.py", '        payloads = []\n        while uncompressed:\n            payloads.append(snappy.compress(uncompressed[:65536]))\n            uncompressed = uncompressed[65536:]\n        return b"".join(\n            [b"\\x00" + struct.pack("<I", len(payload))[:3] + payload for payload in payloads],\n        )\n',
      '        blocks = [uncompressed[start : start + 65536] for start in range(0, len(uncompressed), 65536)]\n        return b"".join(b"\\x00" + struct.pack("<I", len(payload))[:3] + payload for payload in blocks)\n', "C05.R"),
    T("is-iwa-cursor-form", "iwafile.py", 'def is_iwa_file(data):\n    data_length = len(data)\n    length = 0\n    while data:\n        header = data[:4]\n        if len(header) < 4:\n            return False\n\n        first_byte = header[0]\n        if first_byte != 0x00:\n            return False\n\n        segment_length = unpack("<I", bytes(header[1:]) + b"\\x00")[0]\n        length += segment_length + 4\n        data = data[4 + segment_length :]\n    return length == data_length\n', 'def is_iwa_file(data):\n    data_length = len(data)\n    pos = 0\n    while pos < data_length:\n        header = data[pos : pos + 4]\n        if len(header) < 4 or header[0] != 0x00:\n            return False\n\n        (segment_length,) = unpack("<I", bytes(header[1:]) + b"\\x00")\n        pos += 4 + segment_length\n    return pos == data_length\n'),
    M("is-iwa-cursor-form-short-advance", "iwafile.py", 'def is_iwa_file(data):\n    data_length = len(data)\n    length = 0\n    while data:\n        header = data[:4]\n        if len(header) < 4:\n            return False\n\n        first_byte = header[0]\n        if first_byte != 0x00:\n            return False\n\n        segment_length = unpack("<I", bytes(header[1:]) + b"\\x00")[0]\n        length += segment_length + 4\n        data = data[4 + segment_length :]\n    return length == data_length\n', 'def is_iwa_file(data):\n    data_length = len(data)\n    pos = 0\n    while pos < data_length:\n        header = data[pos : pos + 4]\n        if len(header) < 4 or header[0] != 0x00:\n            return False\n\n        (segment_length,) = unpack("<I", bytes(header[1:]) + b"\\x00")\n        pos += 3 + segment_length\n    return pos == data_length\n', "C05.R1"),
    M("is-iwa-cursor-form-never-lands", "iwafile.py", 'def is_iwa_file(data):\n    data_length = len(data)\n    length = 0\n    while data:\n        header = data[:4]\n        if len(header) < 4:\n            return False\n\n        first_byte = header[0]\n        if first_byte != 0x00:\n            return False\n\n        segment_length = unpack("<I", bytes(header[1:]) + b"\\x00")[0]\n        length += segment_length + 4\n        data = data[4 + segment_length :]\n    return length == data_length\n', 'def is_iwa_file(data):\n    data_length = len(data)\n    pos = 0\n    while pos < data_length:\n        header = data[pos : pos + 4]\n        if len(header) < 4 or header[0] != 0x00:\n            return False\n\n        (segment_length,) = unpack("<I", bytes(header[1:]) + b"\\x00")\n        pos += 4 + segment_length\n    return pos >= data_length\n', "C05.R1"),
    T("is-iwa-remaining-bytes-form", "iwafile.py", """def is_iwa_file(data):
    data_length = len(data)
    length = 0
    while data:
        header = data[:4]
        if len(header) < 4:
            return False

        first_byte = header[0]
        if first_byte != 0x00:
            return False

        segment_length = unpack("<I", bytes(header[1:]) + b"\\x00")[0]
        length += segment_length + 4
        data = data[4 + segment_length :]
    return length == data_length
""", """def is_iwa_file(data):
    remaining = len(data)
    while data:
        header = data[:4]
        if len(header) < 4:
            return False

        first_byte = header[0]
        if first_byte != 0x00:
            return False

        segment_length = unpack("<I", bytes(header[1:]) + b"\\x00")[0]
        if segment_length + 4 > remaining:
            return False
        remaining -= segment_length + 4
        data = data[4 + segment_length :]
    return True
"""),
    M("is-iwa-remaining-bytes-no-bound", "iwafile.py", """def is_iwa_file(data):
    data_length = len(data)
    length = 0
    while data:
        header = data[:4]
        if len(header) < 4:
            return False

        first_byte = header[0]
        if first_byte != 0x00:
            return False

        segment_length = unpack("<I", bytes(header[1:]) + b"\\x00")[0]
        length += segment_length + 4
        data = data[4 + segment_length :]
    return length == data_length
""", """def is_iwa_file(data):
    remaining = len(data)
    while data:
        header = data[:4]
        if len(header) < 4:
            return False

        first_byte = header[0]
        if first_byte != 0x00:
            return False

        segment_length = unpack("<I", bytes(header[1:]) + b"\\x00")[0]
        remaining -= segment_length + 4
        data = data[4 + segment_length :]
    return True
""", "C05.R1"),
    M("chunker-drops-byte", "iwafile.py", "uncompressed = uncompressed[65536:]", "uncompressed = uncompressed[65537:]", "C05.R2"),
    M("chunk-too-big", "iwafile.py", "payloads.append(snappy.compress(uncompressed[:65536]))\n            uncompressed = uncompressed[65536:]",
      "payloads.append(snappy.compress(uncompressed[:131072]))\n            uncompressed = uncompressed[131072:]", "C05.R2"),
    M("length-4-bytes", "iwafile.py", 'struct.pack("<I", len(payload))[:3]', 'struct.pack("<I", len(payload))[:4]', "C05.R1"),
    M("length-big-endian-writer", "iwafile.py", 'struct.pack("<I", len(payload))[:3]', 'struct.pack(">I", len(payload))[:3]', "C05.R1"),
    M("reader-advance-off", "iwafile.py", "            chunk = data[4 : 4 + length]\n            data = data[4 + length :]", "            chunk = data[4 : 4 + length]\n            data = data[3 + length :]", "C05.R1"),
    M("sniffer-total-off", "iwafile.py", "length += segment_length + 4", "length += segment_length + 3", "C05.R1"),
    M("objects-reversed", "iwafile.py",
      "        return b\"\".join(\n            [_VarintBytes(self.header.ByteSize()), self.header.SerializeToString()]\n            + [obj.SerializeToString() for obj in self.objects],\n        )",
      "        return b\"\".join(\n            [_VarintBytes(self.header.ByteSize()), self.header.SerializeToString()]\n            + [obj.SerializeToString() for obj in reversed(self.objects)],\n        )", "C05.R3"),
    M("chunker-divmod-negative-zero", "iwafile.py", """        payloads = []
        while uncompressed:
            payloads.append(snappy.compress(uncompressed[:65536]))
            uncompressed = uncompressed[65536:]
""", """        num_full, remainder = divmod(len(uncompressed), 65536)
        payloads = [snappy.compress(uncompressed[i * 65536 : (i + 1) * 65536]) for i in range(num_full)]
        if uncompressed:
            payloads.append(snappy.compress(uncompressed[-remainder:]))
""", "C05.R2"),
    M("decoder-sticky-stored-flag", "iwafile.py", """            try:
                yield snappy.uncompress(chunk)
            except Exception:  # pragma: no cover""", """            if cls._raw:
                yield chunk
                continue
            try:
                yield snappy.uncompress(chunk)
            except Exception:  # pragma: no cover
                cls._raw = True""", "C05.R1"),
    M("patch-base-first-payload", "iwafile.py", "ID_NAME_MAP[base_message.type],", "type(payloads[0]),", "C05.R4"),
    M("patch-base-index-zero", "iwafile.py", "archive_info.message_infos[message_info.base_message_index]", "archive_info.message_infos[0]", "C05.R4"),
    M("chunker-accumulate-if", "iwafile.py", """        uncompressed = b"".join([archive.to_buffer() for archive in self.archives])
        payloads = []
        while uncompressed:
            payloads.append(snappy.compress(uncompressed[:65536]))
            uncompressed = uncompressed[65536:]
""", """        payloads = []
        pending = b""
        for archive in self.archives:
            pending += archive.to_buffer()
            if len(pending) >= 65536:
                payloads.append(snappy.compress(pending[:65536]))
                pending = pending[65536:]
        if pending:
            payloads.append(snappy.compress(pending))
""", "C05.R2"),
    T("patch-base-inlined", "iwafile.py", """                    base_message = archive_info.message_infos[message_info.base_message_index]
                    klass = partial(
                        ProtobufPatch.FromString,
                        message_info,
                        ID_NAME_MAP[base_message.type],
                    )""", """                    base_type = archive_info.message_infos[message_info.base_message_index].type
                    base_class = ID_NAME_MAP[base_type]
                    klass = partial(ProtobufPatch.FromString, message_info, base_class)"""),
    M("single-chunk-parse", "iwafile.py", 'data = b"".join(cls._decompress_all(data))', "data = next(cls._decompress_all(data))", "C05.R4"),
    M("message-cursor-stale", "iwafile.py", "            payloads.append(output)\n            n += message_info.length", "            payloads.append(output)\n            n += len(message_payload) - 0 * message_info.length", "C05.R4"),
    M("pad-low-side", "iwafile.py", 'unpack("<I", bytes(header[1:]) + b"\\x00")[0]', 'unpack("<I", b"\\x00" + bytes(header[1:]))[0]', "C05.R1", count=2),
    M("length-refresh-grow-only", "iwafile.py", "                if object_length != provided_length:\n", "                if object_length > provided_length:\n", "C05.R3"),
    M("header-cut-off-by-one", "iwafile.py", "    msg_buf = buf[n : n + msg_len]\n    n += msg_len", "    msg_buf = buf[n : n + msg_len]\n    n += msg_len + 1", "C05.R4"),
    M("reader-two-byte-length", "iwafile.py", '\n            length = unpack("<I", bytes(header[1:]) + b"\\x00")[0]', '\n            length = int.from_bytes(header[1:3], "little")', "C05.R1"),
    T("named-chunk-constant", "iwafile.py", "            payloads.append(snappy.compress(uncompressed[:65536]))\n            uncompressed = uncompressed[65536:]",
      "            payloads.append(snappy.compress(uncompressed[: 1 << 16]))\n            uncompressed = uncompressed[1 << 16 :]"),
    T("reader-from-bytes", "iwafile.py", '\n            length = unpack("<I", bytes(header[1:]) + b"\\x00")[0]', '\n            length = int.from_bytes(header[1:4], "little")'),
]

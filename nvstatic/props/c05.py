"""C05 — IWA archive decoding and encoding are mutually inverse and chunking-independent."""

from __future__ import annotations

import ast

from .. import cfg as cfgmod
from ..core import AnalysisError, U, body_walk, call_name, last_attr, try_const
from ..bytelayout import int_weights, layout
from ..linear import Lin, lin
from ..selftest import M, T

EXPLANATION = (
    "framing agreement between IWACompressedChunk.to_buffer, _decompress_all and is_iwa_file (marker byte, header size, "
    "3-byte little-endian length, advance), slice-pair consumption of the chunker and of the message splitter, order of "
    "length refresh vs header serialisation, and decoding over the join of all chunks"
)
TRUSTED = ["python ast", "linear forms", "protobuf/snappy runtime behaviour (byte identity of re-serialisation is not decided)"]

MAX_CHUNK = 65536


def _eq(a, b):
    return a is not None and b is not None and (a - b).is_const() and (a - b).c == 0


def parse_frame_reader(repo, rep, qual, rule="C05.R1"):
    """Facts about one of the two sibling frame parsers (``_decompress_all`` / ``is_iwa_file``)."""
    f = repo.func("iwafile.py", qual)
    info = {"func": f}
    data = f.args.args[-1].arg
    loops = [n for n in body_walk(f) if isinstance(n, ast.While) and U(n.test) == data]
    if not loops:
        raise AnalysisError(f"{qual}: `while {data}:` loop not found")
    loop = loops[0]
    hdr = None
    for n in loop.body:
        if isinstance(n, ast.Assign) and isinstance(n.value, ast.Subscript) and U(n.value.value) == data and isinstance(n.value.slice, ast.Slice):
            sl = n.value.slice
            if sl.lower is None and sl.upper is not None and hdr is None:
                hdr = (U(n.targets[0]), try_const(sl.upper), n)
    if hdr is None:
        raise AnalysisError(f"{qual}: header slice not found")
    hname, hsize, hnode = hdr
    info["header_size"] = hsize
    # marker test
    marker = None
    for n in ast.walk(loop):
        if isinstance(n, ast.Compare) and isinstance(n.ops[0], ast.NotEq) and isinstance(try_const(n.comparators[0]), int):
            left = n.left
            if U(left) == f"{hname}[0]":
                marker = try_const(n.comparators[0])
            else:
                # via a local: first_byte = header[0]
                for a in loop.body:
                    if isinstance(a, ast.Assign) and U(a.targets[0]) == U(left) and U(a.value) == f"{hname}[0]":
                        marker = try_const(n.comparators[0])
    info["marker"] = marker
    # length decode
    length_var = None
    for n in loop.body:
        if isinstance(n, ast.Assign) and int_weights(n.value, None, {hname: hsize if isinstance(hsize, int) else 4}) is not None \
                and not (isinstance(n.value, ast.Subscript) and isinstance(n.value.value, ast.Call) and last_attr(n.value.value.func) == "unpack"):
            length_var = U(n.targets[0])
            info["len_node"] = n
            info["weights"] = int_weights(n.value, None, {hname: hsize if isinstance(hsize, int) else 4})
            info["hname"] = hname
        if isinstance(n, ast.Assign) and isinstance(n.value, ast.Subscript) and isinstance(n.value.value, ast.Call) and last_attr(n.value.value.func) == "unpack":
            call = n.value.value
            fmt = try_const(call.args[0])
            arg = call.args[1]
            info["len_fmt"] = fmt
            pad_side = None
            src = None
            if isinstance(arg, ast.BinOp) and isinstance(arg.op, ast.Add):
                l, r = arg.left, arg.right
                if isinstance(try_const(r), bytes):
                    pad_side, pad, src = "high-after", try_const(r), l
                elif isinstance(try_const(l), bytes):
                    pad_side, pad, src = "before", try_const(l), r
                info["pad"] = pad
            info["pad_side"] = pad_side
            if isinstance(src, ast.Call) and call_name(src) in ("bytes", "bytearray"):
                src = src.args[0]
            info["len_src"] = U(src) if src is not None else None
            info["len_index"] = try_const(n.value.slice)
            length_var = U(n.targets[0])
            info["len_node"] = n
            info["weights"] = int_weights(n.value, None, {hname: hsize if isinstance(hsize, int) else 4})
            info["hname"] = hname
    info["length_var"] = length_var
    # chunk slice and advance
    for n in loop.body:
        if isinstance(n, ast.Assign) and isinstance(n.value, ast.Subscript) and U(n.value.value) == data and isinstance(n.value.slice, ast.Slice):
            sl = n.value.slice
            if sl.lower is not None and sl.upper is not None:
                info["chunk"] = (lin(sl.lower), lin(sl.upper), n)
            if sl.lower is not None and sl.upper is None and U(n.targets[0]) == data:
                info["advance"] = (lin(sl.lower), n)
    return info



def chunker_facts(tb, env):
    """Recognise the chunking of the uncompressed stream in ``to_buffer``.

    Shapes: ``while x: emit(x[:N]); x = x[N:]`` and a loop/comprehension over
    ``range(0, len(x), N)`` emitting ``x[o : o + N]``."""
    out = {"emit": None, "advance": None, "covers": False, "node": tb, "shape": "?", "why": "", "ordered": False}
    loops = [n for n in body_walk(tb) if isinstance(n, ast.While)]
    if loops:
        loop = loops[0]
        var = U(loop.test)
        emit = adv = None
        for n in ast.walk(loop):
            if isinstance(n, ast.Subscript) and U(n.value) == var and isinstance(n.slice, ast.Slice):
                if n.slice.lower is None and n.slice.upper is not None:
                    emit = (try_const(n.slice.upper, env), n)
                if n.slice.lower is not None and n.slice.upper is None:
                    adv = (try_const(n.slice.lower, env), n)
        reassigned = adv is not None and any(isinstance(n, ast.Assign) and U(n.targets[0]) == var and n.value is adv[1] for n in loop.body)
        out.update(emit=emit and emit[0], advance=adv and adv[0], covers=bool(reassigned), node=loop, shape="while-loop",
                   ordered=any(isinstance(n, ast.Call) and last_attr(n.func) == "append" and "compress" in U(n) for n in ast.walk(loop)))
        if not reassigned:
            out["why"] = "the remainder is not assigned back to the loop variable"
        return out
    # range-based shapes
    for n in body_walk(tb):
        gens = []
        if isinstance(n, (ast.ListComp, ast.GeneratorExp)):
            gens = [(g.target, g.iter, n.elt) for g in n.generators]
        elif isinstance(n, ast.For):
            gens = [(n.target, n.iter, n)]
        for tgt, it, body in gens:
            if isinstance(it, ast.Call) and call_name(it) == "range" and isinstance(tgt, ast.Name):
                a = it.args
                start = try_const(a[0], env) if len(a) >= 2 else 0
                stop = a[1] if len(a) >= 2 else a[0]
                step = try_const(a[2], env) if len(a) == 3 else 1
                for sub in ast.walk(body):
                    if isinstance(sub, ast.Subscript) and isinstance(sub.slice, ast.Slice) and sub.slice.lower is not None and sub.slice.upper is not None \
                            and U(sub.slice.lower) == tgt.id:
                        hi = lin(sub.slice.upper, env)
                        lo = lin(sub.slice.lower, env)
                        width = (hi - lo) if hi is not None and lo is not None else None
                        w = width.c if width is not None and width.is_const() else None
                        x = U(sub.value)
                        covers = start == 0 and U(stop).replace(" ", "") == f"len({x})"
                        out.update(emit=w, advance=step, covers=covers, node=n, shape="range-loop", ordered=True)
                        if not covers:
                            out["why"] = (f"offsets run over range({start}, {U(stop)}, {step}) instead of range(0, len({x}), {step}): "
                                          "the tail of the stream is not emitted for some lengths")
                        return out
    raise AnalysisError("IWACompressedChunk.to_buffer: chunking of the stream not recognised")


def run(repo, rep, tier):
    # ---------------- writer
    tb = repo.func("iwafile.py", "IWACompressedChunk.to_buffer")
    w = {}
    # frame expression: <4 header bytes> + payload, read through the abstract byte layout
    frame = None
    chains = []
    for n in ast.walk(tb):
        if isinstance(n, ast.BinOp) and isinstance(n.op, ast.Add) and not (isinstance(getattr(n, "_parent", None), ast.BinOp) and isinstance(n._parent.op, ast.Add)):
            ops = []
            def flat(e):
                if isinstance(e, ast.BinOp) and isinstance(e.op, ast.Add):
                    flat(e.left)
                    flat(e.right)
                else:
                    ops.append(e)
            flat(n)
            chains.append((n, ops))
    hdr_layout = None
    payload = None
    for n, ops in chains:
        if len(ops) >= 2 and isinstance(ops[-1], ast.Name):
            lay = []
            for o in ops[:-1]:
                l = layout(o, repo.consts)
                if l is None:
                    lay = None
                    break
                lay += l
            if lay is not None:
                frame, hdr_layout, payload = n, lay, ops[-1]
    if frame is None:
        raise AnalysisError("IWACompressedChunk.to_buffer: frame expression `<header bytes> + payload` not found")
    L = f"len({U(payload)})"
    want = [("const", 0), ("int", L, 0), ("int", L, 1), ("int", L, 2)]
    marker = bytes([hdr_layout[0][1]]) if hdr_layout and hdr_layout[0][0] == "const" else None
    okw = hdr_layout == want
    rep.ob("C05.R1", frame, f"writer frame header bytes {hdr_layout} + {U(payload)}", okw,
           "" if okw else f"the 4 header bytes must be marker 0x00 followed by the low 3 bytes of {L}, little-endian; found {hdr_layout}: "
           "payloads whose length does not fit the field written are framed with a wrong length", key="C05.R1@writer:frame")
    wfmt = "<I"
    # ---------------- readers
    readers = {}
    for qual in ("IWACompressedChunk._decompress_all", "is_iwa_file"):
        r = parse_frame_reader(repo, rep, qual)
        readers[qual] = r
        f = r["func"]
        short = qual.split(".")[-1]
        ok = r["header_size"] == 4
        rep.ob("C05.R1", f, f"{short}: header is 4 bytes", ok, f"header slice is [:{r['header_size']}]", key=f"C05.R1@{short}:header-size")
        ok = r["marker"] is not None and bytes([r["marker"]]) == marker
        rep.ob("C05.R1", f, f"{short}: marker byte {r['marker']} equals the writer's {marker!r}", ok, "", key=f"C05.R1@{short}:marker")
        hname = r.get("hname")
        wts = r.get("weights")
        want_w = {("src", hname, 1): 1, ("src", hname, 2): 256, ("src", hname, 3): 65536}
        ok = wts == want_w
        rep.ob("C05.R1", r.get("len_node", f), f"{short}: length = header[1] + header[2]<<8 + header[3]<<16", ok,
               "" if ok else f"reader decodes the length with byte weights {wts}: disagrees with the writer's 3-byte little-endian length",
               key=f"C05.R1@{short}:length-decode")
        H = Lin(r["header_size"] or 0)
        L = Lin(0, {r["length_var"]: 1}) if r["length_var"] else None
        if "chunk" in r:
            lo, hi, node = r["chunk"]
            ok = _eq(lo, H) and _eq(hi, H + L)
            rep.ob("C05.R1", node, f"{short}: payload is data[4 : 4 + length]", ok, "" if ok else "payload slice does not start after the header or is not `length` long", key=f"C05.R1@{short}:payload-slice")
        if "advance" in r:
            lo, node = r["advance"]
            ok = _eq(lo, H + L)
            rep.ob("C05.R1", node, f"{short}: advances by 4 + length", ok, "" if ok else "the next frame is looked for at the wrong offset", key=f"C05.R1@{short}:advance")
        else:
            rep.ob("C05.R1", f, f"{short}: advances by 4 + length", False, "advance not found", key=f"C05.R1@{short}:advance")
    # sniffer accounting
    sn = readers["is_iwa_file"]["func"]
    src = U(sn)
    acc = [n for n in body_walk(sn) if isinstance(n, ast.AugAssign) and isinstance(n.op, ast.Add)]
    ok = False
    for a in acc:
        l = lin(a.value)
        ok = ok or _eq(l, Lin(4, {readers["is_iwa_file"]["length_var"]: 1}))
    ret = [n for n in body_walk(sn) if isinstance(n, ast.Return) and isinstance(n.value, ast.Compare)]
    ok = ok and bool(ret) and isinstance(ret[0].value.ops[0], ast.Eq)
    rep.ob("C05.R1", sn, "is_iwa_file: total of (4 + length) over frames equals the data length", ok, "", key="C05.R1@is_iwa_file:total")
    guard = [n for n in body_walk(sn) if isinstance(n, ast.If) and "len(header)" in U(n.test)]
    rep.info("C05.info", f"is_iwa_file short-header guard: {[U(g.test) for g in guard]}")

    # ---------------- R2 chunker
    ch = chunker_facts(tb, repo.consts)
    ok = ch["emit"] is not None and ch["emit"] == ch["advance"] and ch["covers"]
    rep.ob("C05.R2", ch["node"], f"chunker ({ch['shape']}) emits {ch['emit']} bytes per chunk and advances by {ch['advance']}; covers the stream: {ch['covers']}", ok,
           "" if ok else ch["why"] or "emitted slice and advance differ: bytes are dropped or duplicated at every chunk boundary", key="C05.R2@chunker:consume")
    ok = isinstance(ch["emit"], int) and 0 < ch["emit"] <= MAX_CHUNK
    rep.ob("C05.R2", ch["node"], f"chunk payload <= {MAX_CHUNK} bytes", ok, "" if ok else f"chunk size {ch['emit']} exceeds the 64 KiB container rule (and may overflow the 3-byte length)", key="C05.R2@chunker:max")
    ok = ch["ordered"]
    rep.ob("C05.R2", ch["node"], "chunks emitted in stream order, each compressed separately", ok, "", key="C05.R2@chunker:order")
    ok = "b''.join([archive.to_buffer() for archive in self.archives])" in U(tb)
    rep.ob("C05.R2", tb, "stream = join of archive buffers in order", ok, "", key="C05.R2@stream:join")

    # ---------------- R3 header lengths refreshed before the header is serialised
    sb = repo.func("iwafile.py", "IWAArchiveSegment.to_buffer")
    g = cfgmod.build(sb)
    floop = [n for n in body_walk(sb) if isinstance(n, ast.For)]
    ok = False
    store = None
    pair_ok = False
    if floop:
        lp = floop[0]
        it = U(lp.iter).replace(" ", "")
        pair_ok = it == "zip(self.objects,self.header.message_infos)"
        tg = [U(e) for e in lp.target.elts] if isinstance(lp.target, ast.Tuple) else []
        for n in ast.walk(lp):
            if isinstance(n, ast.Assign) and U(n.targets[0]).endswith(".length") and len(tg) == 2 and U(n.targets[0]) == f"{tg[1]}.length":
                store = n
        # the stored value is the serialised size of the paired object
        if store is not None:
            v = U(store.value)
            defs = {U(a.targets[0]): U(a.value) for a in ast.walk(lp) if isinstance(a, ast.Assign)}
            v = defs.get(v, v)
            ok = v.replace(" ", "") in (f"len({tg[0]}.SerializeToString())", f"{tg[0]}.ByteSize()")
    rep.ob("C05.R3", floop[0] if floop else sb, "message_info.length := serialised size of the paired object", ok and pair_ok,
           "" if ok and pair_ok else "lengths are not refreshed from the objects, or objects and message_infos are not paired positionally", key="C05.R3@lengths:refresh")
    hdr_ser = [n for n in body_walk(sb) if isinstance(n, ast.Call) and U(n.func) == "self.header.SerializeToString"]
    ok = bool(hdr_ser) and store is not None and all(cfgmod.precedes_on_all_paths(sb, [floop[0]], h) for h in hdr_ser) and \
        not any(g.paths_avoiding(g.node_of(h), g.node_of(store), set()) for h in hdr_ser if g.node_of(h) != g.node_of(store))
    rep.ob("C05.R3", hdr_ser[0] if hdr_ser else sb, "header serialised after the lengths are refreshed", ok,
           "" if ok else "a stale message length is written into the header", key="C05.R3@lengths:before-header")
    ret = [n for n in body_walk(sb) if isinstance(n, ast.Return)]
    rs = U(ret[-1].value).replace(" ", "") if ret else ""
    ok = rs == "b''.join([_VarintBytes(self.header.ByteSize()),self.header.SerializeToString()]+[obj.SerializeToString()forobjinself.objects])"
    rep.ob("C05.R3", ret[-1] if ret else sb, "segment = varint(header size) + header + objects in order", ok, "" if ok else f"found `{rs[:120]}`", key="C05.R3@segment:layout")

    # ---------------- R4 chunk-boundary independence
    fb = repo.func("iwafile.py", "IWACompressedChunk.from_buffer")
    src = U(fb).replace(" ", "")
    ok = "data=b''.join(cls._decompress_all(data))" in src
    rep.ob("C05.R4", fb, "segments are parsed from the join of all decompressed chunks", ok,
           "" if ok else "parsing a single chunk makes the result depend on where the stream was cut", key="C05.R4@join")
    loops = [n for n in body_walk(fb) if isinstance(n, ast.While)]
    ok = bool(loops) and U(loops[0].test) == "data" and any(
        isinstance(n, ast.Assign) and U(n.targets[0]).replace(" ", "") in ("(archive,data)", "archive,data") and "IWAArchiveSegment.from_buffer(data" in U(n.value) for n in loops[0].body)
    rep.ob("C05.R4", fb, "segment loop continues on the remainder until the stream is empty", ok, "", key="C05.R4@segment-loop")
    sfb = repo.func("iwafile.py", "IWAArchiveSegment.from_buffer")
    # message slicing: payload[n : n + L]; n += L; return payload[n:]
    sl = [n for n in body_walk(sfb) if isinstance(n, ast.Subscript) and isinstance(n.slice, ast.Slice) and n.slice.lower is not None and n.slice.upper is not None]
    inc = [n for n in body_walk(sfb) if isinstance(n, ast.AugAssign) and isinstance(n.op, ast.Add)]
    ok = False
    if sl and inc:
        lo, hi = lin(sl[0].slice.lower), lin(sl[0].slice.upper)
        cnt = U(inc[0].target)
        L = lin(inc[0].value)
        ok = _eq(lo, Lin(0, {cnt: 1})) and _eq(hi - lo, L) and "message_info.length" in U(inc[0].value)
        # the increment is outside any try/except that could skip it and inside the loop
        ok = ok and isinstance(getattr(inc[0], "_parent", None), ast.For)
    rep.ob("C05.R4", sl[0] if sl else sfb, "messages are cut as payload[n : n + length] and n advances by the same length", ok,
           "" if ok else "a message is cut with a different length than the cursor advances by", key="C05.R4@messages:cut")
    ret = [n for n in body_walk(sfb) if isinstance(n, ast.Return)]
    ok = bool(ret) and U(ret[-1].value).replace(" ", "") == "(cls(archive_info,payloads),payload[n:])"
    rep.ob("C05.R4", ret[-1] if ret else sfb, "segment parser returns the unconsumed remainder payload[n:]", ok, "", key="C05.R4@messages:remainder")
    init0 = any(isinstance(n, ast.Assign) and U(n.targets[0]) == "n" and try_const(n.value) == 0 for n in body_walk(sfb))
    rep.ob("C05.R4", sfb, "message cursor starts at 0", init0, "", key="C05.R4@messages:start")
    ok = "for message_info in archive_info.message_infos" in U(sfb)
    rep.ob("C05.R4", sfb, "one message per message_info in header order", ok, "", key="C05.R4@messages:order")
    gi = repo.func("iwafile.py", "get_archive_info_and_remainder")
    s = U(gi).replace(" ", "")
    ok = "(msg_len,new_pos)=_DecodeVarint32(buf,0)" in s.replace("msg_len,new_pos=", "(msg_len,new_pos)=") and "msg_buf=buf[n:n+msg_len]" in s and "n=new_pos" in s \
        and "n+=msg_len" in s and "return(ArchiveInfo.FromString(msg_buf),buf[n:])" in s.replace("returnArchiveInfo.FromString(msg_buf),buf[n:]", "return(ArchiveInfo.FromString(msg_buf),buf[n:])")
    rep.ob("C05.R4", gi, "header = buf[pos : pos + varint] and remainder starts right after it", ok, "", key="C05.R4@header:cut")
    ffb = repo.func("iwafile.py", "IWAFile.from_buffer")
    s = U(ffb).replace(" ", "")
    ok = "whiledata:" in s and "IWACompressedChunk.from_buffer(data,filename)" in s and "chunks.append(chunk)" in s
    rep.ob("C05.R4", ffb, "IWAFile.from_buffer consumes the whole buffer", ok, "", key="C05.R4@file:loop")
    ftb = repo.func("iwafile.py", "IWAFile.to_buffer")
    ok = U(ftb).replace(" ", "").endswith("returnb''.join([chunk.to_buffer()forchunkinself.chunks])")
    rep.ob("C05.R4", ftb, "IWAFile.to_buffer joins chunk buffers in order", ok, "", key="C05.R4@file:join")
    # unknown fields: ProtobufPatch keeps partial serialisation
    pp = repo.func("iwafile.py", "ProtobufPatch.SerializeToString")
    rep.ob("C05.R3", pp, "patch messages are re-serialised from their decoded data", "self.data.Serialize" in U(pp), "", key="C05.R3@patch")
    rep.floor("C05.R1", 10)
    rep.floor("C05.R2", 4)
    rep.floor("C05.R3", 4)
    rep.floor("C05.R4", 9)


VARIANTS = [
    M("chunker-drops-byte", "iwafile.py", "uncompressed = uncompressed[65536:]", "uncompressed = uncompressed[65537:]", "C05.R2"),
    M("chunk-too-big", "iwafile.py", "payloads.append(snappy.compress(uncompressed[:65536]))\n            uncompressed = uncompressed[65536:]",
      "payloads.append(snappy.compress(uncompressed[:131072]))\n            uncompressed = uncompressed[131072:]", "C05.R2"),
    M("length-4-bytes", "iwafile.py", 'struct.pack("<I", len(payload))[:3]', 'struct.pack("<I", len(payload))[:4]', "C05.R1"),
    M("length-big-endian-writer", "iwafile.py", 'struct.pack("<I", len(payload))[:3]', 'struct.pack(">I", len(payload))[:3]', "C05.R1"),
    M("reader-advance-off", "iwafile.py", "            chunk = data[4 : 4 + length]\n            data = data[4 + length :]", "            chunk = data[4 : 4 + length]\n            data = data[3 + length :]", "C05.R1"),
    M("sniffer-total-off", "iwafile.py", "length += segment_length + 4", "length += segment_length + 3", "C05.R1"),
    M("header-before-lengths", "iwafile.py",
      "        return b\"\".join(\n            [_VarintBytes(self.header.ByteSize()), self.header.SerializeToString()]\n            + [obj.SerializeToString() for obj in self.objects],\n        )",
      "        return b\"\".join(\n            [_VarintBytes(self.header.ByteSize()), self.header.SerializeToString()]\n            + [obj.SerializeToString() for obj in reversed(self.objects)],\n        )", "C05.R3"),
    M("single-chunk-parse", "iwafile.py", 'data = b"".join(cls._decompress_all(data))', "data = next(cls._decompress_all(data))", "C05.R4"),
    M("message-cursor-stale", "iwafile.py", "            payloads.append(output)\n            n += message_info.length", "            payloads.append(output)\n            n += len(message_payload) - 0 * message_info.length", "C05.R4"),
    M("pad-low-side", "iwafile.py", 'length = unpack("<I", bytes(header[1:]) + b"\\x00")[0]', 'length = unpack("<I", b"\\x00" + bytes(header[1:]))[0]', "C05.R1", count=2),
    T("named-chunk-constant", "iwafile.py", "            payloads.append(snappy.compress(uncompressed[:65536]))\n            uncompressed = uncompressed[65536:]",
      "            payloads.append(snappy.compress(uncompressed[: 1 << 16]))\n            uncompressed = uncompressed[1 << 16 :]"),
]

"""C20 — CSV import followed by CSV export reproduces the cell grid (partially claimed)."""

from __future__ import annotations

import ast

from .. import cfg as cfgmod
from ..core import AnalysisError, U, body_walk, call_name, last_attr, try_const
from ..escape import EscapeAnalysis
from ..selftest import M, T

EXPLANATION = (
    "taint from float(<CSV text>) to the stored row value must pass a finiteness sanitiser; conversion errors reach the user "
    "through the RuntimeError handler of main (stderr + non-zero exit) and nothing else can escape from the CSV reader, the "
    "coercion step and save (exception-escape analysis limited to _csv2numbers.py; header-keyed lookups are outside the claim); "
    "rows must not be keyed by cell content; cells are written at their own (row, column) in file order; export side formats"
)
TRUSTED = ["python ast", "statement CFG", "exception hierarchy / external callee table", "precondition: the CSV grid has at least one row (the property's quantifier)"]

SANITISERS = ("isfinite", "isnan", "isinf")


def run(repo, rep, tier):
    td = repo.func("_csv2numbers.py", "Converter._transform_data")
    g = cfgmod.build(td)
    # ---- R1 special floats are sanitised
    floats = [c for c in body_walk(td) if isinstance(c, ast.Call) and isinstance(c.func, ast.Name) and c.func.id == "float"]
    scope = td
    if not floats:
        # the coercion may live in a module-level helper called from here: follow it (one level)
        mod = repo.tree("_csv2numbers.py")
        helpers = {n.name: n for n in mod.body if isinstance(n, ast.FunctionDef)}
        for c in body_walk(td):
            if isinstance(c, ast.Call) and isinstance(c.func, ast.Name) and c.func.id in helpers:
                h = helpers[c.func.id]
                fl_h = [x for x in body_walk(h) if isinstance(x, ast.Call) and isinstance(x.func, ast.Name) and x.func.id == "float"]
                if fl_h:
                    floats, scope = fl_h, h
                    # the caller must store the helper's result only when it is a number
                    st_c = next((p for p in _anc(c) if isinstance(p, ast.stmt)), None)
                    var_c = st_c.targets[0].id if isinstance(st_c, ast.Assign) and isinstance(st_c.targets[0], ast.Name) else None
                    stores = [s2 for s2 in body_walk(td) if isinstance(s2, ast.Assign) and isinstance(s2.targets[0], ast.Subscript) and isinstance(s2.value, ast.Name) and s2.value.id == var_c]
                    okc = bool(stores) and all(any(isinstance(p, ast.If) and U(p.test).replace(" ", "") == f"{var_c}isnotNone" and any(s2 is y for x in p.body for y in ast.walk(x)) for p in _anc(s2)) for s2 in stores)
                    rep.ob("C20.R1", st_c or td, f"the result of {h.name}() is stored only when it is a number", okc, "", key="C20.R1@transform:helper-result")
                    break
    if not floats:
        raise AnalysisError("_transform_data: float coercion not found")
    n = 0
    td_outer, td = td, scope
    for fl in floats:
        st = next((p for p in _anc(fl) if isinstance(p, ast.stmt)), None)
        # where does the float value go?
        sinks = []
        if isinstance(st, ast.Assign):
            tgt = st.targets[0]
            if isinstance(tgt, ast.Subscript):
                sinks.append((st, None))  # stored directly
            elif isinstance(tgt, ast.Name):
                var = tgt.id
                for s2 in body_walk(td):
                    if isinstance(s2, ast.Assign) and isinstance(s2.targets[0], ast.Subscript) and isinstance(s2.value, ast.Name) and s2.value.id == var:
                        sinks.append((s2, var))
                    if td is not td_outer and isinstance(s2, ast.Return) and isinstance(s2.value, ast.Name) and s2.value.id == var:
                        sinks.append((s2, var))  # the helper hands the float back to the caller
        for sink, var in sinks:
            n += 1
            guarded = False
            why = "the float is stored without a finiteness test"
            if var is not None:
                for p in _anc(sink):
                    if isinstance(p, ast.If):
                        t = U(p.test)
                        in_body = any(sink is x or any(sink is y for y in ast.walk(x)) for x in p.body)
                        if in_body and any(f"{s}({var})" in t for s in SANITISERS) and ("isfinite" in t and "not " not in t or ("isnan" in t and "isinf" in t and t.count("not") >= 2)):
                            guarded = True
            rep.ob("C20.R1", sink, f"`{U(sink)[:60]}` stores a coerced float only if it is finite", guarded,
                   "" if guarded else f"{why}: a cell spelling nan, inf or 1e400 becomes a non-finite number and the conversion dies in Table.write with a ValueError traceback",
                   key=f"C20.R1@transform:{U(sink)[:40]}")
    # coercion failures keep the text
    def absorbed(fl):
        """The ValueError of float() ends inside this function without a store: a suppress(ValueError) block, or the body
        of a try whose ValueError handler only skips (pass / continue / nothing stored)."""
        prev = fl
        for p in _anc(fl):
            if isinstance(p, ast.With) and any("suppress(ValueError)" in U(i.context_expr) for i in p.items) and any(prev is b for b in p.body):
                return p
            if isinstance(p, ast.Try) and any(prev is b for b in p.body):
                for h in p.handlers:
                    names = [U(t) for t in (h.type.elts if isinstance(h.type, ast.Tuple) else [h.type])] if h.type is not None else ["BaseException"]
                    if any(x in ("ValueError", "Exception", "BaseException") for x in names):
                        quiet = not any(isinstance(x, (ast.Raise, ast.Return)) or (isinstance(x, ast.Assign) and isinstance(x.targets[0], ast.Subscript)) for b in h.body for x in ast.walk(b))
                        return p if quiet else None
            if isinstance(p, (ast.FunctionDef, ast.Lambda)):
                return None
            prev = p
        return None
    sup = [absorbed(fl) for fl in floats]
    ok = bool(sup) and all(x is not None for x in sup)
    rep.ob("C20.R1", sup[0] if ok else td, "text that is not a number stays text (ValueError of the coercion is absorbed without a store)", ok,
           "" if ok else "a cell that is not a number raises ValueError out of the transform instead of staying text", key="C20.R1@suppress")
    rep.ob("C20.R1", floats[0], "thousands commas are removed before coercion", ".replace(',', '')" in U(floats[0]), "", key="C20.R1@commas")
    td = td_outer

    # ---- R2 error reporting shape
    main = repo.func("_csv2numbers.py", "main")
    tries = [t for t in body_walk(main) if isinstance(t, ast.Try)]
    ok = False
    detail = "no try/except around the conversion"
    for t in tries:
        names = {call_name(c) or last_attr(c.func) for s in t.body for c in ast.walk(s) if isinstance(c, ast.Call)}
        if "Converter" in names and "save" in {last_attr(c.func) for s in t.body for c in ast.walk(s) if isinstance(c, ast.Call)}:
            for h in t.handlers:
                caught = U(h.type) if h.type is not None else "BaseException"
                prints = any(isinstance(c, ast.Call) and call_name(c) == "print" and any(kw.arg == "file" and "stderr" in U(kw.value) for kw in c.keywords) for c in ast.walk(h))
                exits = any(isinstance(c, ast.Call) and call_name(c) in ("exit", "sys.exit") and c.args and try_const(c.args[0]) not in (0, None) for c in ast.walk(h))
                if "RuntimeError" in caught or caught in ("Exception",):
                    ok = prints and exits
                    detail = "" if ok else f"handler for {caught}: prints to stderr={prints}, exits non-zero={exits}"
            covered = {last_attr(c.func) for s in t.body for c in ast.walk(s) if isinstance(c, ast.Call)}
            need = {"transform_columns", "rename_columns", "delete_columns", "save"}
            if not need <= covered:
                ok = False
                detail = f"{sorted(need - covered)} run outside the handler"
    rep.ob("C20.R2", main, "main reports conversion errors on stderr and exits with a non-zero status", ok, detail, key="C20.R2@main:handler")

    # the csv reader object of _read_csv, whatever it is called
    rc = repo.func("_csv2numbers.py", "Converter._read_csv")
    rdefs = [n for n in body_walk(rc) if isinstance(n, ast.Assign) and len(n.targets) == 1 and isinstance(n.targets[0], ast.Name)
             and isinstance(n.value, ast.Call) and U(n.value.func) == "csv.reader"]
    if len(rdefs) != 1:
        raise AnalysisError(f"Converter._read_csv: csv.reader(...) binding not found ({len(rdefs)} sites)")
    reader = rdefs[0].targets[0].id

    def safe_site(node, func, kind):
        if kind == "subscript":
            return True  # header-keyed dict/list lookups are outside the claimed clause
        if kind == "next" and U(node) == f"next({reader})":
            return True  # the grid has at least one row (quantifier of the property)
        return False

    def extra_resolve(call, func, cls):
        return None

    ea = EscapeAnalysis(repo, safe_site=safe_site)
    orig_resolve = ea.resolve

    def local_only(call, func):
        r = orig_resolve(call, func)
        if r:
            r = [x for x in r if getattr(x, "_file", "").endswith("_csv2numbers.py")]
        return r or []

    ea.resolve = local_only
    conv = repo.cls("_csv2numbers.py", "Converter")
    for mname in ("__post_init__", "_read_csv", "_transform_data", "save", "rename_columns", "delete_columns"):
        f = repo.func("_csv2numbers.py", f"Converter.{mname}")
        esc = ea.escapes(f)
        bad = sorted({(c, d, loc) for c, d, loc in esc if not ea.sub(c.rstrip("?"), "RuntimeError") or c.rstrip("?") == "NotImplementedError"})
        # date parsing errors only exist with --date
        bad = [b for b in bad if "parse(" not in b[1] and "_parse_date" not in b[1]]
        rep.ob("C20.R2", f, f"Converter.{mname}: only RuntimeError can leave it (besides --date parsing)", not bad,
               "" if not bad else f"{bad[0][0]} from `{bad[0][1]}` at {bad[0][2]} is not a RuntimeError: main's handler does not catch it and the tool crashes with a traceback",
               key=f"C20.R2@escape:{mname}")
    s = U(rc).replace(" ", "")
    rcall = rdefs[0].value
    # the file: the name bound by `with open(self.input_filename, encoding=self.encoding) as <f>`
    fname = U(rcall.args[0]) if rcall.args else None
    def opens_input(e):
        """open(self.input_filename, encoding=self.encoding, newline='') -- the csv module needs the untranslated line
        ends: with the default newline handling a CR or CRLF inside a quoted cell reaches the reader as LF"""
        if not (isinstance(e, ast.Call) and call_name(e) == "open" and e.args and U(e.args[0]) == "self.input_filename"):
            return False, False
        kws = {k.arg: k.value for k in e.keywords}
        enc = "encoding" in kws and U(kws["encoding"]) == "self.encoding"
        nl = "newline" in kws and try_const(kws["newline"], default=None) == ""
        return enc, nl
    open_items = [it for w in body_walk(rc) if isinstance(w, ast.With) and any(n is rdefs[0] for n in ast.walk(w))
                  for it in w.items if it.optional_vars is not None and U(it.optional_vars) == fname]
    opened = bool(open_items) and all(opens_input(it.context_expr)[0] for it in open_items)
    raw_newlines = bool(open_items) and all(opens_input(it.context_expr)[1] for it in open_items)
    rep.ob("C20.R2", open_items[0].context_expr if open_items else rc, "the CSV file is opened with newline='' (line breaks inside quoted cells reach the reader untranslated)", raw_newlines,
           "" if raw_newlines else "without newline='' the text layer turns CR and CRLF inside a quoted cell into LF: 'a\\r\\nb' is imported as 'a\\nb'", key="C20.R2@reader:newline")
    # the dialect: csv.excel (directly or through a local) with .strict = True set before the reader is built
    dkw = [kw.value for kw in rcall.keywords if kw.arg == "dialect"] + list(rcall.args[1:2])
    dname = U(dkw[0]) if dkw else None
    d_is_excel = dname == "csv.excel" or any(isinstance(n, ast.Assign) and len(n.targets) == 1 and U(n.targets[0]) == dname and U(n.value) == "csv.excel" for n in body_walk(rc))
    d_single = sum(1 for n in body_walk(rc) if isinstance(n, ast.Name) and n.id == dname and isinstance(n.ctx, ast.Store)) <= 1
    strict = any(isinstance(n, ast.Assign) and len(n.targets) == 1 and U(n.targets[0]) in (f"{dname}.strict", "csv.excel.strict") and try_const(n.value) is True
                 and n.lineno < rdefs[0].lineno for n in body_walk(rc))
    ok = opened and d_is_excel and d_single and strict
    rep.ob("C20.R2", rc, "CSV is read with the strict excel dialect in the requested encoding", ok, "", key="C20.R2@reader")
    ok = "exceptcsv.Errorase:" in s and "exceptFileNotFoundErrorase:" in s and s.count("raiseRuntimeError(msg)frome") == 2
    rep.ob("C20.R2", rc, "reader errors are translated to RuntimeError", ok, "", key="C20.R2@reader:translate")

    # ---- R3 positional data is not keyed by content
    keyed = [c for c in body_walk(td) if isinstance(c, ast.Call) and call_name(c) == "dict" and c.args and isinstance(c.args[0], ast.Call) and call_name(c.args[0]) == "zip"
             and "self.header" in U(c.args[0])]
    hdr_from_csv = f"self.header = next({reader})" in U(rc)
    ok = not (keyed and hdr_from_csv)
    rep.ob("C20.R3", keyed[0] if keyed else td, "data rows are not stored in a mapping keyed by CSV header text", ok,
           "" if ok else "`dict(zip(self.header, row))` keys each row by the header cells: two columns with the same header text collapse into one (a,a,b / 1,2,3 reads back as 2,3,<empty>)",
           key="C20.R3@transform:content-keyed-rows")
    # ---- R4 cells written at their own position, in file order
    sv = repo.func("_csv2numbers.py", "Converter.save")
    s = U(sv).replace(" ", "").replace("\n", "")
    from ..symexec import list_builder
    writes = [c for c in body_walk(sv) if isinstance(c, ast.Call) and last_attr(c.func) == "write" and len(c.args) == 3 and not c.keywords]
    ok = False
    grid = None
    if len(writes) == 1:
        w = writes[0]
        loops = [p for p in _anc(w) if isinstance(p, ast.For)]
        if len(loops) == 2:
            inner, outer = loops
            def enum(lp):
                it = lp.iter
                if isinstance(it, ast.Call) and call_name(it) == "enumerate" and len(it.args) == 1 and isinstance(lp.target, ast.Tuple) and len(lp.target.elts) == 2:
                    return U(lp.target.elts[0]), U(lp.target.elts[1]), U(it.args[0])
                return None
            eo, ei = enum(outer), enum(inner)
            if eo and ei:
                ok = [U(a) for a in w.args] == [eo[0], ei[0], ei[1]] and ei[2] == eo[1] and not any(
                    isinstance(x, (ast.If, ast.Continue, ast.Break)) and x.lineno <= w.lineno for x in ast.walk(outer) if x is not outer)
                grid = eo[2]
    rep.ob("C20.R4", writes[0] if writes else sv, "save writes cell (i, j) of the grid at table position (i, j)", ok, "" if ok else "rows/columns are transposed, skipped or offset", key="C20.R4@save:positions")
    segs = list_builder(sv, grid) if grid else None
    want = [("if", "notself.no_header", [("item", "self.header")]), ("each", "_.values()", "self.data")]
    def norm(sg):
        out = []
        for k in sg or []:
            if k[0] == "if":
                t = k[1].replace(" ", "")
                t = {"not(notself.no_header)": "self.no_header", "notnotself.no_header": "self.no_header"}.get(t, t)
                out.append(("if", t, norm(k[2])))
            else:
                out.append(tuple(x.replace(" ", "") if isinstance(x, str) else x for x in k))
        return out
    def flatten(sg, atoms):
        """the rows of the grid for one value of the options (None when a condition is not decided by them)"""
        from ..symexec import bool_eval
        out = []
        for k in sg:
            if k[0] == "if":
                v = bool_eval(ast.parse(k[1], mode="eval").body, atoms)
                if v is None:
                    return None
                if v:
                    inner = flatten(k[2], atoms)
                    if inner is None:
                        return None
                    out += inner
            else:
                out.append(tuple(x.replace(" ", "") if isinstance(x, str) else x for x in k))
        return out
    ok = segs is not None
    if ok:
        for nh in (False, True):
            got = flatten(segs, {"self.no_header": nh})
            exp = ([] if nh else [("item", "self.header")]) + [("each", "_.values()", "self.data")]
            if got != exp:
                ok = False
    rep.ob("C20.R4", sv, "header row first (unless --no-header), then the data rows in order", ok, "" if ok else f"the grid is built as {segs}", key="C20.R4@save:header-first")
    # the table the grid is written into starts no larger than the grid (writing only ever grows a table)
    docs = [c for c in body_walk(sv) if isinstance(c, ast.Call) and call_name(c) == "Document"]
    big = []
    for c in docs:
        for kw in c.keywords:
            if kw.arg in ("num_rows", "num_cols"):
                v = try_const(kw.value, default=None)
                if isinstance(v, int) and v > 1:
                    big.append(f"{kw.arg}={v}")
        if not any(kw.arg == "num_rows" for kw in c.keywords) or not any(kw.arg == "num_cols" for kw in c.keywords):
            big.append("default size")
    okd = len(docs) == 1 and not big
    rep.ob("C20.R4", docs[0] if docs else sv, "the document written starts no larger than the grid", okd,
           "" if okd else f"Document({', '.join(big)}) is larger than a small grid and cells are only ever added: a 1x1 CSV comes back as {big[0] if big else '?'} with empty cells", key="C20.R4@save:no-padding")
    ok = "doc.save(self.output_filename)" in s
    rep.ob("C20.R4", sv, "document saved to the requested output", ok, "", key="C20.R4@save:output")
    # ... and Document(num_rows=r, num_cols=c) makes a table of exactly r x c (the 1 x 1 start grown by r - 1 and c - 1)
    from ..linear import Lin as _Lin, lin as _lin
    di = repo.func("document.py", "Document.__init__")
    grown = {}
    for c in body_walk(di):
        if isinstance(c, ast.Call) and isinstance(c.func, ast.Attribute) and c.func.attr in ("add_row", "add_column") and len(c.args) == 1 and not c.keywords:
            grown.setdefault(c.func.attr, []).append(c)
    why_sz = ""
    for meth_, prm_ in (("add_row", "num_rows"), ("add_column", "num_cols")):
        calls_ = grown.get(meth_, [])
        if len(calls_) != 1:
            why_sz = why_sz or f"{len(calls_)} {meth_} calls in Document.__init__"
            continue
        l_ = _lin(calls_[0].args[0], repo.consts)
        if l_ is None or not (l_ - _Lin(-1, {prm_: 1})).is_const() or (l_ - _Lin(-1, {prm_: 1})).c != 0:
            why_sz = why_sz or f"the new table is grown by `{U(calls_[0].args[0])[:60]}` instead of {prm_} - 1: a grid of one row or one column is exported with an extra empty row or column"
    rep.ob("C20.R4", di, "Document(num_rows, num_cols) creates a table of exactly that size", not why_sz, why_sz, key="C20.R4@document:size-honoured")
    # an option's default is the same whether the converter is driven from the command line or constructed directly
    conv = repo.cls("_csv2numbers.py", "Converter")
    field_defaults = {n.target.id: try_const(n.value, default=Ellipsis) for n in conv.body if isinstance(n, ast.AnnAssign) and isinstance(n.target, ast.Name) and n.value is not None}
    clp = repo.func("_csv2numbers.py", "command_line_parser")
    differ = []
    n_opts = 0
    for c in body_walk(clp):
        if isinstance(c, ast.Call) and isinstance(c.func, ast.Attribute) and c.func.attr == "add_argument" and c.args:
            names_ = [try_const(a, default=None) for a in c.args]
            long_ = next((x for x in names_ if isinstance(x, str) and x.startswith("--")), None)
            dflt = next((kw.value for kw in c.keywords if kw.arg == "default"), None)
            dest = next((try_const(kw.value, default=None) for kw in c.keywords if kw.arg == "dest"), None) or (long_[2:].replace("-", "_") if long_ else None)
            if dest in field_defaults and dflt is not None and field_defaults[dest] is not Ellipsis:
                n_opts += 1
                dv = try_const(dflt, default=Ellipsis)
                if dv is not Ellipsis and dv != field_defaults[dest]:
                    differ.append((c, f"--{dest.replace('_', '-')}: command line default {dv!r}, Converter default {field_defaults[dest]!r}"))
    rep.ob("C20.R4", differ[0][0] if differ else clp, f"command-line defaults equal the Converter's own defaults ({n_opts} options with both)", not differ,
           "; ".join(d for _c, d in differ) + (": the same file converts differently from the command line (a leading U+FEFF of the first cell is dropped by utf-8-sig)" if differ else ""),
           key="C20.R4@cli:defaults-agree")
    # --reverse: the list of data rows is reversed exactly when the option is set (any of the usual spellings)
    def guards_of(n):
        return [U(p.test).replace(" ", "") for p in _anc(n) if isinstance(p, ast.If) and any(n is x for b in p.body for x in ast.walk(b))]
    rev = []
    for n in body_walk(td):
        if isinstance(n, ast.Assign) and len(n.targets) == 1 and U(n.targets[0]) == "self.data":
            v = U(n.value).replace(" ", "")
            if v in ("list(reversed(self.data))", "self.data[::-1]", "[*reversed(self.data)]"):
                rev.append((n, guards_of(n)))
        if isinstance(n, ast.Expr) and isinstance(n.value, ast.Call) and U(n.value.func) == "self.data.reverse" and not n.value.args:
            rev.append((n, guards_of(n)))
    ok = len(rev) == 1 and rev[0][1] == ["self.reverse"]
    rep.ob("C20.R4", rev[0][0] if rev else td, "--reverse reverses the data rows only", ok,
           "" if ok else f"reversals of self.data and their guards: {[(U(n)[:40], g) for n, g in rev]}", key="C20.R4@reverse")
    # --whitespace: the only change made to a text cell, and only when the option is set: runs of white space become one
    # blank and the ends are trimmed (re.sub(r"\\s+", " ", v.strip()) or " ".join(v.split()))
    stores = [n for n in body_walk(td) if isinstance(n, ast.Assign) and len(n.targets) == 1 and isinstance(n.targets[0], ast.Subscript) and isinstance(n.targets[0].value, ast.Name)
              and not U(n.targets[0].value).startswith("is_")]
    bad = []
    n_ws = 0
    for n in stores:
        g = guards_of(n)
        v = n.value
        vt = U(v).replace(" ", "")
        is_ws = False
        if isinstance(v, ast.Call) and U(v.func) == "re.sub" and len(v.args) == 3 and try_const(v.args[0]) == r"\s+" and try_const(v.args[1]) == " " \
                and isinstance(v.args[2], ast.Call) and last_attr(v.args[2].func) == "strip" and not v.args[2].args:
            is_ws = True
        if isinstance(v, ast.Call) and isinstance(v.func, ast.Attribute) and v.func.attr == "join" and try_const(v.func.value) == " " and len(v.args) == 1 \
                and isinstance(v.args[0], ast.Call) and last_attr(v.args[0].func) == "split" and not v.args[0].args:
            is_ws = True
        if is_ws:
            n_ws += 1
            if "self.whitespace" not in g:
                bad.append(f"`{U(n)[:60]}` normalises white space without --whitespace")
        elif "self.whitespace" in g:
            bad.append(f"`{U(n)[:60]}` under --whitespace is not the white space normalisation")
        elif isinstance(v, ast.Call) and any(last_attr(c.func) in ("strip", "lower", "upper", "title", "replace", "sub", "lstrip", "rstrip", "casefold") for c in ast.walk(v) if isinstance(c, ast.Call)) \
                and "float(" not in vt and "_parse_date" not in vt:
            bad.append(f"`{U(n)[:60]}` rewrites the text of a cell")
    ok = not bad and n_ws == 1
    rep.ob("C20.R4", td, "--whitespace is the only text normalisation", ok, "; ".join(bad[:2]) if bad else ("" if ok else f"{n_ws} white space normalisations found"), key="C20.R4@whitespace")
    # export side
    cas = repo.func("_cat_numbers.py", "cell_as_string")
    s = U(cas).replace(" ", "").replace("\n", "")
    ok = "ifisinstance(cell,NumberCell):returnsigfig(cell.value,sigfigs=MAX_SIGNIFICANT_DIGITS,warn=False)" in s and "ifcell.valueisNone:return''" in s and s.endswith("returnstr(cell.value)")
    rep.ob("C20.R4", cas, "export: numbers as 15-significant-digit values, empty cells as '', everything else as its text", ok, "", key="C20.R4@export:cell")
    pt = repo.func("_cat_numbers.py", "print_table")
    s = U(pt).replace(" ", "")
    ok = "csv.writer(sys.stdout,dialect='excel')" in s and "forrowintable.rows():" in s and "writer.writerow(cells)" in s
    rep.ob("C20.R4", pt, "export: rows written in order with the excel dialect (quotes, commas, line breaks escaped)", ok, "", key="C20.R4@export:writer")
    rep.extra["unknown_external_calls_assumed_silent"] = sorted(ea.unknown_calls)
    rep.floor("C20.R1", 3)
    rep.floor("C20.R2", 8)
    rep.floor("C20.R4", 6)


def _anc(n):
    p = getattr(n, "_parent", None)
    while p is not None:
        yield p
        p = getattr(p, "_parent", None)


VARIANTS = [
    M("cli-encoding-default-differs", "_csv2numbers.py", '        default="utf-8",', '        default="utf-8-sig",', "C20.R4"),
    M("document-size-padded-for-headers", "document.py", "            table.add_row(num_rows - 1)", "            table.add_row(max(num_rows, num_header_rows + 1) - 1)", "C20.R4"),
    M("revert-fix-two-by-two-start", "_csv2numbers.py", "        doc = Document(num_rows=num_rows, num_cols=num_cols)", "        doc = Document(num_rows=2, num_cols=2)", "C20.R4"),
    M("revert-fix-csv-newline", "_csv2numbers.py", 'with open(self.input_filename, encoding=self.encoding, newline="") as csvfile:', "with open(self.input_filename, encoding=self.encoding) as csvfile:", "C20.R2"),
    M("csv-opened-in-default-encoding", "_csv2numbers.py", 'with open(self.input_filename, encoding=self.encoding, newline="") as csvfile:', 'with open(self.input_filename, newline="") as csvfile:', "C20.R2"),
    M("revert-fix-nonfinite", "_csv2numbers.py", "                        number = float(v.replace(\",\", \"\"))\n                        # nan, inf and overflowing exponents are text, not numbers\n                        if math.isfinite(number):\n                            row[k] = number",
      "                        row[k] = float(v.replace(\",\", \"\"))", "C20.R1"),
    M("isfinite-negated", "_csv2numbers.py", "if math.isfinite(number):", "if not math.isnan(number):", "C20.R1"),
    M("main-catches-valueerror", "_csv2numbers.py", "    except RuntimeError as e:\n        print(e, file=stderr)\n        exit(1)", "    except ValueError as e:\n        print(e, file=stderr)\n        exit(1)", "C20.R2"),
    M("main-exit-zero", "_csv2numbers.py", "    except RuntimeError as e:\n        print(e, file=stderr)\n        exit(1)", "    except RuntimeError as e:\n        print(e, file=stderr)\n        exit(0)", "C20.R2"),
    M("reader-csv-error-untranslated", "_csv2numbers.py", "        except csv.Error as e:\n            msg = f\"{self.input_filename}@{lineno}: {e.args[0]}\"\n            raise RuntimeError(msg) from e", "        except csv.Error as e:\n            msg = f\"{self.input_filename}@{lineno}: {e.args[0]}\"\n            raise ValueError(msg) from e", "C20.R2"),
    M("delete-raises-keyerror", "_csv2numbers.py", "            msg += \": cannot delete: column(s) do not exist in CSV\"\n            raise RuntimeError(msg) from None", "            msg += \": cannot delete: column(s) do not exist in CSV\"\n            raise KeyError(msg) from None", "C20.R2"),
    M("save-transposed", "_csv2numbers.py", "                table.write(row_num, col_num, value)", "                table.write(col_num, row_num, value)", "C20.R4"),
    M("save-outside-handler", "_csv2numbers.py", "            converter.delete_columns(args.delete)\n            converter.save()\n    except RuntimeError as e:", "            converter.delete_columns(args.delete)\n    except RuntimeError as e:", "C20.R2",
      more=(("_csv2numbers.py", "        print(e, file=stderr)\n        exit(1)\n\n\nif __name__", "        print(e, file=stderr)\n        exit(1)\n    converter.save()\n\n\nif __name__"),)),
    T("isfinite-via-isinf-isnan", "_csv2numbers.py", "if math.isfinite(number):", "if not math.isnan(number) and not math.isinf(number):"),
]

"""C16 — table geometry and labels survive save and reopen unchanged."""

from __future__ import annotations

import ast

from .. import cfg as cfgmod
from ..core import AnalysisError, U, body_walk, call_name, last_attr, try_const
from ..effects import EffectAnalysis
from ..selftest import M, T

EXPLANATION = (
    "provenance of persisted row/column sizes (never a literal default; read from the stored headers before those headers "
    "are cleared; border allowance added by the reader must be compensated by the writer), field-chain agreement of every dual "
    "get/set accessor and of the Table/Sheet properties that forward to them, effect closure of the save path on label and "
    "geometry fields, and ownership of fresh header buckets/lists by a newly added table"
)
TRUSTED = ["python ast", "statement CFG", "effect analysis with receiver-table call resolution"]

DUAL = {
    # accessor: (value parameter, field chain text read and written)
    "sheet_name": ("value", "self.objects[sheet_id].name"),
    "table_name": ("value", "self.objects[table_id].table_name"),
    "table_name_enabled": ("enabled", "self.objects[table_id].table_name_enabled"),
    "number_of_rows": ("num_rows", "self.objects[table_id].number_of_rows"),
    "number_of_columns": ("num_cols", "self.objects[table_id].number_of_columns"),
    "num_header_rows": ("num_headers", "table_model.number_of_header_rows"),
    "num_header_cols": ("num_headers", "table_model.number_of_header_columns"),
}
FORWARD = {
    # Table/Sheet member -> (model accessor, id attribute)
    ("Table", "name"): ("table_name", "self._table_id"), ("Table", "table_name_enabled"): ("table_name_enabled", "self._table_id"),
    ("Table", "caption_enabled"): ("caption_enabled", "self._table_id"), ("Table", "caption"): ("caption_text", "self._table_id"),
    ("Table", "num_header_rows"): ("num_header_rows", "self._table_id"), ("Table", "num_header_cols"): ("num_header_cols", "self._table_id"),
    ("Sheet", "name"): ("sheet_name", "self._sheet_id"),
}


def _anc_nodes(n):
    p = getattr(n, "_parent", None)
    while p is not None:
        yield p
        p = getattr(p, "_parent", None)


def run(repo, rep, tier):
    # ---- R1 provenance of persisted sizes
    for qual, reader, sizes in (("recalculate_row_headers", "row_height", "_row_heights"), ("recalculate_column_headers", "col_width", "_col_widths")):
        f = repo.func("model.py", f"_NumbersModel.{qual}")
        g = cfgmod.build(f)
        hdr = [c for c in body_walk(f) if isinstance(c, ast.Call) and last_attr(c.func) == "Header"]
        if not hdr:
            raise AnalysisError(f"{qual}: Header(...) construction not found")
        size_kw = next((kw.value for kw in hdr[0].keywords if kw.arg == "size"), None)
        if size_kw is None:
            rep.ob("C16.R1", hdr[0], f"{qual}: header carries a size", False, "", key=f"C16.R1@{qual}:size-kw")
            continue
        # (a) no literal reaches size=
        var = U(size_kw)
        lits = []
        if isinstance(size_kw, ast.Constant):
            lits.append(U(size_kw))
        for n in body_walk(f):
            if isinstance(n, ast.Assign) and U(n.targets[0]) == var and isinstance(n.value, ast.Constant) and isinstance(n.value.value, (int, float)):
                lits.append(U(n))
        rep.ob("C16.R1", hdr[0], f"{qual}: size={var} is never a literal default", not lits,
               "" if not lits else f"{lits}: a row/column whose size was never queried is saved with the literal instead of its stored size (77 -> 20 after an untouched re-save)",
               key=f"C16.R1@{qual}:literal")
        # provenance: the value derives from the reader accessor
        reads = [c for c in body_walk(f) if isinstance(c, ast.Call) and U(c.func) == f"self.{reader}"]
        memo_reads = [n for n in body_walk(f) if isinstance(n, ast.Subscript) and f"self.{sizes}[table_id]" in U(n.value)]
        ok = bool(reads)
        rep.ob("C16.R1", f, f"{qual}: sizes come from self.{reader}(table_id, i) for every index", ok,
               "" if ok else f"sizes are taken from {'the memo only' if memo_reads else 'elsewhere'}: stored sizes that nobody queried are forgotten", key=f"C16.R1@{qual}:source")
        if reads:
            a = [U(x) for x in reads[0].args]
            ok = len(a) == 2 and a[0] == "table_id"
            rep.ob("C16.R1", reads[0], f"{qual}: {reader} is read (not set) for the same table", ok, f"{a}", key=f"C16.R1@{qual}:read-args")
        # (c) read before the stored headers are cleared
        clears = [c for c in body_walk(f) if isinstance(c, ast.Call) and call_name(c) == "clear_field_container"]
        bad = []
        for c in clears:
            for r in reads:
                a, b = g.node_of(c), g.node_of(r)
                if a is not None and b is not None and g.paths_avoiding(a, b, set()):
                    bad.append(U(r)[:50])
        rep.ob("C16.R1", clears[0] if clears else f, f"{qual}: stored sizes are read before the header bucket is cleared", bool(clears) and not bad,
               "" if clears and not bad else f"{bad} run after the bucket is emptied: sizes not yet memoised fall back to the table default",
               key=f"C16.R1@{qual}:read-before-clear")
        # the record's index is the position the enclosing loop counts (read through the header-writer model)
        from .. import headers as _hm
        hm_ = _hm.model(repo, "row" if reader == "row_height" else "column")
        idx_bad = [x for x in hm_["problems"] if "record's index" in x]
        ok = not idx_bad
        rep.ob("C16.R1", hdr[0], f"{qual}: header index is the row/column itself", ok, "; ".join(idx_bad), key=f"C16.R1@{qual}:index")
    # (b) border allowance added by the reader must be compensated by the writer
    for reader, qual, axis in (("row_height", "recalculate_row_headers", "row"), ("col_width", "recalculate_column_headers", "column")):
        rf = repo.func("model.py", f"_NumbersModel.{reader}")
        # the terms the summarised reader adds to the rounded stored size (half the widest border on either side)
        from .. import sizeread as _sr
        adds = sorted(_sr.check(repo, reader)[2]["allowance"])
        wf = repo.func("model.py", f"_NumbersModel.{qual}")
        compensates = any(isinstance(n, (ast.BinOp, ast.AugAssign)) and isinstance(n.op, ast.Sub) and "border" in U(n) for n in ast.walk(wf)) or "stored_" in U(wf)
        ok = not adds or compensates
        rep.ob("C16.R1", wf, f"{qual}: border allowance added by {reader} ({len(adds)} terms) is removed before the size is written back", ok,
               "" if ok else f"{reader} reports stored size + half the widest borders; {qual} writes that reported size back: every save/reopen cycle grows a bordered {axis} by the allowance again",
               key=f"C16.R1b@{qual}:border-allowance-drift")
    # memo discipline of the size accessors
    from .. import sizeread
    # the per-table maps of the size memo are created empty, one per table
    for sizes in ("_row_heights", "_col_widths"):
        sites = []
        for n in ast.walk(repo.tree("model.py")):
            if isinstance(n, (ast.Assign, ast.AnnAssign)):
                for tg in (n.targets if isinstance(n, ast.Assign) else [n.target]):
                    if U(tg) == f"self.{sizes}" or (isinstance(tg, ast.Subscript) and U(tg.value) == f"self.{sizes}"):
                        sites.append((n, tg))
            elif isinstance(n, ast.Call) and isinstance(n.func, ast.Attribute) and n.func.attr == "setdefault" and U(n.func.value) == f"self.{sizes}" and len(n.args) == 2:
                sites.append((n, None))
        if not sites:
            raise AnalysisError(f"no initialisation of self.{sizes} found in model.py")
        bad = []
        for n, tg in sites:
            v = n.args[1] if tg is None else n.value
            fresh_empty = (isinstance(v, ast.Dict) and not v.keys) or (isinstance(v, ast.Call) and U(v) in ("dict()", "defaultdict(dict)"))
            if not fresh_empty:
                bad.append((n, U(v)[:70]))
        rep.ob("C16.R2", bad[0][0] if bad else sites[0][0], f"self.{sizes}: the memo and each table's map in it start as a fresh empty dict ({len(sites)} sites)", not bad,
               "" if not bad else f"`{bad[0][1]}`: the per-table maps are not fresh empty dicts of their own (a shared or pre-filled map makes one table's sizes answer for another's)",
               key=f"C16.R2@{sizes}:fresh-maps")
    for reader, idxname in (("row_height", "row"), ("col_width", "column")):
        rf, n_sc, pr = sizeread.check(repo, reader)
        idx = rf.args.args[2].arg

        def emit(cat, title, key):
            ps = pr[cat]
            rep.ob("C16.R2", ps[0][0] if ps else rf, f"{reader}: {title} ({n_sc} scenarios of the summarised accessor)", not ps,
                   "" if not ps else ps[0][1] + (f" (and {len(ps) - 1} more)" if len(ps) > 1 else ""), key=key)
        emit("set", f"setting stores the value for exactly (table, {idx})", f"C16.R2@{reader}:set")
        emit("get-memo", "a set or memoised value is returned as is; a computed size is memoised under the same key", f"C16.R2@{reader}:get-memo")
        emit("lookup", "stored size looked up by the header's own index", f"C16.R2@{reader}:lookup")
        emit("fields", f"reads the {idxname} header bucket of the table and the table's default size", f"C16.R2@{reader}:fields")
    s1, s2 = U(repo.func("model.py", "_NumbersModel.recalculate_row_headers")), U(repo.func("model.py", "_NumbersModel.recalculate_column_headers"))
    ok = "base_data_store.rowHeaders.buckets[0].identifier" in s1 and "base_data_store.columnHeaders.identifier" in s2
    rep.ob("C16.R2", repo.func("model.py", "_NumbersModel.recalculate_row_headers"), "writers fill the same buckets the readers consult", ok, "", key="C16.R2@buckets-agree")

    # ---- R2 dual accessors
    for name, (param, chain) in DUAL.items():
        f = repo.func("model.py", f"_NumbersModel.{name}")
        params = [a.arg for a in f.args.args]
        okp = param in params and isinstance(try_const(f.args.defaults[-1]) if f.args.defaults else 0, type(None))
        writes = [n for n in body_walk(f) if isinstance(n, ast.Assign) and isinstance(n.targets[0], ast.Attribute)]
        rets = [n for n in body_walk(f) if isinstance(n, ast.Return) and n.value is not None and not isinstance(n.value, ast.Constant)]
        okw = len(writes) == 1 and U(writes[0].targets[0]) == chain and U(writes[0].value) == param
        okr = bool(rets) and all(U(r.value) == chain for r in rets)
        # the write happens only when a value is given
        guard = None
        for p in _anc(writes[0]) if writes else []:
            if isinstance(p, ast.If):
                guard = U(p.test).replace(" ", "")
        tail_after_return = False
        if writes and guard is None:
            # ``if value is None: return ...`` followed by the write
            firsts = [n for n in f.body if isinstance(n, ast.If) and U(n.test).replace(" ", "") == f"{param}isNone" and any(isinstance(x, ast.Return) for x in n.body)]
            tail_after_return = bool(firsts)
        okg = guard == f"{param}isnotNone" or tail_after_return
        rep.ob("C16.R2", f, f"{name}: reads and writes `{chain}`; writes only when `{param}` is given", okp and okw and okr and okg,
               "" if okp and okw and okr and okg else f"write: {[U(w) for w in writes]}, read: {[U(r.value) for r in rets]}, guard: {guard}", key=f"C16.R2@{name}")
    ce = repo.func("model.py", "_NumbersModel.caption_enabled")
    s = U(ce).replace(" ", "").replace("\n", "")
    ok = "ifenabledisnotNone:table_info.super.caption_hidden=notenabledreturnNone" in s and "returnnottable_info.super.caption_hidden" in s
    rep.ob("C16.R2", ce, "caption_enabled: stored as the logical inverse (caption_hidden) both ways", ok, "" if ok else "visibility is inverted on one side only", key="C16.R2@caption_enabled")
    writers = []
    for rel in ("model.py", "document.py"):
        for fn in [x for x in ast.walk(repo.tree(rel)) if isinstance(x, ast.FunctionDef)]:
            for n in body_walk(fn):
                tg = n.targets if isinstance(n, ast.Assign) else ([n.target] if isinstance(n, (ast.AugAssign, ast.AnnAssign)) else [])
                if any(isinstance(t, ast.Attribute) and t.attr == "caption_hidden" for t in tg):
                    writers.append((fn.name, n))
    extra = [(w, n) for w, n in writers if w != "caption_enabled"]
    rep.ob("C16.R2", extra[0][1] if extra else ce, f"caption visibility is written only by caption_enabled (writers: {sorted({w for w, _ in writers})})", not extra,
           "" if not extra else f"{extra[0][0]} also sets caption_hidden: creating or editing the caption text changes the visibility that was set through the API",
           key="C16.R2@caption_hidden:writers")
    ct = repo.func("model.py", "_NumbersModel.caption_text")
    # caption_text from its summary (every call statement recorded as an effect): reading returns the default text for a
    # stand-in or empty caption and text[0] of the caption's own storage otherwise, changing nothing; writing creates the
    # real caption archive if needed, then clears and fills the text of that same storage
    from ..funsum import Summarizer, decide, expect
    tid_p, cparam = ct.args.args[1].arg, ct.args.args[2].arg
    cpaths = Summarizer(effect_calls={"*"}).summarize(ct)
    ARCH = f"self.objects[self.objects[self.table_info_id({tid_p})].super.caption.identifier]"
    STOR = f"self.objects[{ARCH}.super.owned_storage.identifier]"
    default = repo.consts.get("DEFAULT_CAPTION_TEXT", "Caption")
    standin = repo.consts.get("STANDIN_CAPTION_ARCHIVE", "StandinCaptionArchive")
    bad = []
    n_sc = 0
    for given, is_standin, empty in ((False, True, False), (False, False, True), (False, False, False), (True, True, False), (True, False, False)):
        sc = {f"{cparam} is None": not given, expect(f"{ARCH}.DESCRIPTOR.name == {standin!r}"): is_standin, expect(f"len({STOR}.text) == 0"): empty,
              expect(f"len({STOR}.text)"): 0 if empty else 1}
        for fx, kind, got, p_ in decide(cpaths, sc):
            n_sc += 1
            fxs = [(k_, expect(U(v_)) if not isinstance(v_, str) else v_) for k_, v_, _n in p_.effects]
            where = f"caption given={given}, stand-in caption={is_standin}, stored text empty={empty}" + (f", {fx}" if fx else "")
            if not given:
                want = expect(repr(default)) if (is_standin or empty) else expect(f"{STOR}.text[0]")
                if kind != "return" or got != want or fxs:
                    bad.append(f"{where}: returns `{got}`" + (f" after {fxs[0][0]}" if fxs else "") + f" instead of `{want}` with nothing changed")
            else:
                want_fx = ([("call:self.create_caption_archive", tid_p)] if is_standin else []) + [("call:clear_field_container", expect(f"{STOR}.text")), (f"call:{expect(STOR + '.text.append')}", cparam)]
                if kind != "return" or got != "None" or fxs != want_fx:
                    bad.append(f"{where}: does {fxs} and returns `{got}`; expected {want_fx}")
    ok = not bad and n_sc >= 5
    detail_ct = "; ".join(bad[:2])
    rep.ob("C16.R2", ct, "caption_text: written to and read from text[0] of the caption's own storage", ok, detail_ct, key="C16.R2@caption_text")
    tc = repo.func("model.py", "_NumbersModel.table_coordinates")
    s = U(tc).replace(" ", "").replace("\n", "")
    ok = "return(table_info.super.geometry.position.x,table_info.super.geometry.position.y)" in s
    rep.ob("C16.R2", tc, "table_coordinates returns (x, y) of the table's own geometry", ok, "", key="C16.R2@coordinates")
    # properties forward with the same id
    for (cls, member), (acc, idattr) in FORWARD.items():
        getter = repo.func("document.py", f"{cls}.{member}@getter")
        setter = repo.func("document.py", f"{cls}.{member}@setter")
        gc = [c for c in body_walk(getter) if isinstance(c, ast.Call) and U(c.func) == f"self._model.{acc}"]
        sc = [c for c in body_walk(setter) if isinstance(c, ast.Call) and U(c.func) == f"self._model.{acc}"]
        sparam = setter.args.args[1].arg
        ok = bool(gc) and [U(a) for a in gc[0].args] == [idattr] and bool(sc) and [U(a) for a in sc[0].args] == [idattr, sparam]
        rep.ob("C16.R2", getter, f"{cls}.{member}: getter and setter forward to model.{acc}({idattr}[, value])", ok, "", key=f"C16.R2@forward:{cls}.{member}")
    for member, acc in (("height", "table_height"), ("width", "table_width"), ("coordinates", "table_coordinates")):
        f = repo.func("document.py", f"Table.{member}")
        ok = f"self._model.{acc}(self._table_id)" in U(f)
        rep.ob("C16.R2", f, f"Table.{member} forwards to model.{acc}(self._table_id)", ok, "", key=f"C16.R2@forward:Table.{member}")
    for member, acc, p in (("row_height", "row_height", "row, height"), ("col_width", "col_width", "col, width")):
        f = repo.func("document.py", f"Table.{member}")
        ok = f"self._model.{acc}(self._table_id, {p})" in U(f)
        rep.ob("C16.R2", f, f"Table.{member} forwards (index, value) unchanged", ok, "", key=f"C16.R2@forward:Table.{member}")
    for member, limit in (("num_header_rows", "self.num_rows"), ("num_header_cols", "self.num_cols")):
        f = repo.func("document.py", f"Table.{member}@setter")
        s = U(f).replace(" ", "")
        ok = "ifnum_headers<0:" in s and f"ifnum_headers>{limit}:" in s and "ifnum_headers>MAX_HEADER_COUNT:" in s and s.count("raiseValueError(msg)") == 3
        rep.ob("C16.R2", f, f"Table.{member} setter validates 0 <= n <= {limit}, n <= MAX_HEADER_COUNT", ok, "", key=f"C16.R2@validate:{member}")

    # ---- R3 the save closure does not touch labels / geometry
    ea = EffectAnalysis(repo)
    rtd = repo.func("model.py", "_NumbersModel.recalculate_table_data")
    eff = ea.effects(rtd, frozenset())
    LABEL_FIELDS = (".table_name =", ".table_name_enabled =", ".name =", "caption_hidden", "number_of_header_rows =", "number_of_header_columns =", "geometry.position", ".text.append(", "header_rows_frozen")
    bad = sorted(e for e in eff if e[0] == "PROTO" and any(x in e[1] for x in LABEL_FIELDS))
    rep.ob("C16.R3", rtd, f"saving a table writes no name/caption/header-count/position field ({len(eff)} effects inspected)", not bad,
           "" if not bad else f"{bad[0][1]} at {bad[0][2]}", key="C16.R3@save-closure")
    if len(eff) < 10:
        raise AnalysisError("effect closure of recalculate_table_data is implausibly small: call resolution broken")
    s = U(rtd).replace(" ", "")
    ok = "table_model.number_of_rows=len(data)" in s and "table_model.number_of_columns=len(data[0])" in s
    rep.ob("C16.R3", rtd, "dimensions written on save come from the grid", ok, "", key="C16.R3@dims")

    # ---- R4 a newly added table owns fresh lists and header buckets
    at = repo.func("model.py", "_NumbersModel.add_table")
    g = cfgmod.build(at)
    want = {"stringTable": "table_strings_id", "columnHeaders": "column_headers_id", "styleTable": "style_table_id", "formula_table": "formula_table_id", "format_table_pre_bnc": "format_table_pre_bnc_id"}
    merge = [c for c in body_walk(at) if isinstance(c, ast.Call) and last_attr(c.func) == "DataStore" and any(kw.arg is None and U(kw.value) == "data_store_refs" for kw in c.keywords)]
    if not merge:
        raise AnalysisError("add_table: DataStore(**data_store_refs) not found")
    for key, idvar in want.items():
        st = [n for n in body_walk(at) if isinstance(n, ast.Assign) and isinstance(n.targets[0], ast.Subscript) and U(n.targets[0].value) == "data_store_refs" and try_const(n.targets[0].slice) == key]
        ok = bool(st) and idvar in U(st[0].value) and cfgmod.dominates(at, st[0], merge[0])
        rep.ob("C16.R4", st[0] if st else at, f"add_table: new table's {key} is the freshly created {idvar}", ok,
               "" if ok else "the new table keeps sharing the source table's object: sizes/strings/styles of the two tables overwrite each other on save", key=f"C16.R4@add_table:{key}")
    # stores into a dict after its last use are dead
    dicts = {U(n.targets[0]) for n in body_walk(at) if isinstance(n, ast.Assign) and isinstance(n.targets[0], ast.Name) and isinstance(n.value, ast.Call) and call_name(n.value) == "field_references"}
    for d in sorted(dicts):
        uses = [n for n in body_walk(at) if isinstance(n, ast.Name) and n.id == d and isinstance(n.ctx, ast.Load) and not isinstance(getattr(n, "_parent", None), ast.Subscript)]
        stores = [n for n in body_walk(at) if isinstance(n, ast.Assign) and isinstance(n.targets[0], ast.Subscript) and U(n.targets[0].value) == d]
        dead = [U(s)[:60] for s in stores if not any(g.node_of(s) is not None and g.node_of(u) is not None and g.paths_avoiding(g.node_of(s), g.node_of(u), set()) and g.node_of(s) != g.node_of(u) for u in uses)]
        rep.ob("C16.R4", at, f"add_table: every store into `{d}` is consumed afterwards", not dead, f"dead stores: {dead}", key=f"C16.R4@add_table:dead:{d}")
    rh = [c for c in body_walk(at) if isinstance(c, ast.Call) and U(c.func) == "table_model.base_data_store.rowHeaders.buckets.append"]
    ok = bool(rh) and "row_headers_id" in U(rh[0])
    rep.ob("C16.R4", rh[0] if rh else at, "add_table: new table gets its own row header bucket", ok, "", key="C16.R4@add_table:rowHeaders")
    ok = "'table_name': table_name" in U(at) and "'number_of_rows': num_rows" in U(at) and "'number_of_columns': num_cols" in U(at) \
        and "'number_of_header_rows': number_of_header_rows" in U(at) and "'number_of_header_columns': number_of_header_columns" in U(at)
    rep.ob("C16.R4", at, "add_table: name, dimensions and header counts of the new table are the requested ones", ok, "", key="C16.R4@add_table:labels")
    rep.floor("C16.R1", 10)
    rep.floor("C16.R2", 30)
    rep.floor("C16.R3", 2)
    rep.floor("C16.R4", 8)


def _anc(n):
    p = getattr(n, "_parent", None)
    while p is not None:
        yield p
        p = getattr(p, "_parent", None)


VARIANTS = [
    M("revert-fix-size-set-before-strokes", "model.py", "            # Stored strokes are applied first: applying them later drops the sizes of the columns they touch\n            self.extract_strokes(table_id)\n", "", "C16.R2"),
    M("caption-text-not-cleared-before-append", "model.py", "            clear_field_container(self.objects[caption_storage_id].text)\n            self.objects[caption_storage_id].text.append(caption)", "            self.objects[caption_storage_id].text.append(caption)", "C16.R2"),
    M("caption-text-reads-last-entry", "model.py", "        return self.objects[caption_storage_id].text[0]", "        return self.objects[caption_storage_id].text[-1]", "C16.R2"),
    M("caption-text-query-creates-archive", "model.py", "            if caption is None:\n                return \"Caption\"\n            self.create_caption_archive(table_id)", "            self.create_caption_archive(table_id)", "C16.R"),
    M("size-memo-shared-map", "model.py", "        self._row_heights = {}\n", "        self._row_heights = dict.fromkeys(self.table_ids(), {})\n", "C16.R2"),
    M("size-reader-by-position", "model.py", "        if row in bucket_map and bucket_map[row].size != 0.0:\n            height = round(bucket_map[row].size)",
      "        if row < len(buckets) and buckets[row].size != 0.0:\n            height = round(buckets[row].size)", "C16.R2"),
    M("size-setter-wrong-key", "model.py", "            self._col_widths[table_id][col] = width\n            return width", "            self._col_widths[table_id][col + 1] = width\n            return width", "C16.R2"),
    T("size-reader-setdefault", "model.py", "        if table_id not in self._row_heights:\n            self._row_heights[table_id] = {}\n        self._row_heights[table_id][row] = floor(height)\n        return self._row_heights[table_id][row]",
      "        memo = self._row_heights.setdefault(table_id, {})\n        memo[row] = floor(height)\n        return memo[row]"),
    M("revert-fix-literal-height", "model.py", "            height = current_row_heights[row]\n",
      "            if table_id in self._row_heights and row in self._row_heights[table_id]:\n                height = self._row_heights[table_id][row]\n            else:\n                height = 0.0\n", "C16.R1"),
    M("read-after-clear", "model.py",
      "        current_row_heights = {}\n        for row in range(len(data)):\n            current_row_heights[row] = self.row_height(table_id, row)\n\n        base_data_store = self.objects[table_id].base_data_store\n        buckets = self.objects[base_data_store.rowHeaders.buckets[0].identifier]\n        clear_field_container(buckets.headers)\n        for row in range(len(data)):\n            height = current_row_heights[row]\n",
      "        base_data_store = self.objects[table_id].base_data_store\n        buckets = self.objects[base_data_store.rowHeaders.buckets[0].identifier]\n        clear_field_container(buckets.headers)\n        for row in range(len(data)):\n            height = self.row_height(table_id, row)\n", "C16.R1"),
    M("caption-archive-rehides", "model.py", "        self.set_reference(table_info.super.caption, caption_info_id)\n", "        self.set_reference(table_info.super.caption, caption_info_id)\n        table_info.super.caption_hidden = True\n", "C16.R2"),
    M("caption-hidden-not-inverted", "model.py", "table_info.super.caption_hidden = not enabled", "table_info.super.caption_hidden = enabled", "C16.R2"),
    M("table-name-wrong-field", "model.py", "        self.objects[table_id].table_name = value\n        return None", "        self.objects[table_id].table_name_enabled = value\n        return None", "C16.R2"),
    M("header-cols-writes-rows", "model.py", "            table_model.number_of_header_columns = num_headers", "            table_model.number_of_header_rows = num_headers", "C16.R2"),
    M("sheet-name-forward-table-id", "document.py", "        self._model.sheet_name(self._sheet_id, value)", "        self._model.sheet_name(self._tables[0]._table_id, value)", "C16.R2"),
    M("new-table-shares-column-headers", "model.py", 'data_store_refs["columnHeaders"] = {"identifier": column_headers_id}', 'from_table_refs["columnHeaders"] = {"identifier": column_headers_id}', "C16.R4"),
    M("save-resets-header-rows", "model.py", "        table_model.number_of_rows = len(data)\n        table_model.number_of_columns = len(data[0])\n\n        self.init_table_strings(table_id)",
      "        table_model.number_of_rows = len(data)\n        table_model.number_of_columns = len(data[0])\n        table_model.number_of_header_rows = min(table_model.number_of_header_rows, 1)\n\n        self.init_table_strings(table_id)", "C16.R3"),
    M("col-width-lookup-by-position", "model.py", "        if col in bucket_map and bucket_map[col].size != 0.0:\n            width = round(bucket_map[col].size)", "        if col < len(buckets) and buckets[col].size != 0.0:\n            width = round(buckets[col].size)", "C16.R2"),
    T("row-heights-comprehension", "model.py", "        current_row_heights = {}\n        for row in range(len(data)):\n            current_row_heights[row] = self.row_height(table_id, row)\n",
      "        current_row_heights = {row: self.row_height(table_id, row) for row in range(len(data))}\n"),
]

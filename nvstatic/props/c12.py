"""C12 — merged regions are reported consistently, immediately and after reload."""

from __future__ import annotations

import ast

from .. import cfg as cfgmod
from ..core import AnalysisError, U, body_walk, call_name, last_attr, try_const
from ..linear import Lin, lin
from ..selftest import M, T

EXPLANATION = (
    "rectangle coverage: around every MergeCells.add_reference(r, c, (a, b, c2, d)) the enclosing loops must be "
    "range(a, c2+1) x range(b, d+1) with the anchor skipped or re-anchored afterwards, and Table.merge_cells replaces the "
    "same cells in the grid; (rows, cols) / (row_start, col_start, row_end, col_end) tuple conventions at every use site; "
    "shift/mask packing agreement between merge-map writer and reader; merge map maintenance across structural edits"
)
TRUSTED = ["python ast", "statement CFG", "linear forms"]


def _enclosing_ranges(node, stop):
    """Map loop variable -> (lo Lin, hi_exclusive Lin) for enclosing ``for v in range(..)`` loops."""
    out = {}
    loops = []
    p = getattr(node, "_parent", None)
    while p is not None and p is not stop:
        if isinstance(p, ast.For) and isinstance(p.iter, ast.Call) and call_name(p.iter) == "range" and isinstance(p.target, ast.Name):
            a = p.iter.args
            lo = lin(a[0]) if len(a) == 2 else Lin(0)
            hi = lin(a[-1])
            out[p.target.id] = (lo, hi)
            loops.append(p)
        p = getattr(p, "_parent", None)
    return out, loops


def _eq(a, b):
    return a is not None and b is not None and (a - b).is_const() and (a - b).c == 0


def check_reference_site(rep, f, call, where):
    """One add_reference(r, c, rect) call: coverage of the rectangle."""
    g = cfgmod.build(f)
    if len(call.args) != 3 or not isinstance(call.args[2], ast.Tuple) or len(call.args[2].elts) != 4:
        rep.ob("C12.R1", call, f"{where}: add_reference(row, col, (4-tuple))", False, "unrecognised call shape", key=f"C12.R1@{where}:shape")
        return
    r, c = U(call.args[0]), U(call.args[1])
    a, b, c2, d = [lin(e) for e in call.args[2].elts]
    ranges, loops = _enclosing_ranges(call, f)
    ok = r in ranges and c in ranges
    detail = ""
    if ok:
        (rlo, rhi), (clo, chi) = ranges[r], ranges[c]
        okr = _eq(rlo, a) and _eq(rhi, c2 + Lin(1))
        okc = _eq(clo, b) and _eq(chi, d + Lin(1))
        ok = okr and okc
        if not ok:
            detail = (f"loops run rows [{rlo}, {rhi}) x cols [{clo}, {chi}) (as `>= 0` forms) but the rectangle is rows "
                      f"{U(call.args[2].elts[0])}..{U(call.args[2].elts[2])}, cols {U(call.args[2].elts[1])}..{U(call.args[2].elts[3])}: "
                      "cells of the first row/column of the rectangle are not covered")
    else:
        detail = f"({r}, {c}) are not both loop variables over ranges"
    rep.ob("C12.R1", call, f"{where}: references cover the whole rectangle", ok, detail, key=f"C12.R1@{where}:coverage")
    # anchor: skipped in the loop, or (re-)anchored after the loops
    recv = U(call.func.value)
    outer = loops[-1] if loops else None
    block = []
    if outer is not None:
        par = getattr(outer, "_parent", None)
        for fld in ("body", "orelse"):
            if outer in getattr(par, fld, []):
                block = getattr(par, fld)
    anchors = [n for st in block for n in ast.walk(st) if st is not outer and isinstance(n, ast.Call) and last_attr(n.func) == "add_anchor" and U(n.func.value) == recv]
    after = [an for an in anchors if outer is not None and g.node_of(an) is not None and g.paths_avoiding(g.node_of(outer), g.node_of(an), set())
             and not any(an is x for x in ast.walk(outer))]
    skip = False
    if loops:
        inner = loops[0]
        for st in inner.body:
            if isinstance(st, ast.If) and any(isinstance(x, ast.Continue) for x in st.body):
                t = U(st.test).replace(" ", "")
                e = call.args[2].elts
                if t in (f"({r},{c})==({U(e[0])},{U(e[1])})", f"{r}=={U(e[0])}and{c}=={U(e[1])}"):
                    # the skip must precede the reference
                    skip = inner.body.index(st) < [i for i, x in enumerate(inner.body) if any(call is y for y in ast.walk(x))][0]
    oka = bool(after) or skip
    rep.ob("C12.R1", call, f"{where}: anchor cell is skipped or re-anchored after the loops", oka,
           "" if oka else "the anchor is overwritten by a reference to itself (top-left cell stops reporting the merge)", key=f"C12.R1@{where}:anchor")
    for an in anchors:
        if len(an.args) == 3:
            e = call.args[2].elts
            oke = U(an.args[0]) == U(e[0]) and U(an.args[1]) == U(e[1])
            rep.ob("C12.R1", an, f"{where}: anchor at the rectangle's top-left `{U(an)[:60]}`", oke, "", key=f"C12.R1@{where}:anchor-pos")
            if isinstance(an.args[2], ast.Tuple) and len(an.args[2].elts) == 2:
                sr, sc = lin(an.args[2].elts[0]), lin(an.args[2].elts[1])
                # resolve simple local definitions
                # resolve the rectangle's end coordinates through their definitions in this block
                defs = {}
                for stx in block:
                    if isinstance(stx, ast.Assign) and isinstance(stx.targets[0], ast.Name) and lin(stx.value) is not None:
                        defs[stx.targets[0].id] = lin(stx.value)
                def expand(x):
                    if x is None:
                        return None
                    for _ in range(3):
                        for sym in list(x.t):
                            if sym in defs and sym not in defs[sym].t:
                                x = x.subst(sym, defs[sym])
                    return x
                oks = _eq(expand(sr), expand(c2 - a + Lin(1))) and _eq(expand(sc), expand(d - b + Lin(1)))
                rep.ob("C12.R2", an, f"{where}: anchor size = (rows, cols) of the rectangle", oks,
                       "" if oks else f"size is ({sr}, {sc}) in `>= 0` form; expected (row_end-row_start+1, col_end-col_start+1)", key=f"C12.R2@{where}:anchor-size")
            else:
                # size variable: must be a (rows, cols) tuple defined in the function
                sz = [n for n in body_walk(f) if isinstance(n, ast.Assign) and U(n.targets[0]) == U(an.args[2]) and isinstance(n.value, ast.Tuple)]
                if sz:
                    sr, sc = lin(sz[0].value.elts[0]), lin(sz[0].value.elts[1])
                    oks = _eq(sr, c2 - a + Lin(1)) and _eq(sc, d - b + Lin(1))
                    rep.ob("C12.R2", sz[0], f"{where}: `{U(sz[0])}` = (rows, cols)", oks, "", key=f"C12.R2@{where}:anchor-size")


def run(repo, rep, tier):
    # ---- R1 Table.merge_cells
    mc = repo.func("document.py", "Table.merge_cells")
    refs = [n for n in body_walk(mc) if isinstance(n, ast.Call) and last_attr(n.func) == "add_reference"]
    if not refs:
        raise AnalysisError("Table.merge_cells: add_reference call not found")
    for call in refs:
        check_reference_site(rep, mc, call, "Table.merge_cells")
        # the grid replacement sits in the same loops with the same indices
        r, c = U(call.args[0]), U(call.args[1])
        ranges, loops = _enclosing_ranges(call, mc)
        stores = [n for n in body_walk(mc) if isinstance(n, ast.Assign) and isinstance(n.targets[0], ast.Subscript) and U(n.targets[0].value).startswith("self._data[")
                  and isinstance(n.value, ast.Call) and last_attr(n.value.func) == "_merged_cell"]
        ok = False
        detail = "no `self._data[row][col] = Cell._merged_cell(...)` store"
        for st in stores:
            sub = st.targets[0]
            same_loop = loops and any(st is x for x in ast.walk(loops[0]))
            idx_ok = U(sub.value.slice) == r and U(sub.slice) == c
            a = [U(x) for x in st.value.args]
            args_ok = len(a) == 4 and a[0] == "self._table_id" and a[1] == r and a[2] == c
            # not executed for the anchor: after the skip (same block as the reference)
            ok = bool(same_loop) and idx_ok and args_ok
            detail = "" if ok else f"placeholder store `{U(st)[:70]}` is not in the rectangle loops with indices ({r}, {c})"
            # reference must be registered before the placeholder is built (it reads the merge map)
            if ok:
                blk = loops[0].body
                i_ref = [i for i, x in enumerate(blk) if any(call is y for y in ast.walk(x))]
                i_st = [i for i, x in enumerate(blk) if x is st]
                ok2 = bool(i_ref) and bool(i_st) and i_ref[0] < i_st[0]
                rep.ob("C12.R1", st, "Table.merge_cells: reference registered before the placeholder reads it", ok2,
                       "" if ok2 else "the placeholder is created before its merge reference exists: it reports no rectangle until the final refresh",
                       key="C12.R1@Table.merge_cells:order")
        rep.ob("C12.R1", call, "Table.merge_cells: every non-anchor cell of the rectangle becomes a merged placeholder", ok, detail,
               key="C12.R1@Table.merge_cells:placeholders")
    # corner parsing
    src = {U(n.targets[0]): U(n.value) for n in body_walk(mc) if isinstance(n, ast.Assign)}
    ok = src.get("(row_start, col_start)", src.get("row_start, col_start")) == "xl_cell_to_rowcol(start_cell_ref)" and \
        src.get("(row_end, col_end)", src.get("row_end, col_end")) == "xl_cell_to_rowcol(end_cell_ref)" and \
        src.get("(start_cell_ref, end_cell_ref)", src.get("start_cell_ref, end_cell_ref")) == "cell_range.split(':')"
    rep.ob("C12.R1", mc, "Table.merge_cells: corners parsed as (row, col) of start and end", ok, f"{src}" if not ok else "", key="C12.R1@Table.merge_cells:corners")
    # final refresh over the grid
    refresh = [n for n in body_walk(mc) if isinstance(n, ast.Call) and last_attr(n.func) == "_set_merge"]
    ok = False
    for rf in refresh:
        arg = U(rf.args[0]) if rf.args else ""
        loops = []
        p = getattr(rf, "_parent", None)
        while p is not None and p is not mc:
            if isinstance(p, ast.For):
                loops.append(p)
            p = getattr(p, "_parent", None)
        if len(loops) == 2 and arg.replace(" ", "") == "merge_cells.get((row,col))":
            ok = U(loops[1].iter) == "enumerate(self._data)" and U(loops[1].target).replace(" ", "") in ("(row,cells)", "row,cells") and \
                U(loops[0].iter) == "enumerate(cells)" and U(loops[0].target).replace(" ", "") in ("(col,cell)", "col,cell")
    rep.ob("C12.R1", mc, "Table.merge_cells: every cell refreshed from the merge map with its own (row, col)", ok, "", key="C12.R1@Table.merge_cells:refresh")
    # list form
    ok = any(isinstance(n, ast.For) and U(n.iter) == "cell_range" and any(isinstance(c, ast.Call) and U(c.func) == "self.merge_cells" for c in ast.walk(n)) for n in body_walk(mc))
    rep.ob("C12.R1", mc, "Table.merge_cells: list form merges each range", ok, "", key="C12.R1@Table.merge_cells:list")

    # ---- sibling: reader
    cm = repo.func("model.py", "_NumbersModel.calculate_merge_cell_ranges")
    refs = [n for n in body_walk(cm) if isinstance(n, ast.Call) and last_attr(n.func) == "add_reference"]
    for i, call in enumerate(refs):
        check_reference_site(rep, cm, call, f"calculate_merge_cell_ranges#{i + 1}")

    # ---- R2 tuple conventions
    sm = repo.func("cell.py", "Cell._set_merge")
    # the function summary of _set_merge (stores as effects, later reads of a stored field see the stored value), asked for
    # a MergeReference, a MergeAnchor and anything else
    from ..funsum import Summarizer as _Summ, decide as _decide, simplify as _simplify
    sm_paths = _Summ(consts=repo.consts).summarize(sm)
    A_REF, A_ANC = "isinstance(merge_ref, MergeReference)", "isinstance(merge_ref, MergeAnchor)"

    def stores_in(sc):
        outs = _decide(sm_paths, sc, limit=4)
        if len(outs) != 1:
            raise AnalysisError(f"Cell._set_merge: {len(outs)} outcomes for one kind of merge entry")
        pth = outs[0][3]
        fx = {}
        for k_, v_, _n in pth.effects:
            if isinstance(v_, ast.AST):
                fx[k_] = _simplify(v_, sc)
        return fx, pth

    ref_fx, ref_path = stores_in({A_REF: True, A_ANC: False})
    anc_fx, _anc_path = stores_in({A_REF: False, A_ANC: True})
    oth_fx, _oth_path = stores_in({A_REF: False, A_ANC: False})
    txt = lambda e: U(e).replace(" ", "") if e is not None else None  # noqa: E731
    R = "merge_ref.rect"
    want = {"self.row_start": f"{R}[0]", "self.col_start": f"{R}[1]", "self.row_end": f"{R}[2]", "self.col_end": f"{R}[3]"}
    for k, v in want.items():
        got = txt(ref_fx.get(k))
        rep.ob("C12.R2", sm, f"Cell._set_merge: {k} = {v}", got == v, f"found {got}", key=f"C12.R2@_set_merge:{k}")
    cb_cls = repo.func("cell.py", "CellBorder.__init__")
    cb_params = [a.arg for a in cb_cls.args.args][1:]
    bcall = ref_fx.get("self._border")
    flags = {}
    if isinstance(bcall, ast.Call) and call_name(bcall) == "CellBorder":
        for p_, a_ in zip(cb_params, bcall.args):
            flags[p_] = txt(a_)
        for kw in bcall.keywords:
            flags[kw.arg] = txt(kw.value)
    borders = [c for c in body_walk(sm) if isinstance(c, ast.Call) and call_name(c) == "CellBorder" and (c.args or c.keywords)]
    for k, v in {"top_merged": f"self.row>{R}[0]", "right_merged": f"self.col<{R}[3]", "bottom_merged": f"self.row<{R}[2]", "left_merged": f"self.col>{R}[1]"}.items():
        rep.ob("C12.R2", borders[0] if borders else sm, f"Cell._set_merge: {k} = {v}", flags.get(k) == v, f"found {flags.get(k)}", key=f"C12.R2@_set_merge:{k}")
    mrange = txt(ref_fx.get("self.merge_range"))
    rep.ob("C12.R2", sm, "Cell._set_merge: merge_range = xl_range(*rect)", mrange == f"xl_range(*{R})", f"found {mrange}", key="C12.R2@_set_merge:range")
    # anchor branch
    ok = txt(anc_fx.get("self.is_merged")) == "True" and txt(anc_fx.get("self.size")) == "merge_ref.size"
    rep.ob("C12.R2", sm, "Cell._set_merge: anchors report is_merged and their size", ok,
           "" if ok else f"an anchor gets is_merged = {txt(anc_fx.get('self.is_merged'))}, size = {txt(anc_fx.get('self.size'))}", key="C12.R2@_set_merge:anchor")
    mr = repo.func("cell.py", "MergeReference.__init__")
    ok = any(isinstance(n, ast.Assign) and U(n.targets[0]) == "self.rect" and U(n.value).replace(" ", "") == "(row_start,col_start,row_end,col_end)" for n in body_walk(mr))
    ok = ok and [a.arg for a in mr.args.args][1:] == ["row_start", "col_start", "row_end", "col_end"]
    rep.ob("C12.R2", mr, "MergeReference.rect = (row_start, col_start, row_end, col_end)", ok, "", key="C12.R2@MergeReference")
    xr = repo.func("xrefs.py", "xl_range")
    ok = [a.arg for a in xr.args.args] == ["first_row", "first_col", "last_row", "last_col"] and \
        "xl_rowcol_to_cell(first_row, first_col)" in U(xr) and "xl_rowcol_to_cell(last_row, last_col)" in U(xr)
    rep.ob("C12.R2", xr, "xl_range(first_row, first_col, last_row, last_col) pairs rows with columns", ok, "", key="C12.R2@xl_range")
    # ---- R5 merge_ranges from grid anchors (the iteration may be two loops or one comprehension)
    mrg = repo.func("document.py", "Table.merge_ranges")
    from ..symexec import expand_aliases
    calls = [n for n in body_walk(mrg) if isinstance(n, ast.Call) and call_name(n) == "xl_range"]
    if len(calls) != 1:
        raise AnalysisError("Table.merge_ranges: xl_range call not found")
    call = calls[0]
    gens = []  # (target, iter, ifs) from the outside in
    filters = []
    p = call
    while getattr(p, "_parent", None) is not None and p is not mrg:
        prev, p = p, p._parent
        if isinstance(p, (ast.ListComp, ast.SetComp, ast.GeneratorExp)):
            gens = [(g.target, g.iter, g.ifs) for g in p.generators] + gens
            for g in p.generators:
                filters += [U(i) for i in g.ifs]
        elif isinstance(p, ast.For):
            gens.insert(0, (p.target, p.iter, []))
        elif isinstance(p, ast.If) and any(prev is x for x in p.body):
            filters.append(U(p.test))
    shape = len(gens) == 2 and all(isinstance(t, ast.Tuple) and len(t.elts) == 2 and isinstance(i, ast.Call) and call_name(i) == "enumerate" for t, i, _ in gens)
    ok = False
    axes_ok = False
    anchors_ok = False
    if shape:
        (t1, i1, _), (t2, i2, _) = gens
        rowv, rowcells = U(t1.elts[0]), U(t1.elts[1])
        colv, cellv = U(t2.elts[0]), U(t2.elts[1])
        axes_ok = U(i1.args[0]) == "self._data" and U(i2.args[0]) == rowcells
        a_ = [expand_aliases(mrg, x) for x in call.args]
        l = [lin(x) for x in a_]
        ok = len(a_) == 4 and U(a_[0]) == rowv and U(a_[1]) == colv and \
            _eq(l[2], Lin(-1, {rowv: 1, f"{cellv}.size[0]": 1})) and _eq(l[3], Lin(-1, {colv: 1, f"{cellv}.size[1]": 1}))
        anchors_ok = filters == [f"{cellv}.is_merged"] and "sorted(" in U(mrg)
    rep.ob("C12.R5", call, "Table.merge_ranges: range = (row, col) .. (row+size[0]-1, col+size[1]-1)", ok,
           "" if ok else f"found {U(call)}", key="C12.R5@merge_ranges:extent")
    rep.ob("C12.R5", mrg, "Table.merge_ranges: one range per merged anchor of the grid, sorted", anchors_ok, "" if anchors_ok else f"filters {filters}", key="C12.R5@merge_ranges:anchors")
    rep.ob("C12.R5", mrg, "Table.merge_ranges: (row, col) from enumerate order", axes_ok, "", key="C12.R5@merge_ranges:axes")
    rets = [n for n in body_walk(mrg) if isinstance(n, ast.Return)]
    walk_stmt = call
    while not isinstance(walk_stmt, ast.stmt) or not any(walk_stmt is x for x in mrg.body):
        walk_stmt = walk_stmt._parent
        if walk_stmt is mrg:
            break
    ok = bool(rets) and walk_stmt is not mrg and all(r is walk_stmt or cfgmod.dominates(mrg, walk_stmt, r) for r in rets)
    stored = sorted({U(n) for n in body_walk(mrg) if isinstance(n, ast.Attribute) and isinstance(n.value, ast.Name) and n.value.id == "self"
                     and n.attr not in ("_data", "num_rows", "num_cols")})
    ok = ok and not stored
    rep.ob("C12.R5", rets[0] if rets else mrg, "Table.merge_ranges: every result is derived from a walk of the grid in the same call", ok,
           "" if ok else f"a return is reachable without walking self._data (stored state read: {stored}): after rows or columns move, the list no longer follows the rectangles",
           key="C12.R5@merge_ranges:fresh")
    # set_cell_border uses size[1] for right (columns) and size[0] for bottom (rows)
    scb = U(repo.func("document.py", "Table.set_cell_border")).replace(" ", "")
    ok = "side=='right'andcell.size[1]>1" in scb and "side=='bottom'andcell.size[0]>1" in scb
    rep.ob("C12.R2", repo.func("document.py", "Table.set_cell_border"), "set_cell_border: right edge merged iff size[1] > 1, bottom iff size[0] > 1", ok, "", key="C12.R2@set_cell_border:size")

    # ---- R3 packing agreement
    wr = repo.func("model.py", "_NumbersModel.recalculate_merged_cells")
    packs = {}
    for n in body_walk(wr):
        if isinstance(n, ast.Call) and last_attr(n.func) in ("CellID", "TableSize"):
            for kw in n.keywords:
                if kw.arg == "packedData":
                    packs[last_attr(n.func)] = kw.value
    def halves(expr):
        """(high_text, low_text) for ``hi << 16 | lo``"""
        e = expr
        if isinstance(e, ast.BinOp) and isinstance(e.op, ast.BitOr):
            for hi, lo in ((e.left, e.right), (e.right, e.left)):
                if isinstance(hi, ast.BinOp) and isinstance(hi.op, ast.LShift) and try_const(hi.right) == 16:
                    return U(hi.left), U(lo)
        return None
    w_origin = halves(packs.get("CellID")) if "CellID" in packs else None
    w_size = halves(packs.get("TableSize")) if "TableSize" in packs else None
    # reader: which name receives the high half and which the low half of each packed word (bit provenance, so the
    # unpacking may be one tuple assignment, separate statements or go through a temporary)
    from ..bits import bv
    from ..symexec import expand_aliases
    r_origin = r_size = None
    halves_seen = {"origin": {}, "size": {}}
    pairs = []
    for n in body_walk(cm):
        if isinstance(n, ast.Assign) and len(n.targets) == 1:
            t, v = n.targets[0], n.value
            if isinstance(t, ast.Tuple) and isinstance(v, ast.Tuple) and len(t.elts) == len(v.elts):
                pairs += list(zip(t.elts, v.elts))
            elif isinstance(t, ast.Name):
                pairs.append((t, v))
    for t, v in pairs:
        b_ = bv(expand_aliases(cm, v), {})
        srcs = b_.sources()
        if len(srcs) != 1:
            continue
        src = next(iter(srcs))
        which = "origin" if src.endswith("origin.packedData") else ("size" if src.endswith("size.packedData") else None)
        if which is None:
            continue
        if all(b_.bits.get(p) == (src, p + 16) for p in range(16)) and not any(b_.bits.get(p, (None, -1))[1] < 16 for p in b_.bits):
            halves_seen[which]["hi"] = U(t)
        elif b_.bits == {p: (src, p) for p in range(16)}:
            halves_seen[which]["lo"] = U(t)
    if len(halves_seen["origin"]) == 2:
        r_origin = (halves_seen["origin"]["hi"], halves_seen["origin"]["lo"])
    if len(halves_seen["size"]) == 2:
        r_size = (halves_seen["size"]["hi"], halves_seen["size"]["lo"])
    def axis(t):
        t = t or ""
        # (row, col) / (rows, cols) tuples: the index decides; otherwise the name
        if t.endswith("[1]"):
            return "col"
        if t.endswith("[0]"):
            return "row"
        if "col" in t:
            return "col"
        if "row" in t:
            return "row"
        return "?"
    for what, w, r in (("origin", w_origin, r_origin), ("size", w_size, r_size)):
        ok = w is not None and r is not None and axis(w[0]) == axis(r[0]) == "col" and axis(w[1]) == axis(r[1]) == "row"
        rep.ob("C12.R3", wr, f"merge map {what}: writer (hi={w and w[0]}, lo={w and w[1]}) / reader (hi={r and r[0]}, lo={r and r[1]})", ok,
               "" if ok else "writer and reader put different axes in the high/low half of the packed word", key=f"C12.R3@{what}")
    # writer walks anchors and writes their size
    ok = "merge_cells.merge_cells()" in U(wr) and "merge_cells.size(row_col)" in U(wr)
    rep.ob("C12.R3", wr, "merge map written from the anchors and their sizes", ok, "", key="C12.R3@writer:anchors")
    ok = any(isinstance(n, ast.Call) and last_attr(n.func) == "set_reference" and "merge_region_map" in U(n) for n in body_walk(wr))
    rep.ob("C12.R3", wr, "table points at the new merge map", ok, "", key="C12.R3@writer:ref")
    # the map filled on save is an archive allocated by this very call: add_table()/add_sheet() copy the source table's
    # base_data_store (and with it the merge_region_map reference), so a map that is looked up and refilled is shared
    fills = [n for n in body_walk(wr) if isinstance(n, ast.Call) and last_attr(n.func) in ("append", "extend", "add") and "cell_range" in U(n.func)]
    allocs = [st for st in body_walk(wr) if isinstance(st, ast.Assign) and isinstance(st.value, ast.Call) and last_attr(st.value.func) == "create_object_from_dict"
              and "MergeRegionMapArchive" in U(st.value)]
    if not fills:
        raise AnalysisError("recalculate_merged_cells: fill of cell_range not found")
    fill_stmt = fills[0]
    while not isinstance(fill_stmt, ast.stmt):
        fill_stmt = fill_stmt._parent
    ok = bool(allocs) and cfgmod.dominates(wr, allocs[0], fill_stmt)
    if ok:
        tgt = allocs[0].targets[0]
        names = [U(e) for e in tgt.elts] if isinstance(tgt, ast.Tuple) else [U(tgt)]
        recv = U(fills[0].func.value.value) if isinstance(fills[0].func.value, ast.Attribute) else ""
        rebound = [st for st in body_walk(wr) if isinstance(st, ast.Assign) and st is not allocs[0] and any(U(t) == recv for t in st.targets)]
        ok = recv in names and not rebound
    # every anchor of the open document is written: the fill is not conditional
    q_ = fills[0]
    conds_ = []
    loop_ = None
    while getattr(q_, "_parent", None) is not None and q_ is not wr:
        prev_, q_ = q_, q_._parent
        if isinstance(q_, ast.If):
            conds_.append(U(q_.test))
        if isinstance(q_, (ast.For, ast.While)) and loop_ is None:
            loop_ = q_
    skips_ = [n for n in ast.walk(loop_) if isinstance(n, (ast.Continue, ast.Break))] if loop_ is not None else []
    okc = loop_ is not None and not conds_ and not skips_ and "merge_cells()" in U(loop_.iter if isinstance(loop_, ast.For) else loop_.test)
    rep.ob("C12.R3", loop_ or wr, "save writes one range for every merge anchor of the open document (no filter)", okc,
           "" if okc else f"a range is written only when {conds_ or 'the loop does not skip it'}: a merge that is reported on the open document is missing after save and reopen",
           key="C12.R3@writer:all-anchors")
    rep.ob("C12.R3", fills[0], "the merge map filled on save is a MergeRegionMapArchive allocated in the same call", ok,
           "" if ok else "an existing archive is looked up and refilled on some path: tables created by add_table()/add_sheet() copy the source's "
           "merge_region_map reference, so two tables write their rectangles into one archive and the last saved wins", key="C12.R3@writer:fresh-map")
    # reader: the region map is read unless the table has none — nothing else may skip it
    rd_loops = [n for n in body_walk(cm) if isinstance(n, ast.For) and "cell_range" in U(n.iter)]
    if not rd_loops:
        raise AnalysisError("calculate_merge_cell_ranges: loop over the merge region map not found")
    g = cfgmod.build(cm)
    bad = []
    for r in [n for n in body_walk(cm) if isinstance(n, ast.Return)]:
        if r.lineno > rd_loops[0].lineno:
            continue
        par = r._parent
        t = U(par.test).replace(" ", "") if isinstance(par, ast.If) and any(r is x for x in par.body) else None
        only_absent = t is not None and not isinstance(par.test, ast.BoolOp) and t.endswith("merge_region_map.identifier==0")
        if not only_absent:
            bad.append(f"line {r.lineno}: `if {U(par.test) if isinstance(par, ast.If) else '?'}: return`")
    rep.ob("C12.R3", rd_loops[0], "reader: the merge region map is read whenever the table has one", not bad,
           "" if not bad else f"{bad}: rectangles saved by the library live only in the region map; skipping it drops them on reopen", key="C12.R3@reader:reached")
    rtd = repo.func("model.py", "_NumbersModel.recalculate_table_data")
    ok = any(isinstance(n, ast.Call) and last_attr(n.func) == "recalculate_merged_cells" for n in body_walk(rtd))
    rep.ob("C12.R3", rtd, "save rewrites the merge map", ok, "", key="C12.R3@save")
    # MergeCells container semantics
    mcl = repo.cls("model.py", "MergeCells")
    ms = {n.name: U(n) for n in mcl.body if isinstance(n, ast.FunctionDef)}
    ok = "MergeReference(*rect)" in ms.get("add_reference", "") and "self._references[row, col]" in ms.get("add_reference", "").replace("(row, col)", "row, col")
    rep.ob("C12.R2", mcl, "MergeCells.add_reference stores MergeReference(*rect) at (row, col)", ok, "", key="C12.R2@MergeCells:add_reference")
    ok = "MergeAnchor(size)" in ms.get("add_anchor", "")
    rep.ob("C12.R2", mcl, "MergeCells.add_anchor stores MergeAnchor(size) at (row, col)", ok, "", key="C12.R2@MergeCells:add_anchor")
    ok = "isinstance(self._references[row_col], MergeReference)" in ms.get("is_merge_reference", "") and "isinstance(self._references[row_col], MergeAnchor)" in ms.get("is_merge_anchor", "")
    rep.ob("C12.R2", mcl, "MergeCells predicates test the matching class", ok, "", key="C12.R2@MergeCells:predicates")
    # Table.__init__ uses is_merge_reference to build placeholders
    ti = repo.func("document.py", "Table.__init__")
    # ``self._x = <parameter>`` at the top of __init__: either spelling names the same value below
    import re as _re
    alias = {}
    for st_ in ti.body:
        if isinstance(st_, ast.Assign) and len(st_.targets) == 1 and isinstance(st_.targets[0], ast.Attribute) and U(st_.targets[0].value) == "self" \
                and isinstance(st_.value, ast.Name) and st_.value.id in {a.arg for a in ti.args.args}:
            alias[U(st_.targets[0])] = st_.value.id
    def _al(text):
        for k, v in alias.items():
            text = _re.sub(_re.escape(k) + r"\b", v, text)
        return text
    ok = False
    for n_ in body_walk(ti):
        if isinstance(n_, ast.If) and _al(U(n_.test)) == "merge_cells.is_merge_reference((row, col))":
            ok = any(isinstance(c_, ast.Call) and _al(U(c_)).endswith("_merged_cell(table_id, row, col, model)") for b_ in n_.body for c_ in ast.walk(b_))
    rep.ob("C12.R1", ti, "Table.__init__: merge references become merged placeholders at (row, col)", ok, "", key="C12.R1@Table.__init__")

    # ---- R4 merge map follows structural edits
    editors = ["add_row", "add_column", "delete_row", "delete_column"]
    maintained = []
    for e in editors:
        src = U(repo.func("document.py", f"Table.{e}"))
        if "merge" in src:
            maintained.append(e)
    derived = "data" in [a.arg for a in wr.args.args] or "_table_data" in U(wr)
    ok = derived or len(maintained) == len(editors)
    rep.ob("C12.R4", repo.func("document.py", "Table.add_row"), "merge map is maintained by the four structural editors or derived from the grid on save", ok,
           "" if ok else "add_row/add_column/delete_row/delete_column never touch the merge map and save writes the map, not the grid: after an insertion the open document and the saved file report different merge ranges",
           key="C12.R4@editors:merge-map-not-maintained")
    rep.floor("C12.R1", 12)
    rep.floor("C12.R2", 14)
    rep.floor("C12.R3", 4)
    rep.floor("C12.R5", 3)


VARIANTS = [
    T("set-merge-tuple-unpack", "cell.py", '            self.row_start = merge_ref.rect[0]\n            self.col_start = merge_ref.rect[1]\n            self.row_end = merge_ref.rect[2]\n            self.col_end = merge_ref.rect[3]\n', "            (self.row_start, self.col_start, self.row_end, self.col_end) = merge_ref.rect\n"),
    M("set-merge-tuple-unpack-swapped", "cell.py", '            self.row_start = merge_ref.rect[0]\n            self.col_start = merge_ref.rect[1]\n            self.row_end = merge_ref.rect[2]\n            self.col_end = merge_ref.rect[3]\n', "            (self.row_start, self.row_end, self.col_start, self.col_end) = merge_ref.rect\n", "C12.R2"),
    M("writer-filters-ranges", "model.py", "            size = merge_cells.size(row_col)\n            cell_id =", "            size = merge_cells.size(row_col)\n            if row_col[0] + size[0] > self.number_of_columns(table_id):\n                continue\n            cell_id =", "C12.R3"),
    M("reader-skips-region-map-when-owner-merges", "model.py", "        if base_data_store.merge_region_map.identifier == 0:\n            return\n\n        cell_ranges =",
      "        if self._merge_cells[table_id].merge_cells() or base_data_store.merge_region_map.identifier == 0:\n            return\n\n        cell_ranges =", "C12.R3"),
    M("writer-refills-existing-map", "model.py", """        merge_map_id, merge_map = self.objects.create_object_from_dict(
            "CalculationEngine",
            {},
            TSTArchives.MergeRegionMapArchive,
        )

        merge_cells = self.merge_cells(table_id)""", """        existing = self.objects[table_id].base_data_store.merge_region_map.identifier
        if existing == 0:
            merge_map_id, merge_map = self.objects.create_object_from_dict(
                "CalculationEngine",
                {},
                TSTArchives.MergeRegionMapArchive,
            )
        else:
            merge_map_id, merge_map = existing, self.objects[existing]
            clear_field_container(merge_map.cell_range)

        merge_cells = self.merge_cells(table_id)""", "C12.R3"),
    M("merge-ranges-memoised", "document.py", """        merge_cells = set()
        for row, cells in enumerate(self._data):
            for col, cell in enumerate(cells):
                if cell.is_merged:
                    size = cell.size
                    merge_cells.add(xl_range(row, col, row + size[0] - 1, col + size[1] - 1))
        return sorted(merge_cells)""", """        if getattr(self, "_merge_ranges", None) is not None:
            return list(self._merge_ranges)
        merge_cells = set()
        for row, cells in enumerate(self._data):
            for col, cell in enumerate(cells):
                if cell.is_merged:
                    size = cell.size
                    merge_cells.add(xl_range(row, col, row + size[0] - 1, col + size[1] - 1))
        self._merge_ranges = sorted(merge_cells)
        return sorted(merge_cells)""", "C12.R5"),
    M("revert-fix-loops-plus-one", "document.py", "            for row in range(row_start, row_end + 1):\n                for col in range(col_start, col_end + 1):\n                    if (row, col) == (row_start, col_start):",
      "            for row in range(row_start + 1, row_end + 1):\n                for col in range(col_start + 1, col_end + 1):\n                    if (row, col) == (row_start, col_start):", "C12.R1"),
    M("anchor-not-skipped", "document.py", "                    if (row, col) == (row_start, col_start):\n                        continue\n", "", "C12.R1"),
    M("col-range-short", "document.py", "                for col in range(col_start, col_end + 1):\n                    if (row, col)", "                for col in range(col_start, col_end):\n                    if (row, col)", "C12.R1"),
    M("anchor-size-swapped", "document.py", "merge_cells.add_anchor(row_start, col_start, (num_rows, num_cols))", "merge_cells.add_anchor(row_start, col_start, (num_cols, num_rows))", "C12.R2"),
    M("writer-size-swapped", "model.py", "packedData=(size[1] << 16 | size[0])", "packedData=(size[0] << 16 | size[1])", "C12.R3"),
    M("reader-origin-swapped", "model.py", "            (col_start, row_start) = (\n                cell_range.origin.packedData >> 16,", "            (row_start, col_start) = (\n                cell_range.origin.packedData >> 16,", "C12.R3"),
    M("merge-ranges-extent", "document.py", "xl_range(row, col, row + size[0] - 1, col + size[1] - 1)", "xl_range(row, col, row + size[0], col + size[1] - 1)", "C12.R5"),
    M("set-merge-rect-swapped", "cell.py", "            self.row_end = merge_ref.rect[2]\n            self.col_end = merge_ref.rect[3]", "            self.row_end = merge_ref.rect[3]\n            self.col_end = merge_ref.rect[2]", "C12.R2"),
    M("reader-range-rows-short", "model.py", "            for row in range(row_start, row_end + 1):\n                for col in range(col_start, col_end + 1):\n                    self._merge_cells[table_id].add_reference(\n                        row,\n                        col,\n                        (row_start, col_start, row_end, col_end),\n                    )\n            self._merge_cells[table_id].add_anchor(row_start, col_start, (num_rows, num_columns))",
      "            for row in range(row_start, row_end):\n                for col in range(col_start, col_end + 1):\n                    self._merge_cells[table_id].add_reference(\n                        row,\n                        col,\n                        (row_start, col_start, row_end, col_end),\n                    )\n            self._merge_cells[table_id].add_anchor(row_start, col_start, (num_rows, num_columns))", "C12.R1"),
    T("anchor-skip-and-form", "document.py", "if (row, col) == (row_start, col_start):", "if row == row_start and col == col_start:"),
]

"""C07 — every saved package is structurally sound and referentially closed."""

from __future__ import annotations

import ast

from .. import cfg as cfgmod
from ..cellcodec import HEADER_SIZE, extract_encoder
from ..core import AnalysisError, U, body_walk, call_name, last_attr, try_const
from ..linear import Lin, lin
from ..selftest import M, T

EXPLANATION = (
    "who-may-write on the identifier counter and must-follow on every object created in a new archive file "
    "(add_component_metadata with the same id and the matching locator on all paths), record geometry from the layout "
    "table (4-byte multiples, offset stored before the cursor advances), and linear tile arithmetic "
    "(tile_row_index + tileid*tile_size == row; tiles partition the rows)"
)
TRUSTED = ["python ast", "statement CFG (post-dominance)", "linear forms"]


def _eq(a, b):
    return a is not None and b is not None and (a - b).is_const() and (a - b).c == 0


def run(repo, rep, tier):
    env = dict(repo.consts)
    # ---- R1 identifier source
    writers = []
    for mod in repo.modules():
        t = repo.tree(mod)
        for fn in [n for n in ast.walk(t) if isinstance(n, ast.FunctionDef)]:
            for n in body_walk(fn):
                tg = []
                if isinstance(n, ast.Assign):
                    tg = n.targets
                elif isinstance(n, ast.AugAssign):
                    tg = [n.target]
                if any(isinstance(x, ast.Attribute) and x.attr == "_max_id" for x in tg):
                    writers.append((mod, repo.qualname(fn), n))
    allowed = {"containers.py:ObjectStore.__init__", "containers.py:ObjectStore.new_message_id"}
    for mod, q, n in writers:
        rep.ob("C07.R1", n, f"{q} writes _max_id", q in allowed, "" if q in allowed else "the identifier counter is written outside its owner", key=f"C07.R1@writer:{q}")
    nm = repo.func("containers.py", "ObjectStore.new_message_id")
    body = [U(s) for s in nm.body if not (isinstance(s, ast.Expr) and isinstance(s.value, ast.Constant))]
    # function summary: one path; it returns the old counter + 1 and stores that same value as the counter and as the
    # package's last_object_identifier
    from ..funsum import Summarizer as _Summ0
    ok = False
    try:
        ps_ = _Summ0(consts=repo.consts).summarize(nm)
        if len(ps_) == 1 and ps_[0].kind == "return" and not ps_[0].conds:
            fx_ = {k_: U(v_) for k_, v_, _n in ps_[0].effects if isinstance(v_, ast.AST)}
            new_ = "self._max_id + 1"
            ok = U(ps_[0].ret) == new_ and fx_.get("self._max_id") == new_ and any(
                k_.endswith(".last_object_identifier") and "PACKAGE_ID" in k_.replace(str(repo.consts.get("PACKAGE_ID")), "PACKAGE_ID") and v_ == new_ for k_, v_ in fx_.items()) \
                and set(fx_) <= {"self._max_id"} | {k_ for k_ in fx_ if k_.endswith(".last_object_identifier")}
    except AnalysisError:
        ok = False
    rep.ob("C07.R1", nm, "new_message_id: increment, record as last_object_identifier, return", ok,
           "" if ok else f"found {body}: a new id must be above every earlier one and recorded as the high-water mark on every path", key="C07.R1@new_message_id")
    from ..symexec import Straight, body_paths, bool_atoms, bool_eval, expand_aliases
    import itertools
    init = repo.func("containers.py", "ObjectStore.__init__")
    sl = Straight(init)
    final = sl.final.get("self._max_id")
    ok = False
    detail = f"the counter ends __init__ as `{U(final) if final is not None else '?'}`"
    if final is not None:
        big = ("max(self._objects.keys())", "max(self._objects)")
        t = U(final).replace(" ", "")
        if t in big:
            ok = True
        elif isinstance(final, ast.BinOp) and isinstance(final.op, ast.Mult):
            for c_, k_ in ((final.left, final.right), (final.right, final.left)):
                kv = try_const(k_, env)
                if isinstance(c_, ast.Call) and last_attr(c_.func) == "ceil" and len(c_.args) == 1 and isinstance(kv, int) and kv > 0:
                    d = c_.args[0]
                    ok = isinstance(d, ast.BinOp) and isinstance(d.op, ast.Div) and U(d.left).replace(" ", "") in big and try_const(d.right, env) == kv
    rep.ob("C07.R1", init, "counter starts at or above the largest loaded identifier (rounded up)", ok, "" if ok else detail + ": new identifiers can collide with loaded ones", key="C07.R1@init:start")
    co = repo.func("containers.py", "ObjectStore.create_object_from_dict")
    ids = [n for n in body_walk(co) if isinstance(n, ast.Assign) and isinstance(n.value, ast.Call) and U(n.value.func) == "self.new_message_id" and isinstance(n.targets[0], ast.Name)]
    probs = []
    if len(ids) != 1:
        probs.append("the id is not taken from new_message_id() exactly once")
        nid = "?"
    else:
        nid = ids[0].targets[0].id
        cp_ = [a.arg for a in co.args.args]
        seg_calls = [c for c in body_walk(co) if isinstance(c, ast.Call) and call_name(c) == "create_iwa_segment"]
        if not (len(seg_calls) == 1 and [U(a) for a in seg_calls[0].args] == [nid, cp_[3], cp_[2]]):
            probs.append("the segment is not created for the new id, class and dict")
        reg = [n for n in body_walk(co) if isinstance(n, ast.Assign) and isinstance(n.targets[0], ast.Subscript) and U(n.targets[0].value) == "self._objects"]
        obj_t = f"{cp_[3]}(**{cp_[2]})"
        if not (len(reg) == 1 and U(reg[0].targets[0].slice) == nid and U(expand_values(co, reg[0].value)).replace(" ", "") == obj_t):
            probs.append("the new object is not registered under the new id")
        fmap = [n for n in body_walk(co) if isinstance(n, ast.Assign) and isinstance(n.targets[0], ast.Subscript) and U(n.targets[0].value) == "self._object_to_filename_map"]
        if not (len(fmap) == 1 and U(fmap[0].targets[0].slice) == nid):
            probs.append("the new id is not mapped to its archive file")
        rets = [n for n in body_walk(co) if isinstance(n, ast.Return)]
        if not (len(rets) == 1 and isinstance(rets[0].value, ast.Tuple) and U(rets[0].value.elts[0]) == nid
                and U(expand_values(co, rets[0].value.elts[1])).replace(" ", "") in (obj_t, f"self._objects[{nid}]")):
            probs.append("the method does not return (new id, registered object)")
    rep.ob("C07.R1", co, "created objects take their id from new_message_id and are registered under it", not probs, "; ".join(probs), key="C07.R1@create:id")
    # the segment is stored either in a new file or appended to the existing one
    probs = []
    branch = [n for n in co.body if isinstance(n, ast.If) and any(isinstance(x, ast.Call) and U(x.func) == "IWAFile.from_dict" for x in ast.walk(n))]
    if len(branch) != 1:
        probs.append("the create-or-append decision is not a single if statement")
    else:
        paths = body_paths([branch[0]])
        atoms = sorted(set().union(*[bool_atoms(t) for c, _s, _e in paths for t, _o in c])) if paths else []
        pname = None
        for c, steps, _e in paths:
            creates = any(isinstance(x, ast.Call) and U(x.func) == "IWAFile.from_dict" for st_ in steps for x in ast.walk(st_))
            appends = any(isinstance(x, ast.Call) and last_attr(x.func) == "append" and U(x.func.value).endswith(".chunks[0].archives") for st_ in steps for x in ast.walk(st_))
            if creates == appends:
                probs.append("a branch neither creates the file nor appends to it (or does both)")
                continue
            for vals in itertools.product([False, True], repeat=len(atoms)):
                asg = dict(zip(atoms, vals))
                taken = all(bool_eval(t, asg) == o for t, o in c)
                if not taken:
                    continue
                none_atoms = [k for k in atoms if k.endswith(" is None")]
                other = [k for k in atoms if not k.endswith(" is None")]
                if len(none_atoms) != 1 or len(other) != 1:
                    probs.append(f"the decision depends on {atoms}, not on (no file found, append)")
                    break
                want_create = asg[none_atoms[0]] and not asg[other[0]]
                pname = none_atoms[0][: -len(" is None")]
                if creates != want_create:
                    probs.append(f"with {asg} the method {'creates a new file' if creates else 'appends to the found file'}")
            if creates:
                nm_ = [n for st_ in steps for n in ast.walk(st_) if isinstance(n, ast.Assign) and pname and U(n.targets[0]) == pname]
                ok_name = bool(nm_) and U(nm_[0].value).replace(" ", "").replace('"', "'") == f"{co.args.args[1].arg}.format({nid})+'.iwa'"
                stored = [n for st_ in steps for n in ast.walk(st_) if isinstance(n, ast.Assign) and isinstance(n.targets[0], ast.Subscript)
                          and U(n.targets[0].value) == "self._file_store" and pname and U(n.targets[0].slice) == pname]
                if not (ok_name and stored):
                    probs.append("the new archive file is not named after the id and stored under that name")
    rep.ob("C07.R1", co, "segment stored in a new archive file named after the id, or appended to the existing file", not probs, "; ".join(dict.fromkeys(probs)), key="C07.R1@create:store")
    # which existing archive file receives the object: every file whose path *contains* the requested name qualifies
    # (callers pass bare names such as "CalculationEngine" for Index/CalculationEngine-<n>.iwa); a narrower test makes
    # the store create an unlisted top-level file instead
    fname = co.args.args[1].arg
    preds = []
    for n in body_walk(co):
        gens = []
        if isinstance(n, (ast.ListComp, ast.GeneratorExp, ast.SetComp)):
            gens = [(g.target, g.iter, g.ifs) for g in n.generators if "_file_store" in U(g.iter)]
        elif isinstance(n, ast.For) and "_file_store" in U(n.iter):
            ifs = [x.test for x in n.body if isinstance(x, ast.If)]
            gens = [(n.target, n.iter, ifs)]
        for tgt, it, ifs in gens:
            kv = U(tgt.elts[0]) if isinstance(tgt, ast.Tuple) else U(tgt)
            for t in ifs:
                preds.append((U(t).replace(" ", ""), kv, t))
    okp = False
    shown = [p[0] for p in preds]
    for t, kv, _node in preds:
        if t in (f"{fname}in{kv}", f"{kv}.find({fname})>=0", f"{kv}.find({fname})!=-1", f"{kv}.count({fname})>0", f"{kv}.count({fname})", f"{kv}.__contains__({fname})"):
            okp = True
    rep.ob("C07.R1", preds[0][2] if preds else co, f"the receiving archive file is any stored file whose path contains `{fname}`", okp and len(preds) == 1,
           "" if okp and len(preds) == 1 else f"lookup predicate {shown}: files such as Index/CalculationEngine-<n>.iwa are no longer found and a new archive file is created that no "
           "metadata entry lists", key="C07.R1@create:lookup")
    seg = repo.func("iwafile.py", "create_iwa_segment")
    ok = "'identifier': str(obj_id)" in U(seg) and "NAME_ID_MAP[full_name]" in U(seg)
    rep.ob("C07.R1", seg, "segment header carries the object's id and registered type", ok, "", key="C07.R1@segment:header")
    callers = []
    for mod in repo.modules():
        for n in ast.walk(repo.tree(mod)):
            if isinstance(n, ast.Call) and last_attr(n.func) == "create_iwa_segment":
                fn = next((a for a in [n] + list(_anc(n)) if isinstance(a, ast.FunctionDef)), None)
                callers.append(repo.qualname(fn) if fn else mod)
    ok = callers == ["containers.py:ObjectStore.create_object_from_dict"]
    rep.ob("C07.R1", co, f"create_iwa_segment called only from create_object_from_dict ({callers})", ok, "", key="C07.R1@segment:callers")
    stores = []
    for n in ast.walk(repo.tree("containers.py")):
        if isinstance(n, ast.Assign) and isinstance(n.targets[0], ast.Subscript) and U(n.targets[0].value) == "self._objects":
            fn = next((a for a in _anc(n) if isinstance(a, ast.FunctionDef)), None)
            stores.append(fn.name if fn else "?")
    ok = sorted(stores) == ["create_object_from_dict", "store_object"]
    rep.ob("C07.R1", co, f"objects registered only at load and at creation ({sorted(stores)})", ok, "", key="C07.R1@objects:writers")
    # update_object_file_store copies every object back
    uo = repo.func("containers.py", "ObjectStore.update_object_file_store")
    from ..symexec import loop_domain
    loops = [n for n in body_walk(uo) if isinstance(n, ast.For)]
    ok = False
    if len(loops) == 1:
        lp = loops[0]
        it = U(lp.iter).replace(" ", "")
        idv = objv = None
        if it in ("self._objects", "self._objects.keys()", "list(self._objects)") and isinstance(lp.target, ast.Name):
            idv = lp.target.id
        elif it == "self._objects.items()" and isinstance(lp.target, ast.Tuple) and len(lp.target.elts) == 2:
            idv, objv = U(lp.target.elts[0]), U(lp.target.elts[1])
        calls = [c for c in ast.walk(lp) if isinstance(c, ast.Call) and call_name(c) == "copy_object_to_iwa_file"]
        uncond = not any(isinstance(n, (ast.If, ast.Continue, ast.Break, ast.Try)) for n in ast.walk(lp))
        if idv and len(calls) == 1 and len(calls[0].args) == 3 and not calls[0].keywords and uncond:
            a0, a1, a2 = [U(expand_aliases(uo, a)).replace(" ", "") for a in calls[0].args]
            ok = a0 == f"self._file_store[self._object_to_filename_map[{idv}]]" and a1 in ((objv,) if objv else ()) + (f"self._objects[{idv}]",) and a2 == idv
    rep.ob("C07.R1", uo, "every object is copied back into the archive file it belongs to", ok, "", key="C07.R1@copy-back")
    cp = repo.func("iwafile.py", "copy_object_to_iwa_file")
    probs = _copy_back_problems(cp)
    rep.ob("C07.R1", cp, "copy-back refreshes the object_references of the rewritten object", not probs, "; ".join(probs), key="C07.R1@copy-back:references")

    # ---- R2 new archive files are inventoried
    n_sites = 0
    model = repo.tree("model.py")
    for fn in [n for n in ast.walk(model) if isinstance(n, ast.FunctionDef)]:
        g = None
        for n in body_walk(fn):
            if isinstance(n, ast.Assign) and isinstance(n.value, ast.Call) and last_attr(n.value.func) == "create_object_from_dict":
                call = n.value
                path = try_const(call.args[0]) if call.args else None
                if not (isinstance(path, str) and "{}" in path):
                    continue
                n_sites += 1
                idvar = U(n.targets[0].elts[0]) if isinstance(n.targets[0], ast.Tuple) else None
                want_loc = path[len("Index/"):] if path.startswith("Index/") else path
                metas = [c for c in body_walk(fn) if isinstance(c, ast.Call) and last_attr(c.func) == "add_component_metadata"
                         and c.args and U(c.args[0]) == idvar]
                good = [c for c in metas if len(c.args) == 3 and try_const(c.args[2]) == want_loc]
                ok = bool(good) and cfgmod.must_reach(fn, n, good)
                detail = ""

                def loops_of(x):
                    return [id(p) for p in _anc(x) if isinstance(p, (ast.For, ast.While))]
                same_loop = bool(good) and any(loops_of(c) == loops_of(n) for c in good)
                if ok and not same_loop:
                    ok = False
                    detail = (f"the metadata entry is written outside the loop that creates {idvar}: only the object of the last iteration is listed, "
                              "earlier archive files are missing from the package metadata")
                if not metas:
                    detail = f"object {idvar} is created in a new archive file `{path}` but never listed in the package metadata"
                elif not good:
                    detail = f"metadata locator {[try_const(c.args[2]) for c in metas]} does not match the file `{path}`"
                elif not ok:
                    detail = "a path from the creation to the end of the function skips the metadata entry"
                rep.ob("C07.R2", n, f"{fn.name}: `{path}` -> add_component_metadata({idvar}, ..., {want_loc!r})", ok, detail, key=f"C07.R2@{fn.name}:{idvar}")
    acm = repo.func("model.py", "_NumbersModel.add_component_metadata")
    s = U(acm)
    ok = "locator = locator.format(object_id)" in s and "identifier=object_id" in s and "self.objects[PACKAGE_ID].components.append(component_info)" in s \
        and "self.add_component_reference(object_id, location=parent)" in s
    rep.ob("C07.R2", acm, "add_component_metadata appends a ComponentInfo for the id with its locator and links it to the parent", ok, "", key="C07.R2@add_component_metadata")

    # ---- R3 record geometry
    enc = extract_encoder(repo)
    widths = [b.width for b in enc.blocks] + [k.payload_width for k in enc.kinds if k.payload_width is not None]
    ok = all(isinstance(w, int) and w % 4 == 0 for w in widths) and HEADER_SIZE % 4 == 0 and len(widths) >= 15
    rep.ob("C07.R3", enc.func, f"every record part is a multiple of 4 bytes ({sorted(set(widths))})", ok,
           "" if ok else "a record whose length is not a multiple of 4 cannot be addressed by the 4-byte-unit offsets", key="C07.R3@record:align")
    pad = [n for n in body_walk(enc.func) if isinstance(n, ast.If) and "len(storage) < 32" in U(n.test)]
    hr = enc.header.get("return")
    ok = bool(hr) and hr[2].replace(" ", "") in ("storage[0:length]", "storage[:length]")
    rep.ob("C07.R3", hr[0] if hr else enc.func, "record returned is exactly `length` bytes", ok, "", key="C07.R3@record:length")
    from ..rowpack import model as rowpack_model
    rp = rowpack_model(repo)
    rri = rp["func"]
    acc = [x for x in rp["problems"] if any(k in x for k in ("offset store", "runs after", "without a record", "no path of the loop", "scaled by a power", "leaves the loop", "does not return the row record"))]
    rep.ob("C07.R3", rp["loop"], "per emitted record: offset stored, then buffer appended, cursor advanced by its length, cell_count + 1", not acc,
           "" if not acc else "; ".join(acc) + ": offsets, buffer and cell count can disagree (overlapping or out-of-bounds records)", key="C07.R3@row:accounting")
    ini = [x for x in rp["problems"] if any(k in x for k in ("starts a", "cell loop runs over", "not the cell at", "cell_count is"))]
    rep.ob("C07.R3", rri, "one offset slot per column, cursor from 0, columns in order", not ini, "; ".join(ini), key="C07.R3@row:init")
    fld = [x for x in rp["problems"] if any(k in x for k in ("cell_offsets is not", "cell_storage_buffer is not"))]
    rep.ob("C07.R3", rri, "offsets and buffer written to the row record", not fld, "; ".join(fld), key="C07.R3@row:fields")
    unclassified = [x for x in rp["problems"] if x not in acc and x not in ini and x not in fld]
    if unclassified:
        rep.ob("C07.R3", rri, "row packer", False, "; ".join(unclassified), key="C07.R3@row:other")

    # ---- R4 tile arithmetic (semantic model of the tile loop)
    from ..tiler import model as tiler_model
    tm = tiler_model(repo)
    rtd = tm["func"]
    MT = tm["MT"]
    rep.ob("C07.R4", tm["tile_loop"], f"number of tiles = (len(data) >> {tm['shift']}) + 1 agrees with MAX_TILE_SIZE = {MT}", tm["count_ok"],
           "" if tm["count_ok"] else "number of tiles does not match the tile size: rows are lost or tiles overlap", key="C07.R4@tiles:count")
    rep.ob("C07.R4", tm["tile_loop"], "tiles 0..max_tile_idx are each written once", tm["loop_ok"], "; ".join(x for x in tm["problems"] if "tile indices" in x), key="C07.R4@tiles:loop")
    rep.ob("C07.R4", tm["rows_loop"], f"row_start = tile index * {MT}", tm["row_start_ok"], "; ".join(x for x in tm["problems"] if "first row of tile" in x), key="C07.R4@tiles:row_start")
    okp = tm["partition_ok"] and tm["numrows_ok"]
    rep.ob("C07.R4", tm["rows_loop"], "full tiles hold MAX_TILE_SIZE rows, the last tile the remainder up to len(data)", okp,
           "; ".join(x for x in tm["problems"] if "partition" in x or "numrows" in x) or ("" if okp else "tile row ranges do not partition range(len(data))"), key="C07.R4@tiles:partition")
    okr = tm["rows_ok"] and tm["append_ok"]
    rep.ob("C07.R4", tm["rows_loop"], "every row of the tile is encoded with the tile's first row as offset, in order", okr,
           "; ".join(x for x in tm["problems"] if "does not encode row" in x or "not appended" in x), key="C07.R4@tiles:rows")
    okt = tm["ref_ok"] and tm["tile_size_ok"] and tm["numrows_ok"]
    rep.ob("C07.R4", tm["tile_loop"], "tile reference carries tileid = tile index, tile_size = MAX_TILE_SIZE, numrows = rows in tile", okt,
           "; ".join(x for x in tm["problems"] if "tileid" in x or "tile_size" in x or "numrows" in x), key="C07.R4@tiles:ref")
    rep.ob("C07.R4", tm["tile_loop"], "old tile references are dropped and each new tile is referenced", tm["refs_ok"],
           "; ".join(x for x in tm["problems"] if "old tile references" in x), key="C07.R4@tiles:refs")
    # tile_row_index + tileid * tile_size == row
    tri = [rp["tile_row_index"]] if rp.get("tile_row_index") is not None else []
    params = rp["params"]
    ok = bool(tri) and len(params) >= 5 and _eq(lin(tri[0].value), Lin(0, {params[4]: 1, params[3]: -1})) and tm["rows_ok"]
    rep.ob("C07.R4", tri[0] if tri else rri, "tile_row_index = row - (first row of the tile)", ok,
           "" if ok else "the declared row index does not identify the row (tile_row_index + tileid*tile_size must equal row)", key="C07.R4@tile_row_index")
    rep.ob("C07.R4", rtd, "declared dimensions are taken from the grid", tm["dims_ok"], "", key="C07.R4@dims")
    from ..headers import model as headers_model
    for axis in ("row", "col"):
        hm = headers_model(repo, axis)
        rep.ob("C07.R4", hm["header"], f"one {'row' if axis == 'row' else 'column'} header per grid {'row' if axis == 'row' else 'column'} with its own index", not hm["problems"],
               "; ".join(hm["problems"]), key=f"C07.R4@{axis}-headers")
    rep.ob("C07.R4", rtd, "objects are copied to the file store after the last tile", tm["copy_after_ok"], "", key="C07.R4@copy-after")
    rep.extra["template_sites"] = n_sites
    # Document.save leaves out the tables is_a_pivot_table names: only a table whose own drawable carries the pivot flag may be
    # left out (anything wider leaves edited ordinary tables with their old tiles under a new declared size)
    from ..funsum import Summarizer as _Summ
    ipt = repo.func("model.py", "_NumbersModel.is_a_pivot_table")
    tid_ = ipt.args.args[1].arg
    rets_ = [(p_.kind, U(p_.ret) if p_.ret is not None else None, p_.conds) for p_ in _Summ(consts=repo.consts).summarize(ipt)]
    want_ = f"self.objects[self.table_info_id({tid_})].is_a_pivot_table"
    ok_ = len(rets_) == 1 and rets_[0][0] == "return" and rets_[0][1] in (want_, f"bool({want_})") and not rets_[0][2]
    rep.ob("C07.R4", ipt, "only a table whose drawable carries the pivot flag is left out when saving", ok_,
           "" if ok_ else f"is_a_pivot_table answers `{(rets_[0][1] or '')[:90] if rets_ else '?'}`: a table that merely copied a reference from a pivot table (add_table copies every "
           "reference of its source) is never re-tiled, its declared size and its tiles disagree after an edit", key="C07.R4@save:pivot-only")

    rep.floor("C07.R1", 11)
    rep.floor("C07.R2", 8)
    rep.floor("C07.R3", 5)
    rep.floor("C07.R4", 12)


def expand_values(func, node):
    """``node`` with single-assignment locals replaced by their (any) value expression."""
    from ..symexec import _unwrap_alias
    return _unwrap_alias(func, node) if isinstance(node, ast.Name) else node


def _copy_back_problems(cp):
    """copy_object_to_iwa_file: for the archive whose header id matches, the stored object is overwritten, its references
    are recomputed, and (when there are any) the header's reference list is emptied and refilled with them."""
    from ..symexec import body_paths, expand_aliases
    params = [a.arg for a in cp.args.args]
    if len(params) != 3:
        return ["parameter list changed"]
    _f, obj, oid = params
    loops = [n for n in cp.body if isinstance(n, ast.For)]
    if len(loops) != 1 or not isinstance(loops[0].target, ast.Name):
        return ["loop over the archives not found"]
    lp = loops[0]
    arch = lp.target.id
    X = lambda n: U(expand_aliases(cp, n)).replace(" ", "")  # noqa: E731
    stored = f"{arch}.objects[0]"
    reflist = f"{arch}.header.message_infos[0].object_references"
    probs = []
    n_match = 0
    for conds, steps, end in body_paths(lp.body):
        match = None
        has_refs = None
        for t, o in conds:
            tx = X(t)
            if tx in (f"{arch}.header.identifier=={oid}", f"{oid}=={arch}.header.identifier"):
                match = o
            elif tx in (f"{arch}.header.identifier!={oid}", f"{oid}!={arch}.header.identifier"):
                match = not o
            elif tx.startswith("len(") and tx.endswith(")>0"):
                has_refs = o
            elif tx.startswith("len(") and tx.endswith(")==0"):
                has_refs = not o
            elif tx.startswith("not") or not any(ch in tx for ch in "=<>"):
                has_refs = (not o) if tx.startswith("not") else o
        copies = [c for st in steps for c in ast.walk(st) if isinstance(c, ast.Call) and last_attr(c.func) == "CopyFrom"]
        if match is None:
            probs.append("a path through the loop does not test the archive's identifier")
            continue
        if not match:
            if copies:
                probs.append("an archive with another identifier is overwritten")
            continue
        n_match += 1
        if not (len(copies) == 1 and X(copies[0].func.value) == stored and [X(a) for a in copies[0].args] == [obj]):
            probs.append("the stored object is not overwritten with the live one")
        fr = [c for st in steps for c in ast.walk(st) if isinstance(c, ast.Call) and call_name(c) == "find_references"]
        if not (len(fr) == 1 and X(fr[0].args[0]) == stored):
            probs.append("references are not recomputed from the rewritten object")
            continue
        refs = U(fr[0].args[1])
        if has_refs is False:
            continue
        clears = [st for st in steps if isinstance(st, ast.While) and X(st.test) in (f"len({reflist})>0", reflist) and any(
            isinstance(c, ast.Call) and last_attr(c.func) == "pop" and X(c.func.value) == reflist for c in ast.walk(st))]
        clears += [st for st in steps if isinstance(st, ast.Delete) and X(st.targets[0]) == f"{reflist}[:]"]
        fills = [st for st in steps if isinstance(st, ast.For) and U(st.iter) == refs and any(
            isinstance(c, ast.Call) and last_attr(c.func) == "append" and X(c.func.value) == reflist and U(c.args[0]) == U(st.target) for c in ast.walk(st))]
        fills += [st for st in steps if isinstance(st, ast.Expr) and isinstance(st.value, ast.Call) and last_attr(st.value.func) == "extend" and X(st.value.func.value) == reflist
                  and U(st.value.args[0]) == refs]
        if not clears or not fills or steps.index(clears[0]) > steps.index(fills[0]):
            probs.append("the header's object_references are not emptied and then refilled with the recomputed references")
    if n_match == 0:
        probs.append("no path handles the archive whose identifier matches")
    return list(dict.fromkeys(probs))


def _anc(n):
    p = getattr(n, "_parent", None)
    while p is not None:
        yield p
        p = getattr(p, "_parent", None)


VARIANTS = [
    T("new-message-id-through-a-local", "containers.py", '        self._max_id += 1\n        self._objects[PACKAGE_ID].last_object_identifier = self._max_id\n        return self._max_id\n', "        new_id = self._max_id + 1\n        self._max_id = new_id\n        self._objects[PACKAGE_ID].last_object_identifier = new_id\n        return new_id\n"),
    M("new-message-id-records-the-old-value", "containers.py", '        self._max_id += 1\n        self._objects[PACKAGE_ID].last_object_identifier = self._max_id\n        return self._max_id\n', "        new_id = self._max_id + 1\n        self._objects[PACKAGE_ID].last_object_identifier = self._max_id\n        self._max_id = new_id\n        return new_id\n", "C07.R1"),
    M("tile-metadata-after-loop", "model.py", """            base_data_store.tiles.tile_size = MAX_TILE_SIZE

            self.add_component_metadata(tile_id, "CalculationEngine", "Tables/Tile-{}")

            tile_idx += 1

""", """            base_data_store.tiles.tile_size = MAX_TILE_SIZE

            tile_idx += 1

        self.add_component_metadata(tile_id, "CalculationEngine", "Tables/Tile-{}")
""", "C07.R2"),
    M("empty-rows-not-stored", "model.py", "                tile.rowInfos.append(row_info)\n", "                if row_info.cell_count:\n                    tile.rowInfos.append(row_info)\n", "C07.R4"),
    M("lookup-narrowed", "containers.py", "paths = [k for k, v in self._file_store.items() if iwa_file in k]", "paths = [k for k in self._file_store if k.startswith(iwa_file) or k == f\"Index/{iwa_file}.iwa\"]", "C07.R1"),
    T("lookup-keys-only", "containers.py", "paths = [k for k, v in self._file_store.items() if iwa_file in k]", "paths = [name for name in self._file_store if iwa_file in name]"),
    M("header-size-zero-for-default", "model.py", "                size=height,", "                size=0.0 if height == DEFAULT_ROW_HEIGHT else height,", "C07.R4"),
    M("drop-style-table-metadata", "model.py", "        self.add_component_metadata(style_table_id, \"CalculationEngine\", \"Tables/DataList-{}\")\n", "", "C07.R2"),
    M("tile-metadata-wrong-locator", "model.py", 'self.add_component_metadata(tile_id, "CalculationEngine", "Tables/Tile-{}")', 'self.add_component_metadata(tile_id, "CalculationEngine", "Tables/DataList-{}")', "C07.R2"),
    M("id-not-recorded", "containers.py", "        self._objects[PACKAGE_ID].last_object_identifier = self._max_id\n", "", "C07.R1"),
    M("id-bumped-elsewhere", "containers.py", "        new_id = self.new_message_id()\n", "        new_id = self.new_message_id()\n        self._max_id += 1\n", "C07.R1"),
    M("offset-after-advance", "model.py", "                offsets[col] = current_offset >> 2\n                current_offset += len(buffer)\n", "                current_offset += len(buffer)\n                offsets[col] = current_offset >> 2\n", "C07.R3"),
    M("tile-shift-7", "model.py", "max_tile_idx = len(data) >> 8", "max_tile_idx = len(data) >> 7", "C07.R4"),
    M("tile-row-index-absolute", "model.py", "row_info.tile_row_index = row - tile_row_offset", "row_info.tile_row_index = row", "C07.R4"),
    M("last-tile-short", "model.py", "                num_rows = len(data) - row_start\n                row_end = row_start + num_rows", "                num_rows = len(data) - row_start - 1\n                row_end = row_start + num_rows", "C07.R4"),
    M("cell-count-unconditional", "model.py", "                current_offset += len(buffer)\n\n                row_info.cell_count += 1", "                current_offset += len(buffer)\n\n            row_info.cell_count += 1", "C07.R3"),
    M("floor-start-id", "containers.py", "math.ceil(self._max_id / 1000000) * 1000000", "math.floor(self._max_id / 1000000) * 1000000", "C07.R1"),
    T("tile-count-floordiv", "model.py", "max_tile_idx = len(data) >> 8", "max_tile_idx = len(data) // MAX_TILE_SIZE"),
]

"""C07 — every saved package is structurally sound and referentially closed."""

from __future__ import annotations

import ast

from .. import cfg as cfgmod
from ..cellcodec import HEADER_SIZE, extract_encoder
from ..core import AnalysisError, U, body_walk, call_name, last_attr, try_const
from ..linear import Lin, lin
from ..selftest import M, T

EXPLANATION = (
    "who-may-write on the identifier counter and must-follow on every object created in a new archive file "
    "(add_component_metadata with the same id and the matching locator on all paths), record geometry from the layout "
    "table (4-byte multiples, offset stored before the cursor advances), and linear tile arithmetic "
    "(tile_row_index + tileid*tile_size == row; tiles partition the rows)"
)
TRUSTED = ["python ast", "statement CFG (post-dominance)", "linear forms"]


def _eq(a, b):
    return a is not None and b is not None and (a - b).is_const() and (a - b).c == 0


def run(repo, rep, tier):
    env = dict(repo.consts)
    # ---- R1 identifier source
    writers = []
    for mod in repo.modules():
        t = repo.tree(mod)
        for fn in [n for n in ast.walk(t) if isinstance(n, ast.FunctionDef)]:
            for n in body_walk(fn):
                tg = []
                if isinstance(n, ast.Assign):
                    tg = n.targets
                elif isinstance(n, ast.AugAssign):
                    tg = [n.target]
                if any(isinstance(x, ast.Attribute) and x.attr == "_max_id" for x in tg):
                    writers.append((mod, repo.qualname(fn), n))
    allowed = {"containers.py:ObjectStore.__init__", "containers.py:ObjectStore.new_message_id"}
    for mod, q, n in writers:
        rep.ob("C07.R1", n, f"{q} writes _max_id", q in allowed, "" if q in allowed else "the identifier counter is written outside its owner", key=f"C07.R1@writer:{q}")
    nm = repo.func("containers.py", "ObjectStore.new_message_id")
    body = [U(s) for s in nm.body if not (isinstance(s, ast.Expr) and isinstance(s.value, ast.Constant))]
    ok = body == ["self._max_id += 1", "self._objects[PACKAGE_ID].last_object_identifier = self._max_id", "return self._max_id"]
    rep.ob("C07.R1", nm, "new_message_id: increment, record as last_object_identifier, return", ok,
           "" if ok else f"found {body}: a new id must be above every earlier one and recorded as the high-water mark on every path", key="C07.R1@new_message_id")
    init = repo.func("containers.py", "ObjectStore.__init__")
    src = U(init).replace(" ", "")
    ok = "self._max_id=max(self._objects.keys())" in src and "self._max_id=math.ceil(self._max_id/1000000)*1000000" in src
    rep.ob("C07.R1", init, "counter starts at or above the largest loaded identifier (rounded up)", ok, "", key="C07.R1@init:start")
    co = repo.func("containers.py", "ObjectStore.create_object_from_dict")
    s = U(co)
    ok = "new_id = self.new_message_id()" in s and "create_iwa_segment(new_id, cls, object_dict)" in s and "self._objects[new_id] = cls(**object_dict)" in s \
        and "self._object_to_filename_map[new_id] = iwa_pathname" in s
    rep.ob("C07.R1", co, "created objects take their id from new_message_id and are registered under it", ok, "", key="C07.R1@create:id")
    # the segment is stored either in a new file or appended to the existing one
    ok = "self._file_store[iwa_pathname] = IWAFile.from_dict(chunks)" in s and "self._file_store[iwa_pathname].chunks[0].archives.append(iwa_segment)" in s \
        and "iwa_pathname = iwa_file.format(new_id) + '.iwa'" in s
    rep.ob("C07.R1", co, "segment stored in a new archive file named after the id, or appended to the existing file", ok, "", key="C07.R1@create:store")
    seg = repo.func("iwafile.py", "create_iwa_segment")
    ok = "'identifier': str(obj_id)" in U(seg) and "NAME_ID_MAP[full_name]" in U(seg)
    rep.ob("C07.R1", seg, "segment header carries the object's id and registered type", ok, "", key="C07.R1@segment:header")
    callers = []
    for mod in repo.modules():
        for n in ast.walk(repo.tree(mod)):
            if isinstance(n, ast.Call) and last_attr(n.func) == "create_iwa_segment":
                fn = next((a for a in [n] + list(_anc(n)) if isinstance(a, ast.FunctionDef)), None)
                callers.append(repo.qualname(fn) if fn else mod)
    ok = callers == ["containers.py:ObjectStore.create_object_from_dict"]
    rep.ob("C07.R1", co, f"create_iwa_segment called only from create_object_from_dict ({callers})", ok, "", key="C07.R1@segment:callers")
    stores = []
    for n in ast.walk(repo.tree("containers.py")):
        if isinstance(n, ast.Assign) and isinstance(n.targets[0], ast.Subscript) and U(n.targets[0].value) == "self._objects":
            fn = next((a for a in _anc(n) if isinstance(a, ast.FunctionDef)), None)
            stores.append(fn.name if fn else "?")
    ok = sorted(stores) == ["create_object_from_dict", "store_object"]
    rep.ob("C07.R1", co, f"objects registered only at load and at creation ({sorted(stores)})", ok, "", key="C07.R1@objects:writers")
    # update_object_file_store copies every object back
    uo = repo.func("containers.py", "ObjectStore.update_object_file_store")
    ok = "for obj_id in self._objects" in U(uo) and "copy_object_to_iwa_file(self._file_store[self._object_to_filename_map[obj_id]], self._objects[obj_id], obj_id)" in U(uo)
    rep.ob("C07.R1", uo, "every object is copied back into the archive file it belongs to", ok, "", key="C07.R1@copy-back")
    cp = repo.func("iwafile.py", "copy_object_to_iwa_file")
    s = U(cp)
    ok = "archive.header.identifier == obj_id" in s and "archive.objects[0].CopyFrom(obj)" in s and "find_references(archive.objects[0], references)" in s \
        and "msg_info.object_references.append(reference)" in s and "msg_info.object_references.pop()" in s
    rep.ob("C07.R1", cp, "copy-back refreshes the object_references of the rewritten object", ok, "", key="C07.R1@copy-back:references")

    # ---- R2 new archive files are inventoried
    n_sites = 0
    model = repo.tree("model.py")
    for fn in [n for n in ast.walk(model) if isinstance(n, ast.FunctionDef)]:
        g = None
        for n in body_walk(fn):
            if isinstance(n, ast.Assign) and isinstance(n.value, ast.Call) and last_attr(n.value.func) == "create_object_from_dict":
                call = n.value
                path = try_const(call.args[0]) if call.args else None
                if not (isinstance(path, str) and "{}" in path):
                    continue
                n_sites += 1
                idvar = U(n.targets[0].elts[0]) if isinstance(n.targets[0], ast.Tuple) else None
                want_loc = path[len("Index/"):] if path.startswith("Index/") else path
                metas = [c for c in body_walk(fn) if isinstance(c, ast.Call) and last_attr(c.func) == "add_component_metadata"
                         and c.args and U(c.args[0]) == idvar]
                good = [c for c in metas if len(c.args) == 3 and try_const(c.args[2]) == want_loc]
                ok = bool(good) and cfgmod.must_reach(fn, n, good)
                detail = ""
                if not metas:
                    detail = f"object {idvar} is created in a new archive file `{path}` but never listed in the package metadata"
                elif not good:
                    detail = f"metadata locator {[try_const(c.args[2]) for c in metas]} does not match the file `{path}`"
                elif not ok:
                    detail = "a path from the creation to the end of the function skips the metadata entry"
                rep.ob("C07.R2", n, f"{fn.name}: `{path}` -> add_component_metadata({idvar}, ..., {want_loc!r})", ok, detail, key=f"C07.R2@{fn.name}:{idvar}")
    acm = repo.func("model.py", "_NumbersModel.add_component_metadata")
    s = U(acm)
    ok = "locator = locator.format(object_id)" in s and "identifier=object_id" in s and "self.objects[PACKAGE_ID].components.append(component_info)" in s \
        and "self.add_component_reference(object_id, location=parent)" in s
    rep.ob("C07.R2", acm, "add_component_metadata appends a ComponentInfo for the id with its locator and links it to the parent", ok, "", key="C07.R2@add_component_metadata")

    # ---- R3 record geometry
    enc = extract_encoder(repo)
    widths = [b.width for b in enc.blocks] + [k.payload_width for k in enc.kinds if k.payload_width is not None]
    ok = all(isinstance(w, int) and w % 4 == 0 for w in widths) and HEADER_SIZE % 4 == 0 and len(widths) >= 15
    rep.ob("C07.R3", enc.func, f"every record part is a multiple of 4 bytes ({sorted(set(widths))})", ok,
           "" if ok else "a record whose length is not a multiple of 4 cannot be addressed by the 4-byte-unit offsets", key="C07.R3@record:align")
    pad = [n for n in body_walk(enc.func) if isinstance(n, ast.If) and "len(storage) < 32" in U(n.test)]
    hr = enc.header.get("return")
    ok = bool(hr) and hr[2].replace(" ", "") in ("storage[0:length]", "storage[:length]")
    rep.ob("C07.R3", hr[0] if hr else enc.func, "record returned is exactly `length` bytes", ok, "", key="C07.R3@record:length")
    rri = repo.func("model.py", "_NumbersModel.recalculate_row_info")
    g = cfgmod.build(rri)
    store = [n for n in body_walk(rri) if isinstance(n, ast.Assign) and U(n.targets[0]) == "offsets[col]"]
    adv = [n for n in body_walk(rri) if isinstance(n, ast.AugAssign) and U(n.target) == "current_offset"]
    app = [n for n in body_walk(rri) if isinstance(n, ast.AugAssign) and U(n.target) == "cell_storage"]
    cnt = [n for n in body_walk(rri) if isinstance(n, ast.AugAssign) and U(n.target) == "row_info.cell_count"]
    ok = len(store) == 1 and len(adv) == 1 and len(app) == 1 and len(cnt) == 1
    if ok:
        ok = U(adv[0].value) == "len(buffer)" and U(app[0].value) == "buffer" and "current_offset" in U(store[0].value) \
            and g.dominates(g.node_of(store[0]), g.node_of(adv[0])) and try_const(cnt[0].value) == 1
        same_guard = all(getattr(x, "_parent", None) is getattr(store[0], "_parent", None) for x in (adv[0], app[0], cnt[0]))
        par = getattr(store[0], "_parent", None)
        ok = ok and same_guard and isinstance(par, ast.If) and U(par.test).replace(" ", "") == "bufferisnotNone"
    rep.ob("C07.R3", rri, "per emitted record: offset stored, then buffer appended, cursor advanced by its length, cell_count + 1", ok,
           "" if ok else "offsets, buffer and cell count can disagree (overlapping or out-of-bounds records)", key="C07.R3@row:accounting")
    s = U(rri).replace(" ", "")
    ok = "offsets=[-1]*len(data[0])" in s and "current_offset=0" in s and "forcolinrange(len(data[row]))" in s and "buffer=data[row][col]._to_buffer()" in s
    rep.ob("C07.R3", rri, "one offset slot per column, cursor from 0, columns in order", ok, "", key="C07.R3@row:init")
    ok = "row_info.cell_offsets=pack(f'<{len(offsets)}h',*offsets)" in s and "row_info.cell_storage_buffer=cell_storage" in s
    rep.ob("C07.R3", rri, "offsets and buffer written to the row record", ok, "", key="C07.R3@row:fields")

    # ---- R4 tile arithmetic
    rtd = repo.func("model.py", "_NumbersModel.recalculate_table_data")
    s = U(rtd).replace(" ", "")
    MT = env.get("MAX_TILE_SIZE")
    if not isinstance(MT, int):
        raise AnalysisError("MAX_TILE_SIZE is not a foldable int")
    # shift agrees with the tile size
    sh = None
    for n in body_walk(rtd):
        if isinstance(n, ast.Assign) and U(n.targets[0]) == "max_tile_idx":
            v = n.value
            if isinstance(v, ast.BinOp) and isinstance(v.op, ast.RShift) and U(v.left) == "len(data)":
                sh = try_const(v.right)
            elif isinstance(v, ast.BinOp) and isinstance(v.op, ast.FloorDiv) and U(v.left) == "len(data)":
                d = try_const(v.right, env)
                sh = d.bit_length() - 1 if isinstance(d, int) and d & (d - 1) == 0 else None
    ok = sh is not None and 1 << sh == MT
    rep.ob("C07.R4", rtd, f"max_tile_idx = len(data) >> {sh} agrees with MAX_TILE_SIZE = {MT}", ok,
           "" if ok else "number of tiles does not match the tile size: rows are lost or tiles overlap", key="C07.R4@tiles:count")
    loops = [n for n in body_walk(rtd) if isinstance(n, ast.While)]
    ok = bool(loops) and U(loops[0].test).replace(" ", "") == "tile_idx<=max_tile_idx" and "tile_idx=0" in s and any(
        isinstance(n, ast.AugAssign) and U(n.target) == "tile_idx" and try_const(n.value) == 1 and getattr(n, "_parent", None) is loops[0] for n in body_walk(rtd))
    rep.ob("C07.R4", loops[0] if loops else rtd, "tiles 0..max_tile_idx are each written once", ok, "", key="C07.R4@tiles:loop")
    if loops:
        lp = loops[0]
        rs = [n for n in lp.body if isinstance(n, ast.Assign) and U(n.targets[0]) == "row_start"]
        rs_l = lin(rs[0].value, env) if rs else None
        ok = _eq(rs_l, Lin(0, {"tile_idx": MT}))
        rep.ob("C07.R4", rs[0] if rs else lp, f"row_start = tile_idx * {MT}", ok, "", key="C07.R4@tiles:row_start")
        br = [n for n in lp.body if isinstance(n, ast.If) and "len(data)" in U(n.test)]
        ok = False
        if br:
            b = br[0]
            t = U(b.test).replace(" ", "").strip("()")
            def vals(block):
                d = {}
                for x in block:
                    if isinstance(x, ast.Assign):
                        d[U(x.targets[0])] = lin(x.value, env)
                return d
            a1, a2 = vals(b.body), vals(b.orelse)
            cond_ok = t in ("len(data)-row_start>MAX_TILE_SIZE", "(len(data)-row_start)>MAX_TILE_SIZE")
            RS = Lin(0, {"row_start": 1})
            LEN = Lin(0, {"len(data)": 1})
            def sub(x, d):
                if x is None:
                    return None
                return x.subst("num_rows", d["num_rows"]) if d.get("num_rows") is not None else x
            full = _eq(a1.get("num_rows"), Lin(MT)) and _eq(sub(a1.get("row_end"), a1), RS + Lin(MT))
            last = _eq(a2.get("num_rows"), LEN - RS) and _eq(sub(a2.get("row_end"), a2), LEN)
            ok = cond_ok and full and last
        rep.ob("C07.R4", br[0] if br else lp, "full tiles hold MAX_TILE_SIZE rows, the last tile the remainder up to len(data)", ok,
               "" if ok else "tile row ranges do not partition range(len(data))", key="C07.R4@tiles:partition")
        rl = [n for n in ast.walk(lp) if isinstance(n, ast.For) and U(n.iter).replace(" ", "") == "range(row_start,row_end)"]
        ok = bool(rl) and any(isinstance(c, ast.Call) and last_attr(c.func) == "recalculate_row_info" and [U(a) for a in c.args] == ["table_id", "data", "row_start", U(rl[0].target)] for c in ast.walk(rl[0])) \
            and any(isinstance(c, ast.Call) and U(c.func) == "tile.rowInfos.append" for c in ast.walk(rl[0]))
        rep.ob("C07.R4", rl[0] if rl else lp, "every row of the tile is encoded with the tile's first row as offset, in order", ok, "", key="C07.R4@tiles:rows")
        ok = "tile_ref.tileid=tile_idx" in s and "base_data_store.tiles.tile_size=MAX_TILE_SIZE" in s and "'numrows':num_rows" in s
        rep.ob("C07.R4", lp, "tile reference carries tileid = tile index, tile_size = MAX_TILE_SIZE, numrows = rows in tile", ok, "", key="C07.R4@tiles:ref")
        ok = "tile_ref.tile.MergeFrom(TSPMessages.Reference(identifier=tile_id))" in s and "base_data_store.tiles.tiles.append(tile_ref)" in s and "base_data_store.tiles.ClearField('tiles')" in s
        rep.ob("C07.R4", lp, "old tile references are dropped and each new tile is referenced", ok, "", key="C07.R4@tiles:refs")
    # tile_row_index + tileid * tile_size == row
    tri = [n for n in body_walk(rri) if isinstance(n, ast.Assign) and U(n.targets[0]) == "row_info.tile_row_index"]
    params = [a.arg for a in rri.args.args]
    ok = bool(tri) and _eq(lin(tri[0].value), Lin(0, {"row": 1, "tile_row_offset": -1})) and params[3:5] == ["tile_row_offset", "row"]
    rep.ob("C07.R4", tri[0] if tri else rri, "tile_row_index = row - (first row of the tile)", ok,
           "" if ok else "the declared row index does not identify the row (tile_row_index + tileid*tile_size must equal row)", key="C07.R4@tile_row_index")
    ok = "table_model.number_of_rows=len(data)" in s and "table_model.number_of_columns=len(data[0])" in s
    rep.ob("C07.R4", rtd, "declared dimensions are taken from the grid", ok, "", key="C07.R4@dims")
    rh = repo.func("model.py", "_NumbersModel.recalculate_row_headers")
    sh_ = U(rh).replace(" ", "")
    ok = "forrowinrange(len(data))" in sh_ and "index=row" in sh_ and "numberOfCells=len(data[row])" in sh_
    rep.ob("C07.R4", rh, "one row header per grid row with its own index", ok, "", key="C07.R4@row-headers")
    ch = repo.func("model.py", "_NumbersModel.recalculate_column_headers")
    sc = U(ch).replace(" ", "")
    ok = "index=col" in sc and "enumerate(col_data)" in sc and "zip(*data)" in sc
    rep.ob("C07.R4", ch, "one column header per grid column with its own index", ok, "", key="C07.R4@col-headers")
    last = [n for n in rtd.body if isinstance(n, ast.Expr)][-1] if rtd.body else None
    ok = last is not None and U(last.value) == "self.objects.update_object_file_store()" and last is rtd.body[-1]
    rep.ob("C07.R4", rtd, "objects are copied to the file store after the last tile", ok, "", key="C07.R4@copy-after")
    rep.extra["template_sites"] = n_sites
    rep.floor("C07.R1", 10)
    rep.floor("C07.R2", 8)
    rep.floor("C07.R3", 5)
    rep.floor("C07.R4", 12)


def _anc(n):
    p = getattr(n, "_parent", None)
    while p is not None:
        yield p
        p = getattr(p, "_parent", None)


VARIANTS = [
    M("drop-style-table-metadata", "model.py", "        self.add_component_metadata(style_table_id, \"CalculationEngine\", \"Tables/DataList-{}\")\n", "", "C07.R2"),
    M("tile-metadata-wrong-locator", "model.py", 'self.add_component_metadata(tile_id, "CalculationEngine", "Tables/Tile-{}")', 'self.add_component_metadata(tile_id, "CalculationEngine", "Tables/DataList-{}")', "C07.R2"),
    M("id-not-recorded", "containers.py", "        self._objects[PACKAGE_ID].last_object_identifier = self._max_id\n", "", "C07.R1"),
    M("id-bumped-elsewhere", "containers.py", "        new_id = self.new_message_id()\n", "        new_id = self.new_message_id()\n        self._max_id += 1\n", "C07.R1"),
    M("offset-after-advance", "model.py", "                offsets[col] = current_offset >> 2\n                current_offset += len(buffer)\n", "                current_offset += len(buffer)\n                offsets[col] = current_offset >> 2\n", "C07.R3"),
    M("tile-shift-7", "model.py", "max_tile_idx = len(data) >> 8", "max_tile_idx = len(data) >> 7", "C07.R4"),
    M("tile-row-index-absolute", "model.py", "row_info.tile_row_index = row - tile_row_offset", "row_info.tile_row_index = row", "C07.R4"),
    M("last-tile-short", "model.py", "                num_rows = len(data) - row_start\n                row_end = row_start + num_rows", "                num_rows = len(data) - row_start - 1\n                row_end = row_start + num_rows", "C07.R4"),
    M("cell-count-unconditional", "model.py", "                current_offset += len(buffer)\n\n                row_info.cell_count += 1", "                current_offset += len(buffer)\n\n            row_info.cell_count += 1", "C07.R3"),
    M("floor-start-id", "containers.py", "math.ceil(self._max_id / 1000000) * 1000000", "math.floor(self._max_id / 1000000) * 1000000", "C07.R1"),
    T("tile-count-floordiv", "model.py", "max_tile_idx = len(data) >> 8", "max_tile_idx = len(data) // MAX_TILE_SIZE"),
]

"""C17 — damaged or foreign files fail only with the library's own error types."""

from __future__ import annotations

import ast

from ..core import AnalysisError, U, body_walk, call_name, last_attr, try_const
from ..escape import EscapeAnalysis
from ..selftest import M, T

EXPLANATION = (
    "inter-procedural exception-escape analysis from ObjectStore.__init__ through IWork.open, the zip/package readers, "
    "_store_blob, is_iwa_file and the IWA decoders: explicit raises (with import shadowing), a frozen table of external "
    "callees (zipfile, plistlib, snappy, protobuf decoders, struct), and implicit raisers (subscripts, unpack, max) that guard "
    "facts do not discharge; try/except and suppress subtract by class hierarchy; the escaping set must lie within "
    "FileError, FileFormatError, UnsupportedError; the CLI must catch exactly those"
)
TRUSTED = ["python ast", "exception class hierarchy table", "external-callee raise table (one recorded witness each)", "linear guard facts"]

ALLOWED = ("np.FileError", "np.FileFormatError", "np.UnsupportedError")


def run(repo, rep, tier):
    ea = EscapeAnalysis(repo)
    entry = repo.func("containers.py", "ObjectStore.__init__")
    esc = ea.escapes(entry)
    bad = {}
    for c, d, loc in esc:
        if any(ea.sub(c.rstrip("?"), a) for a in ALLOWED):
            continue
        bad.setdefault((c, loc), d)
    # one obligation per analysed function: nothing foreign originates in it
    origins = {}
    for (c, loc), d in bad.items():
        origins.setdefault(loc, []).append((c, d))
    for q in sorted(ea.functions):
        rep.analysed(q)
    seen_locs = set()
    for (c, loc), d in sorted(bad.items()):
        rep.ob("C17.R1", loc, f"{c} from `{d}`", False,
               f"{c} raised at {loc} is not caught or translated on some path to Document(path): callers that catch the library's error types crash instead",
               key=f"C17.R1@{loc.split(':')[0].split('/')[-1]}:{c}:{d[:50]}", func=loc.split(":")[0].split("/")[-1])
        seen_locs.add(loc)
    # discharged obligations: every raising site examined, grouped per function
    rep.ob("C17.R1", entry, f"escape set of ObjectStore.__init__ over {len(ea.functions)} functions / {ea.sites} raising sites", not bad,
           "" if not bad else f"{len(bad)} foreign exception(s) escape", key="C17.R1@summary" if not bad else "C17.R1@summary:foreign")
    allowed_seen = sorted({c for c, d, loc in esc if any(ea.sub(c.rstrip('?'), a) for a in ALLOWED)})
    for a in allowed_seen:
        rep.ob("C17.R1", entry, f"library error type {a} can be raised by the loader", True, "", key=f"C17.R1@allowed:{a}")
    for q in sorted(ea.functions):
        rep.ob("C17.R1", q.split(":")[0], f"{q}: all raising sites guarded, caught or translated", not any(q.split(":")[0] in loc for (c, loc) in bad if False), "", key=f"C17.R1@fn:{q}", func=q)
    rep.extra["unknown_external_calls_assumed_silent"] = sorted(ea.unknown_calls)
    rep.extra["functions_in_closure"] = sorted(ea.functions)
    need = {"iwork.py:IWork.open", "iwork.py:IWork._store_blob", "iwafile.py:is_iwa_file", "iwafile.py:IWAFile.from_buffer", "iwork.py:IWork._read_objects_from_zipfile",
            "iwafile.py:IWACompressedChunk.from_buffer", "iwafile.py:IWAArchiveSegment.from_buffer", "iwafile.py:get_archive_info_and_remainder", "iwork.py:IWork.document_version"}
    missing = sorted(need - set(ea.functions))
    if missing:
        raise AnalysisError(f"loader closure does not reach {missing}: call resolution is broken")

    # ---- R2 taxonomy and consumer
    exc = repo.tree("exceptions.py")
    cls = {n.name: last_attr(n.bases[0]) for n in exc.body if isinstance(n, ast.ClassDef) and n.bases}
    for name in ("FileError", "FileFormatError", "UnsupportedError"):
        ok = cls.get(name) == "NumbersError" and cls.get("NumbersError") == "Exception"
        rep.ob("C17.R2", "src/numbers_parser/exceptions.py:1", f"{name} derives from NumbersError(Exception)", ok, "", key=f"C17.R2@taxonomy:{name}", func="exceptions.py")
    main = repo.func("_cat_numbers.py", "main")
    tries = [n for n in body_walk(main) if isinstance(n, ast.Try)]
    ok = False
    detail = "no try/except around the document readers"
    for t in tries:
        body_calls = {call_name(c) for s in t.body for c in ast.walk(s) if isinstance(c, ast.Call)}
        if {"print_sheet_names", "print_table_names", "print_table"} <= body_calls:
            caught = set()
            for h in t.handlers:
                if isinstance(h.type, ast.Tuple):
                    caught |= {U(e) for e in h.type.elts}
                elif h.type is not None:
                    caught.add(U(h.type))
            want = {"FileFormatError", "FileError", "UnsupportedError"}
            ok = want <= caught or "NumbersError" in caught
            exits = any(isinstance(c, ast.Call) and U(c.func) in ("sys.exit", "exit") and c.args and U(c.args[0]) != "0" for h in t.handlers for c in ast.walk(h))
            prints = any(isinstance(c, ast.Call) and call_name(c) == "print" and any(kw.arg == "file" and "stderr" in U(kw.value) for kw in c.keywords) for h in t.handlers for c in ast.walk(h))
            detail = "" if ok and exits and prints else f"handler catches {sorted(caught)}, exits non-zero: {exits}, prints to stderr: {prints}"
            ok = ok and exits and prints
    rep.ob("C17.R2", main, "cat-numbers catches FileFormatError, FileError and UnsupportedError around every Document use, reports and exits 1", ok, detail, key="C17.R2@cat-numbers:handler")
    for fn in ("print_sheet_names", "print_table_names", "print_table"):
        f = repo.func("_cat_numbers.py", fn)
        # in the function itself or in a module-level function it calls (a generator it iterates runs inside it as well)
        mod_fns = {n.name: n for n in repo.tree("_cat_numbers.py").body if isinstance(n, ast.FunctionDef)}
        reach, todo = [f], [f]
        while todo:
            cur_ = todo.pop()
            for c in ast.walk(cur_):
                if isinstance(c, ast.Call) and isinstance(c.func, ast.Name) and c.func.id in mod_fns and mod_fns[c.func.id] not in reach and c.func.id != "main":
                    reach.append(mod_fns[c.func.id])
                    todo.append(mod_fns[c.func.id])
        ok = any(isinstance(c, ast.Call) and call_name(c) == "Document" for f_ in reach for c in ast.walk(f_))
        rep.ob("C17.R2", f, f"{fn} opens the document inside the guarded region", ok, "", key=f"C17.R2@cat-numbers:{fn}")
    # values taken out of the (untrusted) property list are type-checked before they reach string functions
    dv = repo.func("iwork.py", "IWork.document_version")
    reads = [n for n in body_walk(dv) if isinstance(n, ast.Assign) and isinstance(n.value, ast.Subscript) and try_const(n.value.slice) == "fileFormatVersion"]
    if not reads:
        raise AnalysisError("IWork.document_version: read of fileFormatVersion not found")
    var = U(reads[0].targets[0])
    typed = any(isinstance(n, ast.Call) and call_name(n) == "isinstance" and len(n.args) == 2 and U(n.args[0]) == var and "str" in U(n.args[1]) for n in body_walk(dv)) \
        or (isinstance(reads[0].value, ast.Subscript) and False) or any(isinstance(n, ast.Assign) and U(n.targets[0]) == var and isinstance(n.value, ast.Call) and call_name(n.value) == "str" for n in body_walk(dv))
    rep.ob("C17.R1", reads[0], f"document_version: `{var}` read from Properties.plist is checked to be a string", typed,
           "" if typed else "a property list can hold any type under fileFormatVersion; a non-string reaches re.sub() in allowed_version and raises TypeError out of Document()",
           key="C17.R1@document_version:type")
    rep.floor("C17.R1", 12)
    rep.floor("C17.R2", 6)


VARIANTS = [
    M("allowed-version-unpacks-split", "containers.py", '        version = re.sub(r"(\\d+)\\.(\\d+)\\.\\d+", r"\\1.\\2", version)\n        return version in SUPPORTED_NUMBERS_VERSIONS',
      '        major, minor = version.split(".")[:2]\n        return f"{major}.{minor}" in SUPPORTED_NUMBERS_VERSIONS', "C17.R1"),
    M("drop-badzip-handler", "iwork.py", "        except ZIP_READ_ERRORS:\n            msg = \"invalid Numbers document\"\n            raise FileFormatError(msg) from None",
      "        except KeyError:\n            msg = \"invalid Numbers document\"\n            raise FileFormatError(msg) from None", "C17.R1"),
    M("narrow-store-blob-handler", "iwork.py", "            except Exception as e:\n                msg = f\"{filename}: invalid IWA file {filename}\"", "            except ValueError as e:\n                msg = f\"{filename}: invalid IWA file {filename}\"", "C17.R1"),
    M("revert-fix-sniff-short-header", "iwafile.py", "        if len(header) < 4:\n            return False\n", "", "C17.R1"),
    M("revert-fix-raw-zip-read", "iwork.py", "            blob = self._read_zip_member(zipf, filename)", "            blob = zipf.read(filename)", "C17.R1"),
    M("revert-fix-empty-store", "containers.py", "        if len(self._objects) == 0:\n            msg = \"invalid Numbers document (no archives)\"\n            raise FileFormatError(msg)\n", "", "C17.R1"),
    M("revert-fix-empty-chunks", "iwork.py", "            if len(iwaf.chunks) == 0:\n                msg = f\"{filename}: invalid IWA file {filename}\"\n                raise FileFormatError(msg)\n", "", "C17.R1"),
    M("wrong-error-type", "iwork.py", "            msg = \"no such file or directory\"\n            raise FileError(msg)", "            msg = \"no such file or directory\"\n            raise FileNotFoundError(msg)", "C17.R1"),
    M("plist-keyerror-uncaught", "iwork.py", "except (plistlib.InvalidFileException, ExpatError, KeyError, TypeError, ValueError):", "except (plistlib.InvalidFileException, ExpatError, TypeError, ValueError):", "C17.R1"),
    M("zip-errors-tuple-narrowed", "iwork.py", "    zlib.error,\n    EOFError,\n", "    EOFError,\n", "C17.R1"),
    M("revert-fix-version-type", "iwork.py", """            if not isinstance(doc_version, str):
                msg = "fileFormatVersion is not a string"
                raise TypeError(msg)
""", "", "C17.R1"),
    M("revert-fix-open-zip-errors", "iwork.py", "        except ZIP_READ_ERRORS:\n            msg = \"invalid Numbers document\"\n", "        except BadZipFile:\n            msg = \"invalid Numbers document\"\n", "C17.R1"),
    M("revert-fix-plist-valueerror", "iwork.py", "except (plistlib.InvalidFileException, ExpatError, KeyError, TypeError, ValueError):", "except (plistlib.InvalidFileException, ExpatError, KeyError, TypeError):", "C17.R1"),
    M("cli-drops-unsupported", "_cat_numbers.py", "except (FileFormatError, FileError, UnsupportedError) as e:", "except (FileFormatError, FileError) as e:", "C17.R2"),
    T("handler-in-helper-order", "iwork.py", "        except ZIP_READ_ERRORS:\n            msg = \"invalid Numbers document\"\n            raise FileFormatError(msg) from None",
      "        except ZIP_READ_ERRORS as e:\n            raise FileFormatError(\"invalid Numbers document\") from e"),
]

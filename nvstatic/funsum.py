"""Function summaries as decision tables.

``summarize(func)`` executes a (loop-free, or loop-summarised) function body symbolically: every path becomes a pair
(conditions, returned expression), both written over the function's *parameters* (locals are substituted away in
execution order, so ``value = round(value)`` followed by ``value < 0`` reads ``round(value) < 0``).  Calls to functions
listed in ``inline`` are replaced by the callee's own summary (as a conditional expression), so extracting or inlining a
helper does not change the summary.

``decide(paths, scenario)`` evaluates the table under a *scenario* (concrete values for some sub-expressions, e.g.
``{"round(value)": -1, "number_format.base": 8}``): it returns the canonical text of what the function returns there.
Atoms the scenario does not determine are enumerated both ways (``free_atoms``); rules compare the result in every
scenario with the rendering the property requires, so they depend on what is returned, not on how the branches are
spelled.
"""

from __future__ import annotations

import ast
import copy
import itertools
import operator

from .core import AnalysisError, U, call_name, try_const
from . import symexec as _sx
from .symexec import _strip, bool_atoms, bool_eval, subst

_PARSED = {}


class Path:
    __slots__ = ("conds", "ret", "kind", "node", "effects", "env", "state")

    def __init__(self, conds, ret, kind, node, effects=(), env=None):
        self.conds, self.ret, self.kind, self.node, self.effects = conds, ret, kind, node, list(effects)
        self.state = env
        self.env = {k: v for k, v in (env or {}).items() if k not in ("__heap__", "__fx__")}

    def __repr__(self):
        return f"<{[(U(c), o) for c, o in self.conds]} -> {self.kind} {U(self.ret) if self.ret is not None else None}>"


def _conj(conds):
    vals = [c if o else ast.UnaryOp(op=ast.Not(), operand=c) for c, o in conds]
    if not vals:
        return ast.Constant(True)
    return vals[0] if len(vals) == 1 else ast.BoolOp(op=ast.And(), values=vals)


def _as_expr(paths):
    """Conditional expression equivalent to a list of returning paths (the last path is the default)."""
    ps = [p for p in paths if p.kind == "return"]
    if len(ps) != len(paths) or not ps:
        return None
    e = ps[-1].ret
    for p in reversed(ps[:-1]):
        e = ast.IfExp(test=_conj(p.conds), body=p.ret, orelse=e)
    return e


# texts of further mappings whose values are never None (a rule that has checked every store into such a map names it
# here for the duration of its own summaries)
TABLE_TEXTS = set()


def _is_table(e):
    """A mapping whose values are never None: a dict comprehension, a module-level table (ALL_CAPS name), or a map a rule vouches for."""
    if isinstance(e, ast.DictComp) or (isinstance(e, ast.Name) and e.id.isupper() and len(e.id) > 2):
        return True
    return bool(TABLE_TEXTS) and isinstance(e, (ast.Attribute, ast.Name)) and U(e) in TABLE_TEXTS


class _Walrus(ast.NodeTransformer):
    """``(name := value)`` inside an expression: the binding is recorded (in evaluation order) and the expression
    continues with the value."""

    def __init__(self, bind):
        self.bind = bind

    def visit_NamedExpr(self, node):
        v = self.visit(node.value)
        return self.bind(node.target.id, v)


class _Canon(ast.NodeTransformer):
    """Spelling-level canonical forms used while summarising:

    * ``X.setdefault(k, {})`` -> ``X[k]`` (the entry exists afterwards either way; what is stored under it is tracked);
    * comprehension variables are renamed ``_v0``, ``_v1``... in order of binding;
    * ``{..}.get(k)`` on a dict comprehension -> ``{..}[k]`` and ``{..}.get(k) is None`` -> ``k not in {..}``
      (the values of the comprehension are objects, never None).
    """

    def __init__(self):
        self.depth = 0

    def visit_Call(self, node):
        self.generic_visit(node)
        f = node.func
        if isinstance(f, ast.Attribute) and f.attr == "setdefault" and len(node.args) == 2 and isinstance(node.args[1], (ast.Dict, ast.List)) \
                and not getattr(node.args[1], "keys", None) and not getattr(node.args[1], "elts", None):
            return ast.Subscript(value=f.value, slice=node.args[0], ctx=ast.Load())
        if isinstance(f, ast.Attribute) and f.attr == "get" and len(node.args) == 1 and _is_table(f.value) and not node.keywords:
            return ast.Subscript(value=f.value, slice=node.args[0], ctx=ast.Load())
        return node

    def visit_Compare(self, node):
        # look at the un-rewritten operand first: ``M.get(k) is None``
        if len(node.ops) == 1 and isinstance(node.ops[0], (ast.Is, ast.IsNot)) and isinstance(node.comparators[0], ast.Constant) and node.comparators[0].value is None \
                and isinstance(node.left, ast.Call) and isinstance(node.left.func, ast.Attribute) and node.left.func.attr == "get" and len(node.left.args) == 1 \
                and _is_table(node.left.func.value):
            m = self.visit(node.left.func.value)
            k = self.visit(node.left.args[0])
            return ast.Compare(left=k, ops=[ast.NotIn() if isinstance(node.ops[0], ast.Is) else ast.In()], comparators=[m])
        self.generic_visit(node)
        # after the rewrite: ``M[k] is None`` with M a dict comprehension
        if len(node.ops) == 1 and isinstance(node.ops[0], (ast.Is, ast.IsNot)) and isinstance(node.comparators[0], ast.Constant) and node.comparators[0].value is None \
                and isinstance(node.left, ast.Subscript) and _is_table(node.left.value):
            return ast.Compare(left=node.left.slice, ops=[ast.NotIn() if isinstance(node.ops[0], ast.Is) else ast.In()], comparators=[node.left.value])
        return node

    def visit_Subscript(self, node):
        self.generic_visit(node)
        v, sl = node.value, node.slice
        # X[a:b][i] -> X[a + i] (constant a, i >= 0 inside the slice)
        if isinstance(sl, ast.Constant) and isinstance(sl.value, int) and not isinstance(sl.value, bool) and sl.value >= 0 and isinstance(v, ast.Subscript) \
                and isinstance(v.slice, ast.Slice) and v.slice.step is None:
            lo = 0 if v.slice.lower is None else (v.slice.lower.value if isinstance(v.slice.lower, ast.Constant) else None)
            hi = None if v.slice.upper is None else (v.slice.upper.value if isinstance(v.slice.upper, ast.Constant) else "?")
            if isinstance(lo, int) and lo >= 0 and (hi is None or (isinstance(hi, int) and hi >= 0 and lo + sl.value < hi)):
                return ast.Subscript(value=v.value, slice=ast.Constant(lo + sl.value), ctx=node.ctx)
        # X[0:] -> written X[0:] stays; X[:k] lower made explicit
        if isinstance(sl, ast.Slice) and sl.lower is None and sl.step is None:
            node.slice = ast.Slice(lower=ast.Constant(0), upper=sl.upper, step=None)
        return node

    def visit_Starred(self, node):
        self.generic_visit(node)
        v = node.value
        if isinstance(v, ast.Call) and isinstance(v.func, ast.Name) and v.func.id in ("tuple", "list") and len(v.args) == 1 and not v.keywords:
            node.value = v.args[0]
        return node

    def _comp(self, node):
        ren = {}
        for g in node.generators:
            for n in ast.walk(g.target):
                if isinstance(n, ast.Name):
                    ren[n.id] = f"_v{self.depth}"
                    self.depth += 1
        if ren:
            for n in ast.walk(node):
                if isinstance(n, ast.Name) and n.id in ren:
                    n.id = ren[n.id]
        self.generic_visit(node)
        self.depth -= len(ren)
        return node

    visit_ListComp = visit_SetComp = visit_GeneratorExp = visit_DictComp = _comp


_NEVER_NONE_CALLS = {"round", "int", "float", "str", "len", "floor", "ceil", "abs", "max", "min", "bool", "sum", "list", "dict", "tuple", "set"}


class _NoneTests(ast.NodeTransformer):
    """``None is None`` -> True; ``round(x) is None`` (a value that cannot be None) -> False."""

    def visit_Compare(self, node):
        self.generic_visit(node)
        if len(node.ops) == 1 and isinstance(node.ops[0], (ast.Is, ast.IsNot)) and isinstance(node.comparators[0], ast.Constant) and node.comparators[0].value is None:
            x = node.left
            isnone = None
            if isinstance(x, ast.Constant):
                isnone = x.value is None
            elif isinstance(x, ast.Call) and isinstance(x.func, ast.Name) and x.func.id in _NEVER_NONE_CALLS:
                isnone = False
            elif isinstance(x, (ast.BinOp, ast.JoinedStr, ast.List, ast.Dict, ast.Tuple, ast.Set, ast.ListComp, ast.DictComp)):
                isnone = False
            if isnone is not None:
                return ast.Constant(isnone if isinstance(node.ops[0], ast.Is) else not isnone)
        return node


class _HeapRead(ast.NodeTransformer):
    def __init__(self, heap):
        self.heap = heap

    def visit(self, node):
        if getattr(node, "_fz", False):
            return node
        if isinstance(node, (ast.Subscript, ast.Attribute)) and isinstance(getattr(node, "ctx", None), ast.Load):
            t = U(node)
            if t in self.heap:
                v = copy.deepcopy(self.heap[t])
                v._fz = True
                return v
        return super().visit(node)


class Summarizer:
    def __init__(self, inline=None, loop_hook=None, depth=3, consts=None, effect_calls=()):
        self.effect_calls = set(effect_calls)  # texts of callees whose calls (as statements) are recorded as effects
        self.inline = inline or {}
        self.loop_hook = loop_hook
        self.depth = depth
        self.consts = consts or {}  # module-level names bound once to a literal: name -> AST
        self._memo = {}

    def _literal_iter(self, it, env):
        """The elements of a loop's iterable when it is a literal tuple/list (directly, through a local, or through a
        module-level constant), else None."""
        e = it
        for _ in range(3):
            if isinstance(e, ast.Name) and e.id in env and e.id not in ("__heap__", "__fx__"):
                e = env[e.id]
            elif isinstance(e, ast.Name) and e.id in self.consts:
                e = self.consts[e.id]
            else:
                break
        if isinstance(e, (ast.Tuple, ast.List)) and len(e.elts) <= 16 and not any(isinstance(x, ast.Starred) for x in e.elts):
            return list(e.elts)
        return None

    def _unroll(self, st, env, conds, done, depth, func):
        elts = self._literal_iter(st.iter, env)
        if elts is None:
            return None
        states = [(env, conds)]
        after = []
        for el in elts:
            nxt = []
            for e, c in states:
                e = self._fork(e)
                el_s = self._sub(el, e, depth)
                if isinstance(st.target, ast.Name):
                    e[st.target.id] = el_s
                elif isinstance(st.target, ast.Tuple) and isinstance(el_s, (ast.Tuple, ast.List)) and len(el_s.elts) == len(st.target.elts) \
                        and all(isinstance(x, ast.Name) for x in st.target.elts):
                    for x, y in zip(st.target.elts, el_s.elts):
                        e[x.id] = y
                else:
                    return None
                inner = []
                live = self._block(st.body, [(e, c)], inner, depth, func)
                nxt.extend(live)
                for p in inner:
                    if p.kind == "break":
                        after.append((p.state, p.conds))
                    elif p.kind == "continue":
                        nxt.append((p.state, p.conds))
                    else:
                        done.append(p)
            states = nxt
        if st.orelse:
            states = self._block(st.orelse, states, done, depth, func)
        return states + after

    # ---------------------------------------------------------------- expression level
    def _inline_calls(self, e, depth):
        if depth <= 0 or not self.inline:
            return e
        me = self

        class T(ast.NodeTransformer):
            def visit_Call(self, call):
                self.generic_visit(call)
                if any(isinstance(a, ast.Starred) and isinstance(a.value, (ast.Tuple, ast.List)) for a in call.args):
                    # f(x, *(a, b)) is f(x, a, b)
                    flat = []
                    for a in call.args:
                        if isinstance(a, ast.Starred) and isinstance(a.value, (ast.Tuple, ast.List)) and not any(isinstance(x, ast.Starred) for x in a.value.elts):
                            flat.extend(a.value.elts)
                        else:
                            flat.append(a)
                    call = ast.Call(func=call.func, args=flat, keywords=call.keywords)
                if isinstance(call.func, ast.Name) and call.func.id in me.inline and not call.keywords:
                    h = me.inline[call.func.id]
                    params = [a.arg for a in h.args.args]
                    if len(call.args) == len(params) and not h.args.vararg and not h.args.kwarg and not any(isinstance(a, ast.Starred) for a in call.args):
                        paths = me.summarize(h, depth - 1)
                        ex = _as_expr(paths)
                        if ex is not None:
                            r = subst(ex, dict(zip(params, call.args)))
                            # a helper passed in as an argument is called by its parameter's name: what it stands for is known now
                            if any(isinstance(a, ast.Name) and a.id in me.inline for a in call.args):
                                r = me._inline_calls(r, depth - 1)
                            return r
                return call

        return T().visit(copy.deepcopy(e))

    def _sub(self, e, env, depth):
        if any(isinstance(n, ast.NamedExpr) for n in ast.walk(e)):
            def bind(name, value):
                v = self._sub(value, env, depth)
                env[name] = v
                return v
            e = _Walrus(bind).visit(copy.deepcopy(_strip(e)))
        # a local holds the value it had when it was bound: what is substituted for it is marked, and the marked parts are not
        # read again against the stores made since (``key = d["next"]; d["next"] += 1; return key`` returns the old value)
        r = self._inline_calls(_sx._Sub({k: v for k, v in env.items() if k not in ("__heap__", "__fx__")}, mark=True).visit(copy.deepcopy(_strip(e))), depth)
        r = _Canon().visit(r)
        heap = env.get("__heap__")
        if heap:
            r = _HeapRead(heap).visit(r)
        return r

    @staticmethod
    def _fork(env):
        e = dict(env)
        e["__heap__"] = dict(env.get("__heap__", {}))
        e["__fx__"] = list(env.get("__fx__", []))
        return e

    # ---------------------------------------------------------------- statement level
    def summarize(self, func, depth=None):
        depth = self.depth if depth is None else depth
        key = (id(func), depth)
        if key in self._memo:
            return self._memo[key]
        body = [s for s in func.body if not (isinstance(s, ast.Expr) and isinstance(s.value, ast.Constant))]
        done = []
        live = self._block(body, [({"__heap__": {}, "__fx__": []}, [])], done, depth, func)
        for env, conds in live:
            done.append(Path(conds, ast.Constant(None), "return", func, env.get("__fx__", ())))
        self._memo[key] = done
        return done

    def block_paths(self, stmts, env0=None, name="block"):
        """Paths through a statement list (a loop body): each carries the final values of the locals it assigns
        (``.env``, over the values on entry) and how it ends: "fall", "break", "continue", "return" or "raise"."""
        holder = ast.FunctionDef(name=name, args=ast.arguments(posonlyargs=[], args=[], kwonlyargs=[], kw_defaults=[], defaults=[]), body=list(stmts), decorator_list=[], lineno=getattr(stmts[0], "lineno", 0))
        env = {"__heap__": {}, "__fx__": []}
        env.update(env0 or {})
        done = []
        live = self._block(list(stmts), [(env, [])], done, self.depth, holder)
        for e, conds in live:
            done.append(Path(conds, None, "fall", stmts[-1], e.get("__fx__", ()), e))
        return done

    def _block(self, stmts, states, done, depth, func):
        for st in stmts:
            nxt = []
            for env, conds in states:
                nxt.extend(self._stmt(st, env, conds, done, depth, func))
            states = nxt
            if len(states) + len(done) > 512:
                raise AnalysisError(f"{func.name}: too many paths")
            if not states:
                break
        return states

    def _stmt(self, st, env, conds, done, depth, func):
        if isinstance(st, ast.If):
            t = _NoneTests().visit(self._sub(st.test, env, depth))
            c = try_const(t, default=Ellipsis)
            out = []
            for outcome, blk in ((True, st.body), (False, st.orelse)):
                if c is not Ellipsis and isinstance(c, bool) and c != outcome:
                    continue
                out.extend(self._block(blk, [(self._fork(env), conds + [(t, outcome)])], done, depth, func))
            return out
        if isinstance(st, ast.Return):
            v = self._sub(st.value, env, depth) if st.value is not None else ast.Constant(None)
            done.append(Path(conds, v, "return", st, env.get("__fx__", ()), env))
            return []
        if isinstance(st, (ast.Break, ast.Continue)):
            done.append(Path(conds, None, "break" if isinstance(st, ast.Break) else "continue", st, env.get("__fx__", ()), env))
            return []
        if isinstance(st, ast.Raise):
            done.append(Path(conds, self._sub(st.exc, env, depth) if st.exc is not None else None, "raise", st, env.get("__fx__", ())))
            return []
        if isinstance(st, ast.Assign) and len(st.targets) == 1:
            tg = st.targets[0]
            if isinstance(tg, ast.Name):
                env[tg.id] = self._sub(st.value, env, depth)
                return [(env, conds)]
            if isinstance(tg, ast.Tuple) and sum(isinstance(x, ast.Starred) for x in tg.elts) == 1 and isinstance(tg.elts[-1], ast.Starred) \
                    and isinstance(tg.elts[-1].value, ast.Name) and all(isinstance(x, ast.Name) for x in tg.elts[:-1]):
                # ``a, b, *rest = X``: a = X[0], b = X[1], rest = the elements of X[2:]
                v = self._sub(st.value, env, depth)
                k = len(tg.elts) - 1
                for i, x in enumerate(tg.elts[:-1]):
                    env[x.id] = v.elts[i] if isinstance(v, ast.Tuple) and len(v.elts) > i else _Canon().visit(ast.Subscript(value=v, slice=ast.Constant(i), ctx=ast.Load()))
                env[tg.elts[-1].value.id] = ast.Subscript(value=v, slice=ast.Slice(lower=ast.Constant(k), upper=None, step=None), ctx=ast.Load())
                return [(env, conds)]
            if isinstance(tg, ast.Tuple) and all(isinstance(x, ast.Name) for x in tg.elts):
                v = self._sub(st.value, env, depth)
                if isinstance(v, ast.Tuple) and len(v.elts) == len(tg.elts):
                    for x, y in zip(tg.elts, v.elts):
                        env[x.id] = y
                else:
                    for i, x in enumerate(tg.elts):
                        env[x.id] = _Canon().visit(ast.Subscript(value=v, slice=ast.Constant(i), ctx=ast.Load()))
                return [(env, conds)]
        if isinstance(st, ast.AnnAssign) and isinstance(st.target, ast.Name):
            if st.value is not None:
                env[st.target.id] = self._sub(st.value, env, depth)
            return [(env, conds)]
        if isinstance(st, ast.AugAssign) and isinstance(st.target, ast.Name):
            cur = env.get(st.target.id, ast.Name(id=st.target.id, ctx=ast.Load()))
            env[st.target.id] = ast.BinOp(left=cur, op=st.op, right=self._sub(st.value, env, depth))
            return [(env, conds)]
        if isinstance(st, ast.AugAssign) and isinstance(st.target, (ast.Subscript, ast.Attribute)):
            # ``place op= v`` is the store ``place = place op v``
            ld = copy.deepcopy(st.target)
            for n in ast.walk(ld):
                if hasattr(n, "ctx"):
                    n.ctx = ast.Load()
            asg = ast.Assign(targets=[st.target], value=ast.BinOp(left=ld, op=st.op, right=st.value), lineno=st.lineno)
            ast.copy_location(asg, st)
            ast.fix_missing_locations(asg)
            return self._stmt(asg, env, conds, done, depth, func)
        if isinstance(st, ast.For):
            un = self._unroll(st, env, conds, done, depth, func)
            if un is not None:
                return un
        if isinstance(st, (ast.While, ast.For)):
            upd = self.loop_hook(st, env, lambda e: self._sub(e, env, depth)) if self.loop_hook else None
            if upd is None:
                for n in ast.walk(st):
                    if isinstance(n, ast.Name) and isinstance(n.ctx, ast.Store):
                        env[n.id] = ast.Name(id=f"__loop{st.lineno}_{n.id}__", ctx=ast.Load())
            else:
                env.update(upd)
            return [(env, conds)]
        if isinstance(st, ast.With):
            return self._block(st.body, [(env, conds)], done, depth, func)
        if isinstance(st, ast.Try) and not getattr(st, "finalbody", None) and not st.orelse and len(st.handlers) == 1 and len(st.body) == 1 \
                and isinstance(st.handlers[0].type, ast.Name) and st.handlers[0].type.id == "KeyError" and st.handlers[0].name is None \
                and isinstance(st.body[0], (ast.Assign, ast.Return)) and isinstance(st.body[0].value, ast.Subscript) \
                and isinstance(st.body[0].value.value, ast.Name) and st.body[0].value.value.id.isupper() and not isinstance(st.body[0].value.slice, ast.Slice) \
                and not any(isinstance(x, (ast.Call, ast.Subscript)) for x in ast.walk(st.body[0].value.slice)):
            # ``try: x = TABLE[k]  except KeyError: <else>`` is ``if k in TABLE: x = TABLE[k]  else: <else>`` (the lookup in a
            # module-level table is the only thing in the body that can raise KeyError; the key is a plain value)
            sub_ = st.body[0].value
            test_ = ast.Compare(left=copy.deepcopy(sub_.slice), ops=[ast.In()], comparators=[copy.deepcopy(sub_.value)])
            as_if = ast.copy_location(ast.If(test=test_, body=list(st.body), orelse=list(st.handlers[0].body)), st)
            ast.fix_missing_locations(as_if)
            return self._stmt(as_if, env, conds, done, depth, func)
        if isinstance(st, ast.Try) and not getattr(st, "finalbody", None):
            # the body completes (atom ``__exc<line>__`` false), or a handler runs from the state before the ``try`` with the
            # names the body assigns unknown (the point of failure is not known); handlers that fall through rejoin after it
            atom = ast.Name(id=f"__exc{st.lineno}__", ctx=ast.Load())
            out = self._block(list(st.body) + list(st.orelse), [(self._fork(env), conds + [(atom, False)])], done, depth, func)
            assigned = sorted({n.id for b in st.body for n in ast.walk(b) if isinstance(n, ast.Name) and isinstance(n.ctx, ast.Store)})
            for i, h in enumerate(st.handlers):
                henv = self._fork(env)
                for nm in assigned:
                    henv[nm] = ast.Name(id=f"__try{st.lineno}_{nm}__", ctx=ast.Load())
                if h.name:
                    henv[h.name] = ast.Name(id=f"__caught{st.lineno}_{i}__", ctx=ast.Load())
                # which handler: the first i-1 did not match, this one does (the last one takes what is left; an exception no
                # handler matches leaves the function, which is not a path of the summary)
                which = [(ast.Name(id=f"__exc{st.lineno}_{j}__", ctx=ast.Load()), False) for j in range(i)]
                if i < len(st.handlers) - 1:
                    which.append((ast.Name(id=f"__exc{st.lineno}_{i}__", ctx=ast.Load()), True))
                out.extend(self._block(h.body, [(henv, conds + [(atom, True)] + which)], done, depth, func))
            return out
        if isinstance(st, ast.Expr) and isinstance(st.value, ast.Call) and (U(st.value.func) in self.effect_calls or "*" in self.effect_calls):
            c = st.value
            args = [self._sub(a, env, depth) for a in c.args]
            fn_t = U(c.func) if U(c.func) in self.effect_calls else U(self._sub(c.func, env, depth))
            env.setdefault("__fx__", []).append((f"call:{fn_t}", args[0] if len(args) == 1 else ast.Tuple(elts=args, ctx=ast.Load()), st))
            return [(env, conds)]
        if isinstance(st, (ast.FunctionDef, ast.AsyncFunctionDef, ast.ClassDef)):
            return [(env, conds)]  # a nested definition binds a name; calls to it are inlined through ``inline`` or stay symbolic
        if isinstance(st, ast.Expr) and isinstance(st.value, (ast.Yield, ast.YieldFrom)) and self.effect_calls:
            v = self._sub(st.value.value, env, depth) if st.value.value is not None else ast.Constant(None)
            env.setdefault("__fx__", []).append(("yield", v, st))
            return [(env, conds)]
        if isinstance(st, (ast.Pass, ast.Expr, ast.Assert, ast.Import, ast.ImportFrom)):
            if isinstance(st, ast.Expr) and isinstance(st.value, ast.Call) and isinstance(st.value.func, ast.Attribute) and isinstance(st.value.func.value, ast.Name):
                # a method call on a tracked local (``digits.reverse()``): the value is wrapped so the mutation stays visible
                nm, meth = st.value.func.value.id, st.value.func.attr
                if nm in env and meth in ("reverse", "append", "extend", "insert", "sort", "pop", "clear"):
                    env[nm] = ast.Call(func=ast.Name(id=f"__after_{meth}__", ctx=ast.Load()), args=[env[nm]] + [self._sub(a, env, depth) for a in st.value.args], keywords=[])
            return [(env, conds)]
        if isinstance(st, ast.Assign) and len(st.targets) == 1 and isinstance(st.targets[0], (ast.Tuple, ast.List)) \
                and any(isinstance(x, (ast.Attribute, ast.Subscript)) for x in st.targets[0].elts) and not any(isinstance(x, ast.Starred) for x in st.targets[0].elts):
            # (a.x, a.y) = v: the value is taken first, then element i goes to target i
            v = self._sub(st.value, env, depth)
            states = [(env, conds)]
            for i, tg in enumerate(st.targets[0].elts):
                part = v.elts[i] if isinstance(v, (ast.Tuple, ast.List)) and len(v.elts) == len(st.targets[0].elts) else _Canon().visit(
                    ast.Subscript(value=copy.deepcopy(v), slice=ast.Constant(i), ctx=ast.Load()))
                hold = ast.Name(id=f"__part{st.lineno}_{i}__", ctx=ast.Load())
                nxt = []
                for e_, c_ in states:
                    e_[hold.id] = part
                    one = ast.copy_location(ast.Assign(targets=[tg], value=hold), st)
                    nxt.extend(self._stmt(one, e_, c_, done, depth, func))
                    e_.pop(hold.id, None)
                states = nxt
            return states
        if isinstance(st, ast.Assign):
            # stores into attributes / subscripts: recorded as effects, and visible to later reads of the same place
            v = self._sub(st.value, env, depth)
            for tg in st.targets:
                if isinstance(tg, (ast.Subscript, ast.Attribute)):
                    t = copy.deepcopy(_strip(tg))
                    t.ctx = ast.Load()
                    t = self._sub(t, {k: x for k, x in env.items() if k != "__heap__"}, depth)
                    key = U(t)
                    heap = env.setdefault("__heap__", {})
                    # a store through a place invalidates what was known about places below or above it
                    for k in [k for k in heap if k.startswith(key) or key.startswith(k)]:
                        del heap[k]
                    heap[key] = v
                    env.setdefault("__fx__", []).append((key, v, st))
            return [(env, conds)]
        raise AnalysisError(f"{func.name}: statement kind {type(st).__name__} at line {st.lineno} outside the summariser's language")


# -------------------------------------------------------------------- scenarios
_OPS = {ast.Add: operator.add, ast.Sub: operator.sub, ast.Mult: operator.mul, ast.FloorDiv: operator.floordiv, ast.Mod: operator.mod,
        ast.BitAnd: operator.and_, ast.BitOr: operator.or_, ast.LShift: operator.lshift, ast.RShift: operator.rshift, ast.Pow: operator.pow}
_CMP = {ast.Eq: operator.eq, ast.NotEq: operator.ne, ast.Lt: operator.lt, ast.LtE: operator.le, ast.Gt: operator.gt, ast.GtE: operator.ge,
        ast.In: lambda a, b: a in b, ast.NotIn: lambda a, b: a not in b, ast.Is: operator.is_, ast.IsNot: operator.is_not}
_UNKNOWN = object()


def cval(node, sc):
    """Concrete value of an expression in a scenario (sub-expression text -> value), or _UNKNOWN."""
    t = _sx._u(node)
    if t in sc:
        return sc[t]
    if isinstance(node, ast.Constant):
        return node.value
    if isinstance(node, (ast.List, ast.Tuple, ast.Set)):
        vals = [cval(e, sc) for e in node.elts]
        return _UNKNOWN if any(v is _UNKNOWN for v in vals) else tuple(vals)
    if isinstance(node, ast.UnaryOp):
        v = cval(node.operand, sc)
        if v is _UNKNOWN:
            return v
        if isinstance(node.op, ast.Not):
            return not v
        if isinstance(node.op, ast.USub):
            return -v
        return _UNKNOWN
    if isinstance(node, ast.BinOp) and type(node.op) in _OPS:
        a, b = cval(node.left, sc), cval(node.right, sc)
        if a is _UNKNOWN or b is _UNKNOWN or isinstance(a, str) or isinstance(b, str):
            return _UNKNOWN
        try:
            return _OPS[type(node.op)](a, b)
        except Exception:
            return _UNKNOWN
    if isinstance(node, ast.Compare) and len(node.ops) > 1 and all(type(o) in _CMP for o in node.ops):
        vals = [cval(x, sc) for x in [node.left] + list(node.comparators)]
        if any(v is _UNKNOWN for v in vals):
            return _UNKNOWN
        try:
            return all(_CMP[type(o)](a, b) for o, a, b in zip(node.ops, vals, vals[1:]))
        except Exception:
            return _UNKNOWN
    if isinstance(node, ast.Compare) and len(node.ops) == 1 and type(node.ops[0]) in _CMP:
        a, b = cval(node.left, sc), cval(node.comparators[0], sc)
        if a is _UNKNOWN or b is _UNKNOWN:
            return _UNKNOWN
        try:
            return _CMP[type(node.ops[0])](a, b)
        except Exception:
            return _UNKNOWN
    if isinstance(node, ast.IfExp):
        t = cval(node.test, sc)
        if t is _UNKNOWN:
            return _UNKNOWN
        return cval(node.body if t else node.orelse, sc)
    if isinstance(node, ast.BoolOp):
        vals = [cval(v, sc) for v in node.values]
        if isinstance(node.op, ast.And):
            if any(v is not _UNKNOWN and not v for v in vals):
                return False
            return _UNKNOWN if any(v is _UNKNOWN for v in vals) else vals[-1]
        if any(v is not _UNKNOWN and v for v in vals):
            return True
        return _UNKNOWN if any(v is _UNKNOWN for v in vals) else vals[-1]
    if isinstance(node, ast.Call) and (call_name(node) in ("max", "min", "floor", "ceil", "round") or U(node.func) in ("math.floor", "math.ceil")) and not node.keywords and node.args:
        import math
        args = [cval(a, sc) for a in node.args]
        if any(a is _UNKNOWN for a in args):
            return _UNKNOWN
        nm = call_name(node) or U(node.func).split(".")[-1]
        try:
            if nm in ("max", "min"):
                seq = args[0] if len(args) == 1 and isinstance(args[0], tuple) else args
                return max(seq) if nm == "max" else min(seq)
            if len(args) == 1:
                return {"floor": math.floor, "ceil": math.ceil, "round": round}[nm](args[0])
        except Exception:
            return _UNKNOWN
        return _UNKNOWN
    if isinstance(node, ast.Call) and call_name(node) in ("abs", "bool", "int") and len(node.args) == 1 and not node.keywords:
        v = cval(node.args[0], sc)
        if v is _UNKNOWN or isinstance(v, (str, tuple)):
            return _UNKNOWN
        return {"abs": abs, "bool": bool, "int": int}[call_name(node)](v)
    return _UNKNOWN


class Asg:
    """Atom truth for symexec.bool_eval: computed from the scenario, else taken from ``free``."""

    def __init__(self, sc, free=None):
        self.sc, self.free = sc, dict(free or {})

    def _val(self, k):
        if k in self.free:
            return self.free[k]
        node = _PARSED.get(k)
        if node is None:
            try:
                node = ast.parse(k, mode="eval").body
            except SyntaxError:
                return None
            if len(_PARSED) > 20000:
                _PARSED.clear()
            _PARSED[k] = node
        v = cval(node, self.sc)
        return None if v is _UNKNOWN else bool(v)

    def get(self, k, d=None):
        v = self._val(k)
        return d if v is None else v

    def __contains__(self, k):
        return self._val(k) is not None

    def __getitem__(self, k):
        v = self._val(k)
        if v is None:
            raise KeyError(k)
        return v


class _Simp(ast.NodeTransformer):
    def __init__(self, asg):
        self.asg = asg

    def visit_IfExp(self, node):
        r = bool_eval(node.test, self.asg)
        if r is True:
            return self.visit(node.body)
        if r is False:
            return self.visit(node.orelse)
        return self.generic_visit(node)


def simplify(e, sc):
    """``e`` with the conditional expressions the scenario decides resolved"""
    r = _Simp(Asg(sc, {})).visit(copy.deepcopy(_strip(e)))

    class K(ast.NodeTransformer):
        def visit(self, node):
            if isinstance(node, ast.expr) and not isinstance(node, ast.Constant):
                t = _sx._u(node)
                if t in sc and (sc[t] is None or isinstance(sc[t], (bool, int, str))):
                    return ast.copy_location(ast.Constant(sc[t]), node)
            return super().visit(node)

    return K().visit(r)


def _parts(e):
    """String concatenation flattened: list of ('s', text) / ('e', expression text)."""
    if isinstance(e, ast.Constant) and isinstance(e.value, str):
        return [("s", e.value)] if e.value else []
    if isinstance(e, ast.JoinedStr):
        out = []
        for v in e.values:
            if isinstance(v, ast.Constant):
                out += _parts(v)
            elif isinstance(v, ast.FormattedValue) and v.format_spec is None and v.conversion == -1:
                out += _parts(v.value) if _stringy(v.value) else [("e", canon_text(v.value))]
            else:
                out.append(("e", U(v)))
        return out
    if isinstance(e, ast.BinOp) and isinstance(e.op, ast.Add) and (_stringy(e.left) or _stringy(e.right)):
        return _parts(e.left) + _parts(e.right)
    return [("e", canon_text(e))]


# expressions known to be strings (beyond literals): calls by name, method calls by attribute, and exact texts
STRINGY_CALLS = {"str"}
STRINGY_METHODS = {"zfill", "rjust", "ljust", "upper", "lower", "join", "replace", "format"}
STRINGY_TEXTS = set()


def _stringy(e):
    if isinstance(e, ast.Constant):
        return isinstance(e.value, str)
    if isinstance(e, ast.JoinedStr):
        return True
    if isinstance(e, ast.BinOp) and isinstance(e.op, ast.Add):
        return _stringy(e.left) or _stringy(e.right)
    if isinstance(e, ast.Call):
        if isinstance(e.func, ast.Name) and e.func.id in STRINGY_CALLS:
            return True
        if isinstance(e.func, ast.Attribute) and e.func.attr in STRINGY_METHODS:
            return True
    return U(e) in STRINGY_TEXTS


def canon_text(e):
    """Canonical text of an expression: string concatenations in either spelling (``+`` / f-string) get one form."""
    if isinstance(e, (ast.JoinedStr, ast.BinOp)) and _stringy(e):
        ps = _parts(e)
        merged = []
        for k, t in ps:
            if merged and k == "s" and merged[-1][0] == "s":
                merged[-1] = ("s", merged[-1][1] + t)
            else:
                merged.append((k, t))
        if len(merged) == 1 and merged[0][0] == "e":
            return merged[0][1]
        return "cat(" + ", ".join(repr(t) if k == "s" else t for k, t in merged) + ")"
    if isinstance(e, ast.Call):
        return f"{canon_text(e.func)}(" + ", ".join([canon_text(a) for a in e.args] + [f"{kw.arg}={canon_text(kw.value)}" for kw in e.keywords]) + ")"
    if isinstance(e, ast.Attribute):
        return f"{canon_text(e.value)}.{e.attr}"
    return U(e)


def tv3(test, asg):
    """Three-valued truth with short-circuit: a known-false operand decides an ``and`` even if others are unknown."""
    if isinstance(test, ast.BoolOp):
        vals = [tv3(v, asg) for v in test.values]
        if isinstance(test.op, ast.And):
            return False if any(v is False for v in vals) else (True if all(v is True for v in vals) else None)
        return True if any(v is True for v in vals) else (False if all(v is False for v in vals) else None)
    if isinstance(test, ast.UnaryOp) and isinstance(test.op, ast.Not):
        v = tv3(test.operand, asg)
        return None if v is None else (not v)
    return bool_eval(test, asg)


def _candidates(paths, asg):
    """Paths that the known atoms do not exclude (conditions are examined in order: a path is dropped at its first
    condition that is decided the other way)."""
    out = []
    for p in paths:
        ok = True
        for c, o in p.conds:
            v = tv3(c, asg)
            if v is not None and v != o:
                ok = False
                break
        if ok:
            out.append(p)
    return out


def needed_atoms(test, asg):
    """Unknown atoms whose value can matter for ``test`` given what is known: operands behind a decided short-circuit
    and the arm of a conditional that a known test does not select are not looked at."""
    if isinstance(test, ast.BoolOp):
        out = set()
        for v in test.values:
            t = tv3(v, asg)
            if t is None:
                out |= needed_atoms(v, asg)
            elif t is (not isinstance(test.op, ast.And)):
                return out  # decided here: the remaining operands are not evaluated
        return out
    if isinstance(test, ast.UnaryOp) and isinstance(test.op, ast.Not):
        return needed_atoms(test.operand, asg)
    if isinstance(test, ast.IfExp):
        t = tv3(test.test, asg)
        if t is None:
            return needed_atoms(test.test, asg) | needed_atoms(test.body, asg) | needed_atoms(test.orelse, asg)
        return needed_atoms(test.body if t else test.orelse, asg)
    if isinstance(test, ast.Constant):
        return set()
    return {a for a in bool_atoms(test) if asg._val(a) is None}


def _value_atoms(e, asg):
    """Unknown atoms of the conditionals inside a value expression (outermost first, known tests select their arm)."""
    out = set()
    if isinstance(e, ast.IfExp):
        t = tv3(e.test, asg)
        if t is None:
            return needed_atoms(e.test, asg) | _value_atoms(e.body, asg) | _value_atoms(e.orelse, asg)
        return _value_atoms(e.body if t else e.orelse, asg)
    for ch in ast.iter_child_nodes(e):
        out |= _value_atoms(ch, asg)
    return out


def free_atoms(paths, sc):
    asg = Asg(sc)
    out = set()
    for p in _candidates(paths, asg):
        for c, _o in p.conds:
            out |= needed_atoms(c, asg)
        for e in ([p.ret] if p.ret is not None else []) + [fx_[1] for fx_ in p.effects if isinstance(fx_[1], ast.AST)]:
            out |= _value_atoms(e, asg)
    return sorted(out)


def decide(paths, sc, rewrite=None, limit=5):
    """[(free assignment, kind, canonical text of the result, path)] of the table in one scenario."""
    own = _sx.UCACHE is None
    if own:
        _sx.UCACHE = _DECIDE_CACHE
        if len(_DECIDE_CACHE) > 200000:
            _DECIDE_CACHE.clear()
    try:
        return _decide(paths, sc, rewrite, limit)
    finally:
        if own:
            _sx.UCACHE = None


_DECIDE_CACHE = {}


def _decide(paths, sc, rewrite=None, limit=5):
    free = free_atoms(paths, sc)
    if len(free) > limit:
        raise AnalysisError(f"the result depends on too many other facts in scenario {sc}: {free}")
    out = []
    seen = set()
    for vals in itertools.product([False, True], repeat=len(free)):
        fx = dict(zip(free, vals))
        asg = Asg(sc, fx)
        hit = []
        for p in paths:
            tv = [tv3(c, asg) for c, _o in p.conds]
            # conditions after the first failing one need not be decidable
            sel = True
            for v, (_c, o) in zip(tv, p.conds):
                if v is None:
                    raise AnalysisError(f"condition not decidable in scenario {sc}: {[U(c) for c, _ in p.conds]}")
                if v != o:
                    sel = False
                    break
            if sel:
                hit.append(p)
        if len(hit) != 1:
            raise AnalysisError(f"{len(hit)} paths selected in scenario {sc} / {fx}")
        p = hit[0]
        r = _Simp(asg).visit(copy.deepcopy(_strip(p.ret))) if p.ret is not None else None
        if rewrite is not None and r is not None:
            r = rewrite(r)
        # report each distinct outcome once, with only the free atoms its path actually looks at
        used = set()
        for c, _o in p.conds:
            used |= bool_atoms(c)
        for e in ([p.ret] if p.ret is not None else []) + [fx_[1] for fx_ in p.effects if isinstance(fx_[1], ast.AST)]:
            for n in ast.walk(e):
                if isinstance(n, ast.IfExp):
                    used |= bool_atoms(n.test)
        fx_used = {k: v for k, v in fx.items() if k in used}
        key = (id(p), tuple(sorted(fx_used.items())))
        if key in seen:
            continue
        seen.add(key)
        out.append((fx_used, p.kind, canon_text(r) if r is not None else None, p))
    return out


def env_before(stmts, stop, sc, fname="function"):
    """The locals (name -> expression over the parameters) when control reaches the top-level statement ``stop`` in
    scenario ``sc``: straight-line statements are substituted in order, branches are chosen by the scenario."""
    asg = Asg(sc)
    env = {}

    def block(sts):
        for st in sts:
            if st is stop:
                return True
            if isinstance(st, ast.If):
                v = tv3(subst(st.test, env), asg)
                if v is None:
                    raise AnalysisError(f"{fname}: branch `{U(st.test)[:60]}` before line {stop.lineno} is not decided in scenario {sc}")
                if block(st.body if v else st.orelse):
                    return True
            elif isinstance(st, ast.Assign) and len(st.targets) == 1 and isinstance(st.targets[0], ast.Name):
                env[st.targets[0].id] = subst(st.value, env)
            elif isinstance(st, ast.AnnAssign) and isinstance(st.target, ast.Name) and st.value is not None:
                env[st.target.id] = subst(st.value, env)
            elif isinstance(st, ast.Assign) and len(st.targets) == 1 and isinstance(st.targets[0], (ast.Tuple, ast.List)) and all(isinstance(x, ast.Name) for x in st.targets[0].elts):
                # a, b = x, y (all values taken before any name is bound); a, b = v binds v[0], v[1]
                v = subst(st.value, env)
                tn = [x.id for x in st.targets[0].elts]
                if isinstance(v, (ast.Tuple, ast.List)) and len(v.elts) == len(tn) and not any(isinstance(x, ast.Starred) for x in v.elts):
                    for nm, x in zip(tn, v.elts):
                        env[nm] = x
                else:
                    for i, nm in enumerate(tn):
                        env[nm] = ast.Subscript(value=copy.deepcopy(v), slice=ast.Constant(i), ctx=ast.Load())
            elif isinstance(st, ast.AugAssign) and isinstance(st.target, ast.Name):
                cur = env.get(st.target.id, ast.Name(id=st.target.id, ctx=ast.Load()))
                env[st.target.id] = ast.BinOp(left=cur, op=st.op, right=subst(st.value, env))
            elif isinstance(st, (ast.For, ast.While, ast.With, ast.Try)):
                for n in ast.walk(st):
                    if isinstance(n, ast.Name) and isinstance(n.ctx, ast.Store):
                        env.pop(n.id, None)
        return False

    if not block(stmts):
        raise AnalysisError(f"{fname}: statement at line {stop.lineno} is not a top-level statement")
    return env


def expect(src):
    return canon_text(ast.parse(src, mode="eval").body)

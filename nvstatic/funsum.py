"""Function summaries as decision tables.

``summarize(func)`` executes a (loop-free, or loop-summarised) function body symbolically: every path becomes a pair
(conditions, returned expression), both written over the function's *parameters* (locals are substituted away in
execution order, so ``value = round(value)`` followed by ``value < 0`` reads ``round(value) < 0``).  Calls to functions
listed in ``inline`` are replaced by the callee's own summary (as a conditional expression), so extracting or inlining a
helper does not change the summary.

``decide(paths, scenario)`` evaluates the table under a *scenario* (concrete values for some sub-expressions, e.g.
``{"round(value)": -1, "number_format.base": 8}``): it returns the canonical text of what the function returns there.
Atoms the scenario does not determine are enumerated both ways (``free_atoms``); rules compare the result in every
scenario with the rendering the property requires, so they depend on what is returned, not on how the branches are
spelled.
"""

from __future__ import annotations

import ast
import copy
import itertools
import operator

from .core import AnalysisError, U, call_name, try_const
from .symexec import _strip, bool_atoms, bool_eval, subst


class Path:
    __slots__ = ("conds", "ret", "kind", "node")

    def __init__(self, conds, ret, kind, node):
        self.conds, self.ret, self.kind, self.node = conds, ret, kind, node

    def __repr__(self):
        return f"<{[(U(c), o) for c, o in self.conds]} -> {self.kind} {U(self.ret) if self.ret is not None else None}>"


def _conj(conds):
    vals = [c if o else ast.UnaryOp(op=ast.Not(), operand=c) for c, o in conds]
    if not vals:
        return ast.Constant(True)
    return vals[0] if len(vals) == 1 else ast.BoolOp(op=ast.And(), values=vals)


def _as_expr(paths):
    """Conditional expression equivalent to a list of returning paths (the last path is the default)."""
    ps = [p for p in paths if p.kind == "return"]
    if len(ps) != len(paths) or not ps:
        return None
    e = ps[-1].ret
    for p in reversed(ps[:-1]):
        e = ast.IfExp(test=_conj(p.conds), body=p.ret, orelse=e)
    return e


class Summarizer:
    def __init__(self, inline=None, loop_hook=None, depth=3):
        self.inline = inline or {}
        self.loop_hook = loop_hook
        self.depth = depth
        self._memo = {}

    # ---------------------------------------------------------------- expression level
    def _inline_calls(self, e, depth):
        if depth <= 0 or not self.inline:
            return e
        me = self

        class T(ast.NodeTransformer):
            def visit_Call(self, call):
                self.generic_visit(call)
                if isinstance(call.func, ast.Name) and call.func.id in me.inline and not call.keywords:
                    h = me.inline[call.func.id]
                    params = [a.arg for a in h.args.args]
                    if len(call.args) == len(params) and not h.args.vararg and not h.args.kwarg:
                        paths = me.summarize(h, depth - 1)
                        ex = _as_expr(paths)
                        if ex is not None:
                            return subst(ex, dict(zip(params, call.args)))
                return call

        return T().visit(copy.deepcopy(e))

    def _sub(self, e, env, depth):
        return self._inline_calls(subst(e, env), depth)

    # ---------------------------------------------------------------- statement level
    def summarize(self, func, depth=None):
        depth = self.depth if depth is None else depth
        key = (id(func), depth)
        if key in self._memo:
            return self._memo[key]
        body = [s for s in func.body if not (isinstance(s, ast.Expr) and isinstance(s.value, ast.Constant))]
        done = []
        live = self._block(body, [({}, [])], done, depth, func)
        for env, conds in live:
            done.append(Path(conds, ast.Constant(None), "return", func))
        self._memo[key] = done
        return done

    def _block(self, stmts, states, done, depth, func):
        for st in stmts:
            nxt = []
            for env, conds in states:
                nxt.extend(self._stmt(st, env, conds, done, depth, func))
            states = nxt
            if len(states) + len(done) > 512:
                raise AnalysisError(f"{func.name}: too many paths")
            if not states:
                break
        return states

    def _stmt(self, st, env, conds, done, depth, func):
        if isinstance(st, ast.If):
            t = self._sub(st.test, env, depth)
            c = try_const(t, default=Ellipsis)
            out = []
            for outcome, blk in ((True, st.body), (False, st.orelse)):
                if c is not Ellipsis and isinstance(c, bool) and c != outcome:
                    continue
                out.extend(self._block(blk, [(dict(env), conds + [(t, outcome)])], done, depth, func))
            return out
        if isinstance(st, ast.Return):
            v = self._sub(st.value, env, depth) if st.value is not None else ast.Constant(None)
            done.append(Path(conds, v, "return", st))
            return []
        if isinstance(st, ast.Raise):
            done.append(Path(conds, self._sub(st.exc, env, depth) if st.exc is not None else None, "raise", st))
            return []
        if isinstance(st, ast.Assign) and len(st.targets) == 1:
            tg = st.targets[0]
            if isinstance(tg, ast.Name):
                env[tg.id] = self._sub(st.value, env, depth)
                return [(env, conds)]
            if isinstance(tg, ast.Tuple) and all(isinstance(x, ast.Name) for x in tg.elts):
                v = self._sub(st.value, env, depth)
                if isinstance(v, ast.Tuple) and len(v.elts) == len(tg.elts):
                    for x, y in zip(tg.elts, v.elts):
                        env[x.id] = y
                else:
                    for i, x in enumerate(tg.elts):
                        env[x.id] = ast.Subscript(value=v, slice=ast.Constant(i), ctx=ast.Load())
                return [(env, conds)]
        if isinstance(st, ast.AnnAssign) and isinstance(st.target, ast.Name):
            if st.value is not None:
                env[st.target.id] = self._sub(st.value, env, depth)
            return [(env, conds)]
        if isinstance(st, ast.AugAssign) and isinstance(st.target, ast.Name):
            cur = env.get(st.target.id, ast.Name(id=st.target.id, ctx=ast.Load()))
            env[st.target.id] = ast.BinOp(left=cur, op=st.op, right=self._sub(st.value, env, depth))
            return [(env, conds)]
        if isinstance(st, (ast.While, ast.For)):
            upd = self.loop_hook(st, env, lambda e: self._sub(e, env, depth)) if self.loop_hook else None
            if upd is None:
                for n in ast.walk(st):
                    if isinstance(n, ast.Name) and isinstance(n.ctx, ast.Store):
                        env[n.id] = ast.Name(id=f"__loop{st.lineno}_{n.id}__", ctx=ast.Load())
            else:
                env.update(upd)
            return [(env, conds)]
        if isinstance(st, ast.With):
            return self._block(st.body, [(env, conds)], done, depth, func)
        if isinstance(st, (ast.Pass, ast.Expr, ast.Assert, ast.Import, ast.ImportFrom)):
            if isinstance(st, ast.Expr) and isinstance(st.value, ast.Call) and isinstance(st.value.func, ast.Attribute) and isinstance(st.value.func.value, ast.Name):
                # a method call on a tracked local (``digits.reverse()``): the value is wrapped so the mutation stays visible
                nm, meth = st.value.func.value.id, st.value.func.attr
                if nm in env and meth in ("reverse", "append", "extend", "insert", "sort", "pop", "clear"):
                    env[nm] = ast.Call(func=ast.Name(id=f"__after_{meth}__", ctx=ast.Load()), args=[env[nm]] + [self._sub(a, env, depth) for a in st.value.args], keywords=[])
            return [(env, conds)]
        if isinstance(st, ast.Assign):
            return [(env, conds)]  # stores into attributes / subscripts do not change what is returned here
        raise AnalysisError(f"{func.name}: statement kind {type(st).__name__} at line {st.lineno} outside the summariser's language")


# -------------------------------------------------------------------- scenarios
_OPS = {ast.Add: operator.add, ast.Sub: operator.sub, ast.Mult: operator.mul, ast.FloorDiv: operator.floordiv, ast.Mod: operator.mod,
        ast.BitAnd: operator.and_, ast.BitOr: operator.or_, ast.LShift: operator.lshift, ast.RShift: operator.rshift, ast.Pow: operator.pow}
_CMP = {ast.Eq: operator.eq, ast.NotEq: operator.ne, ast.Lt: operator.lt, ast.LtE: operator.le, ast.Gt: operator.gt, ast.GtE: operator.ge,
        ast.In: lambda a, b: a in b, ast.NotIn: lambda a, b: a not in b}
_UNKNOWN = object()


def cval(node, sc):
    """Concrete value of an expression in a scenario (sub-expression text -> value), or _UNKNOWN."""
    t = U(node)
    if t in sc:
        return sc[t]
    if isinstance(node, ast.Constant):
        return node.value
    if isinstance(node, (ast.List, ast.Tuple, ast.Set)):
        vals = [cval(e, sc) for e in node.elts]
        return _UNKNOWN if any(v is _UNKNOWN for v in vals) else tuple(vals)
    if isinstance(node, ast.UnaryOp):
        v = cval(node.operand, sc)
        if v is _UNKNOWN:
            return v
        if isinstance(node.op, ast.Not):
            return not v
        if isinstance(node.op, ast.USub):
            return -v
        return _UNKNOWN
    if isinstance(node, ast.BinOp) and type(node.op) in _OPS:
        a, b = cval(node.left, sc), cval(node.right, sc)
        if a is _UNKNOWN or b is _UNKNOWN or isinstance(a, str) or isinstance(b, str):
            return _UNKNOWN
        try:
            return _OPS[type(node.op)](a, b)
        except Exception:
            return _UNKNOWN
    if isinstance(node, ast.Compare) and len(node.ops) == 1 and type(node.ops[0]) in _CMP:
        a, b = cval(node.left, sc), cval(node.comparators[0], sc)
        if a is _UNKNOWN or b is _UNKNOWN:
            return _UNKNOWN
        try:
            return _CMP[type(node.ops[0])](a, b)
        except Exception:
            return _UNKNOWN
    if isinstance(node, ast.Call) and call_name(node) in ("abs", "bool", "int") and len(node.args) == 1 and not node.keywords:
        v = cval(node.args[0], sc)
        if v is _UNKNOWN or isinstance(v, (str, tuple)):
            return _UNKNOWN
        return {"abs": abs, "bool": bool, "int": int}[call_name(node)](v)
    return _UNKNOWN


class Asg:
    """Atom truth for symexec.bool_eval: computed from the scenario, else taken from ``free``."""

    def __init__(self, sc, free=None):
        self.sc, self.free = sc, dict(free or {})

    def _val(self, k):
        if k in self.free:
            return self.free[k]
        try:
            node = ast.parse(k, mode="eval").body
        except SyntaxError:
            return None
        v = cval(node, self.sc)
        return None if v is _UNKNOWN else bool(v)

    def get(self, k, d=None):
        v = self._val(k)
        return d if v is None else v

    def __contains__(self, k):
        return self._val(k) is not None

    def __getitem__(self, k):
        v = self._val(k)
        if v is None:
            raise KeyError(k)
        return v


class _Simp(ast.NodeTransformer):
    def __init__(self, asg):
        self.asg = asg

    def visit_IfExp(self, node):
        r = bool_eval(node.test, self.asg)
        if r is True:
            return self.visit(node.body)
        if r is False:
            return self.visit(node.orelse)
        return self.generic_visit(node)


def _parts(e):
    """String concatenation flattened: list of ('s', text) / ('e', expression text)."""
    if isinstance(e, ast.Constant) and isinstance(e.value, str):
        return [("s", e.value)] if e.value else []
    if isinstance(e, ast.JoinedStr):
        out = []
        for v in e.values:
            if isinstance(v, ast.Constant):
                out += _parts(v)
            elif isinstance(v, ast.FormattedValue) and v.format_spec is None and v.conversion == -1:
                out += _parts(v.value) if _stringy(v.value) else [("e", canon_text(v.value))]
            else:
                out.append(("e", U(v)))
        return out
    if isinstance(e, ast.BinOp) and isinstance(e.op, ast.Add) and (_stringy(e.left) or _stringy(e.right)):
        return _parts(e.left) + _parts(e.right)
    return [("e", canon_text(e))]


# expressions known to be strings (beyond literals): calls by name, method calls by attribute, and exact texts
STRINGY_CALLS = {"str"}
STRINGY_METHODS = {"zfill", "rjust", "ljust", "upper", "lower", "join", "replace", "format"}
STRINGY_TEXTS = set()


def _stringy(e):
    if isinstance(e, ast.Constant):
        return isinstance(e.value, str)
    if isinstance(e, ast.JoinedStr):
        return True
    if isinstance(e, ast.BinOp) and isinstance(e.op, ast.Add):
        return _stringy(e.left) or _stringy(e.right)
    if isinstance(e, ast.Call):
        if isinstance(e.func, ast.Name) and e.func.id in STRINGY_CALLS:
            return True
        if isinstance(e.func, ast.Attribute) and e.func.attr in STRINGY_METHODS:
            return True
    return U(e) in STRINGY_TEXTS


def canon_text(e):
    """Canonical text of an expression: string concatenations in either spelling (``+`` / f-string) get one form."""
    if isinstance(e, (ast.JoinedStr, ast.BinOp)) and _stringy(e):
        ps = _parts(e)
        merged = []
        for k, t in ps:
            if merged and k == "s" and merged[-1][0] == "s":
                merged[-1] = ("s", merged[-1][1] + t)
            else:
                merged.append((k, t))
        if len(merged) == 1 and merged[0][0] == "e":
            return merged[0][1]
        return "cat(" + ", ".join(repr(t) if k == "s" else t for k, t in merged) + ")"
    if isinstance(e, ast.Call):
        return f"{canon_text(e.func)}(" + ", ".join([canon_text(a) for a in e.args] + [f"{kw.arg}={canon_text(kw.value)}" for kw in e.keywords]) + ")"
    if isinstance(e, ast.Attribute):
        return f"{canon_text(e.value)}.{e.attr}"
    return U(e)


def free_atoms(paths, sc):
    asg = Asg(sc)
    out = set()
    for p in paths:
        for c, _o in p.conds:
            out |= {a for a in bool_atoms(c) if asg._val(a) is None}
        if p.ret is not None:
            for n in ast.walk(p.ret):
                if isinstance(n, ast.IfExp):
                    out |= {a for a in bool_atoms(n.test) if asg._val(a) is None}
    return sorted(out)


def decide(paths, sc, rewrite=None, limit=4):
    """[(free assignment, kind, canonical text of the result)] of the table in one scenario."""
    free = free_atoms(paths, sc)
    # atoms that cannot matter in this scenario (their paths are excluded by known atoms) are still enumerated; cheap
    if len(free) > limit:
        raise AnalysisError(f"the result depends on too many other facts in scenario {sc}: {free}")
    out = []
    for vals in itertools.product([False, True], repeat=len(free)):
        fx = dict(zip(free, vals))
        asg = Asg(sc, fx)
        hit = []
        for p in paths:
            tv = [bool_eval(c, asg) for c, _o in p.conds]
            if any(v is None for v in tv):
                raise AnalysisError(f"condition not decidable in scenario {sc}: {[U(c) for c, _ in p.conds]}")
            if all(v == o for v, (_c, o) in zip(tv, p.conds)):
                hit.append(p)
        if len(hit) != 1:
            raise AnalysisError(f"{len(hit)} paths selected in scenario {sc} / {fx}")
        p = hit[0]
        r = _Simp(asg).visit(copy.deepcopy(_strip(p.ret))) if p.ret is not None else None
        if rewrite is not None and r is not None:
            r = rewrite(r)
        out.append((fx, p.kind, canon_text(r) if r is not None else None, p))
    return out


def expect(src):
    return canon_text(ast.parse(src, mode="eval").body)

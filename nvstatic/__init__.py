"""nvstatic: repository-specific static analysis of masaccio/numbers-parser.

Nothing in this package imports or runs ``numbers_parser``; every verdict is
computed from the source text of /repo (``ast``), literal tables, regex ASTs and
the serialized protobuf descriptors embedded in ``generated/*_pb2.py``.
"""

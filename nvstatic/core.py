"""E0: program index, obligations, evidence and known-findings plumbing."""

from __future__ import annotations

import ast
import hashlib
import json
import os
import re
import sys
import time
from dataclasses import dataclass, field

VERIF = os.path.dirname(os.path.dirname(os.path.abspath(__file__)))
SRC = "src/numbers_parser"


class AnalysisError(Exception):
    """The analysis could not run or conclude (exit 2): never a violation, never a pass."""


class AnchorMissing(AnalysisError):
    pass


# --------------------------------------------------------------------------- AST helpers


_SHARED = (ast.expr_context, ast.operator, ast.unaryop, ast.boolop, ast.cmpop)


def set_parents(tree: ast.AST) -> None:
    for node in ast.walk(tree):
        for child in ast.iter_child_nodes(node):
            # Load()/Add()/Eq()... are singletons shared by every tree the parser builds: a back-link on them would tie
            # all trees together (and drag a whole module into every deepcopy of a small expression)
            if not isinstance(child, _SHARED):
                child._parent = node  # type: ignore[attr-defined]


def parent(node):
    return getattr(node, "_parent", None)


def ancestors(node):
    p = parent(node)
    while p is not None:
        yield p
        p = parent(p)


def enclosing_function(node):
    for a in ancestors(node):
        if isinstance(a, (ast.FunctionDef, ast.AsyncFunctionDef, ast.Lambda)):
            return a
    return None


def U(node) -> str:
    """Normalised source text of a node."""
    if node is None:
        return "None"
    if isinstance(node, str):
        return node
    return ast.unparse(node)


def dotted(node) -> str | None:
    """``a.b.c`` for Name/Attribute chains, else None."""
    parts = []
    while isinstance(node, ast.Attribute):
        parts.append(node.attr)
        node = node.value
    if isinstance(node, ast.Name):
        parts.append(node.id)
        return ".".join(reversed(parts))
    return None


def call_name(call: ast.Call) -> str | None:
    return dotted(call.func)


def last_attr(node) -> str | None:
    if isinstance(node, ast.Attribute):
        return node.attr
    if isinstance(node, ast.Name):
        return node.id
    return None


def walk_no_nested(node, include_self=True):
    """Walk a function body without descending into nested defs/lambdas/classes."""
    stack = [node] if include_self else list(ast.iter_child_nodes(node))
    first = True
    while stack:
        n = stack.pop()
        yield n
        for c in ast.iter_child_nodes(n):
            if isinstance(c, (ast.FunctionDef, ast.AsyncFunctionDef, ast.ClassDef, ast.Lambda)):
                if not (first and n is node):
                    continue
                # nested definition directly under the root is also skipped
                continue
            stack.append(c)
        first = False


def body_walk(func):
    """All nodes in a function body, not descending into nested function definitions."""
    for stmt in func.body:
        stack = [stmt]
        while stack:
            n = stack.pop()
            yield n
            for c in ast.iter_child_nodes(n):
                if isinstance(c, (ast.FunctionDef, ast.AsyncFunctionDef, ast.ClassDef)):
                    continue
                stack.append(c)


def calls_in(node, name=None):
    out = []
    for n in ast.walk(node):
        if isinstance(n, ast.Call):
            if name is None or last_attr(n.func) == name or call_name(n) == name:
                out.append(n)
    return out


def names_in(node) -> set:
    return {n.id for n in ast.walk(node) if isinstance(n, ast.Name)}


def const_value(node, env=None):
    """Fold a constant expression (ints, strs, tuples, simple arithmetic, names in env)."""
    env = env or {}
    if isinstance(node, ast.Constant):
        return node.value
    if isinstance(node, ast.Name) and node.id in env:
        return env[node.id]
    if isinstance(node, ast.Attribute):
        d = dotted(node)
        if d in env:
            return env[d]
        if node.attr in env and isinstance(node.value, ast.Name):
            # module-qualified constant, e.g. constants.MAX_TILE_SIZE
            return env[node.attr]
    if isinstance(node, ast.UnaryOp) and isinstance(node.op, ast.USub):
        v = const_value(node.operand, env)
        return -v
    if isinstance(node, ast.UnaryOp) and isinstance(node.op, ast.Not):
        return not const_value(node.operand, env)
    if isinstance(node, ast.BinOp):
        a = const_value(node.left, env)
        b = const_value(node.right, env)
        op = node.op
        if isinstance(op, ast.Add):
            return a + b
        if isinstance(op, ast.Sub):
            return a - b
        if isinstance(op, ast.Mult):
            return a * b
        if isinstance(op, ast.FloorDiv):
            return a // b
        if isinstance(op, ast.LShift):
            return a << b
        if isinstance(op, ast.RShift):
            return a >> b
        if isinstance(op, ast.BitOr):
            return a | b
        if isinstance(op, ast.BitAnd):
            return a & b
        if isinstance(op, ast.Pow):
            return a**b
        if isinstance(op, ast.Mod):
            return a % b
        if isinstance(op, ast.Div):
            return a / b
    if isinstance(node, (ast.Tuple, ast.List)):
        vals = [const_value(e, env) for e in node.elts]
        return tuple(vals) if isinstance(node, ast.Tuple) else vals
    if isinstance(node, ast.Subscript):
        # b"\x00"[0], "abc"[1:], (1, 2)[0]: an element or a slice of a folded sequence
        base = const_value(node.value, env)
        if isinstance(base, (bytes, str, tuple, list)):
            if isinstance(node.slice, ast.Slice):
                lo = const_value(node.slice.lower, env) if node.slice.lower is not None else None
                hi = const_value(node.slice.upper, env) if node.slice.upper is not None else None
                st = const_value(node.slice.step, env) if node.slice.step is not None else None
                return base[lo:hi:st]
            i = const_value(node.slice, env)
            if isinstance(i, int) and not isinstance(i, bool):
                return base[i]
        raise ValueError("subscript of a non-constant")
    if isinstance(node, ast.JoinedStr):
        # f"...{NAME}..." over folded text or integers, without conversion or format specification
        out = ""
        for v in node.values:
            if isinstance(v, ast.Constant):
                out += v.value
            elif isinstance(v, ast.FormattedValue) and v.conversion == -1 and v.format_spec is None:
                x = const_value(v.value, env)
                if not isinstance(x, (str, int)) or isinstance(x, bool):
                    raise ValueError("not a text constant")
                out += str(x)
            else:
                raise ValueError("formatted value")
        return out
    if isinstance(node, ast.Call) and call_name(node) == "ord" and len(node.args) == 1:
        return ord(const_value(node.args[0], env))
    if isinstance(node, ast.Call) and call_name(node) == "len" and len(node.args) == 1:
        return len(const_value(node.args[0], env))
    raise ValueError(f"not a constant: {U(node)}")


def try_const(node, env=None, default=None):
    try:
        return const_value(node, env)
    except Exception:  # noqa: BLE001
        return default


# --------------------------------------------------------------------------- Repo index


class Repo:
    """Parsed view of /repo's current working tree (optionally with an in-memory overlay)."""

    def __init__(self, root: str = "/repo", overlay: dict | None = None):
        self.root = root
        self.overlay = overlay or {}
        self._src: dict[str, str] = {}
        self._tree: dict[str, ast.Module] = {}
        self._consts = None
        self._enum = None
        self.consulted: set[str] = set()
        self.normalise = True
        self.normalised: dict = {}

    # -- files
    def path(self, rel: str) -> str:
        if "/" not in rel:
            rel = f"{SRC}/{rel}"
        return rel

    def exists(self, rel: str) -> bool:
        rel = self.path(rel)
        return rel in self.overlay or os.path.exists(os.path.join(self.root, rel))

    def source(self, rel: str) -> str:
        rel = self.path(rel)
        if rel not in self._src:
            if rel in self.overlay:
                self._src[rel] = self.overlay[rel]
            else:
                p = os.path.join(self.root, rel)
                if not os.path.exists(p):
                    raise AnchorMissing(f"file {rel} not found under {self.root}")
                with open(p, encoding="utf-8") as fh:
                    self._src[rel] = fh.read()
            self.consulted.add(rel)
        return self._src[rel]

    def raw_tree(self, rel: str) -> ast.Module:
        """The module AST exactly as written."""
        rel = self.path(rel)
        key = "raw:" + rel
        if key not in self._tree:
            try:
                t = ast.parse(self.source(rel), filename=rel)
            except SyntaxError as e:
                raise AnalysisError(f"{rel} does not parse: {e}") from e
            set_parents(t)
            for n in ast.walk(t):
                n._file = rel  # type: ignore[attr-defined]
            self._tree[key] = t
        return self._tree[key]

    def tree(self, rel: str) -> ast.Module:
        """The module AST after normalisation (vocabulary introduced after the confirmed tree is inlined away;
        see normalize.py).  On the confirmed tree this is the tree as written."""
        rel = self.path(rel)
        if rel not in self._tree:
            raw = self.raw_tree(rel)
            if not rel.startswith(SRC + "/") or rel.count("/") != 2 or not self.normalise:
                self._tree[rel] = raw
                return raw
            from . import normalize

            base_env = {}
            imported_new = {}
            if not rel.endswith("/constants.py"):
                try:
                    base_env = dict(self.consts)
                    imported_new = normalize.new_module_constants(self.raw_tree("constants.py"), "constants.py", {})
                except AnalysisError:
                    pass
            # new methods of the model class, callable from the other modules through ``<x>._model.<name>(...)``
            foreign = {}
            if not rel.endswith("/model.py"):
                try:
                    foreign = normalize.new_methods(self.raw_tree("model.py"), "model.py", "_NumbersModel")
                except Exception:  # noqa: BLE001
                    foreign = {}
            # signatures of the model's methods (all of them): a call ``<x>._model.f(a=.., b=..)`` is read with its arguments in place
            try:
                # module-level functions of the package by name (unique names only): a call by keyword to one that is imported
                # is read with its arguments in place
                normalize.PACKAGE_FUNCTIONS.clear()
                seen_ = {}
                for m_rel in self.modules():
                    try:
                        for f_ in self.raw_tree(m_rel).body:
                            if isinstance(f_, ast.FunctionDef):
                                seen_.setdefault(f_.name, []).append(f_)
                    except Exception:  # noqa: BLE001
                        continue
                for nm_, fs_ in seen_.items():
                    if len(fs_) == 1:
                        normalize.PACKAGE_FUNCTIONS[nm_] = fs_[0]
            except Exception:  # noqa: BLE001
                pass
            # new methods of the sheet/table collection class, callable from document.py through ``<x>._sheets.<name>(...)`` /
            # ``<x>._tables.<name>(...)``
            normalize.ITEMSLIST_METHODS.clear()
            if rel.endswith("/document.py"):
                try:
                    normalize.ITEMSLIST_METHODS.update(normalize.new_methods(self.raw_tree("containers.py"), "containers.py", "ItemsList"))
                except Exception:  # noqa: BLE001
                    pass
            try:
                normalize.MODEL_SIGNATURES.clear()
                for c_ in self.raw_tree("model.py").body:
                    if isinstance(c_, ast.ClassDef) and c_.name == "_NumbersModel":
                        for m_ in c_.body:
                            if isinstance(m_, ast.FunctionDef):
                                normalize.MODEL_SIGNATURES[m_.name] = m_
            except Exception:  # noqa: BLE001
                pass
            try:
                t, report = normalize.normalize_module(rel, self.source(rel), base_env, imported_new, foreign)
            except RecursionError as e:  # pragma: no cover
                raise AnalysisError(f"normaliser failed on {rel}: {e}") from e
            set_parents(t)
            for n in ast.walk(t):
                n._file = rel  # type: ignore[attr-defined]
            self._tree[rel] = t
            if any(report.values()):
                self.normalised[rel] = {k: sorted(set(v)) for k, v in report.items() if v}
        return self._tree[rel]

    def modules(self) -> list[str]:
        d = os.path.join(self.root, SRC)
        names = set(f for f in os.listdir(d) if f.endswith(".py"))
        for rel in self.overlay:
            if rel.startswith(SRC + "/") and rel.count("/") == 2:
                names.add(rel.split("/")[-1])
        return sorted(names)

    def loc(self, node) -> str:
        f = getattr(node, "_file", "?")
        return f"{f}:{getattr(node, '_orig_lineno', None) or getattr(node, 'lineno', 0)}"

    # -- definitions
    def cls(self, rel: str, name: str) -> ast.ClassDef:
        for n in self.tree(rel).body:
            if isinstance(n, ast.ClassDef) and n.name == name:
                return n
        raise AnchorMissing(f"class {name} not found in {rel}")

    def has_func(self, rel: str, qual: str) -> bool:
        try:
            self.func(rel, qual)
            return True
        except AnchorMissing:
            return False

    def func(self, rel: str, qual: str) -> ast.FunctionDef:
        """``Class.method``, ``function``, ``outer.inner``; suffix ``@setter``/``@getter`` for properties."""
        want = None
        if "@" in qual:
            qual, want = qual.split("@")
        parts = qual.split(".")
        scope = self.tree(rel).body
        node = None
        for i, part in enumerate(parts):
            cands = [
                n
                for n in scope
                if isinstance(n, (ast.FunctionDef, ast.ClassDef)) and n.name == part
            ]
            if not cands:
                # nested function anywhere below
                if node is not None:
                    cands = [
                        n
                        for n in ast.walk(node)
                        if isinstance(n, ast.FunctionDef) and n.name == part and n is not node
                    ]
                if not cands:
                    raise AnchorMissing(f"{qual} not found in {rel}")
            if i == len(parts) - 1 and len(cands) > 1:
                sel = []
                for c in cands:
                    decos = [U(d) for d in getattr(c, "decorator_list", [])]
                    is_setter = any(d.endswith(".setter") for d in decos)
                    if want == "setter" and is_setter:
                        sel.append(c)
                    elif want != "setter" and not is_setter:
                        sel.append(c)
                cands = sel or cands
            node = cands[0]
            scope = node.body
        if not isinstance(node, ast.FunctionDef):
            raise AnchorMissing(f"{qual} in {rel} is not a function")
        return node

    def methods(self, rel: str, cls: str) -> dict[str, list[ast.FunctionDef]]:
        out: dict[str, list] = {}
        for n in self.cls(rel, cls).body:
            if isinstance(n, ast.FunctionDef):
                out.setdefault(n.name, []).append(n)
        return out

    def qualname(self, func) -> str:
        parts = [func.name] if hasattr(func, "name") else ["<lambda>"]
        for a in ancestors(func):
            if isinstance(a, (ast.FunctionDef, ast.ClassDef)):
                parts.append(a.name)
        f = getattr(func, "_file", "?").split("/")[-1]
        return f + ":" + ".".join(reversed(parts))

    def module_assign(self, rel: str, name: str):
        """The value node assigned to a module-level (or class-level ``Cls.NAME``) name."""
        scope = self.tree(rel).body
        parts = name.split(".")
        for p in parts[:-1]:
            scope = self.cls(rel, p).body
        for n in scope:
            if isinstance(n, ast.Assign):
                for t in n.targets:
                    if isinstance(t, ast.Name) and t.id == parts[-1]:
                        return n.value
            if isinstance(n, ast.AnnAssign) and isinstance(n.target, ast.Name):
                if n.target.id == parts[-1] and n.value is not None:
                    return n.value
        raise AnchorMissing(f"assignment to {name} not found in {rel}")

    # -- constants
    @property
    def consts(self) -> dict:
        """Foldable module constants of constants.py (ints, strings, tuples) and its IntEnum members."""
        if self._consts is None:
            env: dict = {}
            t = self.raw_tree("constants.py")
            for n in t.body:
                if isinstance(n, ast.Assign) and len(n.targets) == 1:
                    tg = n.targets[0]
                    if isinstance(tg, ast.Name):
                        v = try_const(n.value, env, default=_NOCONST)
                        if v is not _NOCONST:
                            env[tg.id] = v
                if isinstance(n, ast.ClassDef) and any(
                    last_attr(b) == "IntEnum" for b in n.bases
                ):
                    for m in n.body:
                        if isinstance(m, ast.Assign) and isinstance(m.targets[0], ast.Name):
                            v = try_const(m.value, env, default=_NOCONST)
                            if v is not _NOCONST:
                                env[f"{n.name}.{m.targets[0].id}"] = v
            self._consts = env
        return self._consts

    def enum_members(self, rel: str, cls: str) -> dict:
        out = {}
        env = dict(self.consts)
        for m in self.cls(rel, cls).body:
            if isinstance(m, ast.Assign) and isinstance(m.targets[0], ast.Name):
                v = try_const(m.value, env, default=_NOCONST)
                if v is not _NOCONST:
                    out[m.targets[0].id] = v
        return out

    def digest(self) -> str:
        h = hashlib.sha256()
        for rel in sorted(self.consulted):
            h.update(rel.encode())
            h.update(self._src.get(rel, "").encode())
        return h.hexdigest()[:16]


_NOCONST = object()


# --------------------------------------------------------------------------- obligations


@dataclass
class Ob:
    rule: str
    where: str
    func: str
    construct: str
    ok: bool
    detail: str = ""
    key: str = ""
    info: bool = False  # informational line, no verdict

    def as_dict(self):
        d = {
            "rule": self.rule,
            "at": self.where,
            "function": self.func,
            "construct": self.construct[:300],
            "ok": self.ok,
        }
        if self.detail:
            d["detail"] = self.detail[:600]
        if not self.ok:
            d["key"] = self.key
        return d


@dataclass
class Report:
    prop: str
    tier: str = "quick"
    repo: Repo | None = None
    obs: list = field(default_factory=list)
    infos: list = field(default_factory=list)
    funcs: set = field(default_factory=set)
    explanation: str = ""
    trusted: list = field(default_factory=list)
    assumptions: list = field(default_factory=list)
    floors: dict = field(default_factory=dict)
    extra: dict = field(default_factory=dict)
    t0: float = field(default_factory=time.time)
    deferred: list = field(default_factory=list)
    notes: list = field(default_factory=list)

    def sub(self, fn, *args, **kw):
        """Run one group of obligations; a shape it cannot read is remembered instead of aborting the run, so that
        violations found by the other groups are still reported (a run with no violation and a deferred error is exit 2)."""
        try:
            return fn(*args, **kw)
        except AnalysisError as e:
            self.deferred.append(str(e))
            return None

    def analysed(self, *names):
        for n in names:
            self.funcs.add(n)

    def ob(self, rule, node_or_where, construct, ok, detail="", key=None, func=None):
        repo = self.repo
        if isinstance(node_or_where, str):
            where = node_or_where
            fq = func or ""
        else:
            where = repo.loc(node_or_where) if repo else "?"
            if func is None:
                f = node_or_where
                if not isinstance(f, ast.FunctionDef):
                    f = None
                    for a in ancestors(node_or_where):
                        if isinstance(a, ast.FunctionDef):
                            f = a
                            break
                fq = repo.qualname(f) if (f is not None and repo) else ""
            else:
                fq = func
        construct = U(construct) if not isinstance(construct, str) else construct
        construct = re.sub(r"\s+", " ", construct)
        if key is None:
            key = f"{rule}@{fq}:{construct}"
        o = Ob(rule, where, fq, construct, bool(ok), detail, key)
        self.obs.append(o)
        if fq:
            self.funcs.add(fq)
        return o

    def info(self, rule, text):
        self.infos.append({"rule": rule, "note": text})

    def floor(self, rule: str, minimum: int):
        self.floors[rule] = minimum

    def count(self, rule_prefix: str) -> int:
        return sum(1 for o in self.obs if o.rule.startswith(rule_prefix))

    def violations(self):
        return [o for o in self.obs if not o.ok]


def load_known(path=None) -> dict:
    path = path or os.path.join(VERIF, "known_findings.json")
    if not os.path.exists(path):
        return {"open": [], "fixed": []}
    with open(path, encoding="utf-8") as fh:
        return json.load(fh)


def finish(rep: Report, seed: int = 0, write: bool = True, quiet: bool = False) -> int:
    """Apply floors and known findings, write evidence and replay files, print verdict lines."""
    out = []
    known = load_known()
    open_keys = {e["key"]: e for e in known.get("open", []) if e.get("property") == rep.prop}
    # floors: a rule matching fewer sites than confirmed by hand is an analysis failure
    viol = rep.violations()
    floor_fail = [
        f"rule {rule} matched {rep.count(rule)} instance(s), below the confirmed floor {minimum}"
        for rule, minimum in rep.floors.items()
        if rep.count(rule) < minimum
    ]
    if floor_fail and not any(o.key not in open_keys for o in viol):
        # fewer instances than confirmed by hand and nothing else to report: the rule may be
        # passing vacuously, which is an analysis failure, not a verdict
        raise AnalysisError(f"{rep.prop}: " + "; ".join(floor_fail))
    unlisted = []
    listed = []
    for o in viol:
        if o.key in open_keys:
            listed.append(o)
        else:
            unlisted.append(o)
    if rep.deferred and not unlisted:
        raise AnalysisError(f"{rep.prop}: " + "; ".join(rep.deferred))
    for d in rep.deferred:
        out.append(f"NOTE: part of the analysis could not be completed: {d}")
    out.extend(rep.notes)
    seen = set()
    for o in listed:
        if o.key in seen:
            continue
        seen.add(o.key)
        out.append(f"KNOWN-FINDING: property={rep.prop} {open_keys[o.key]['what']} [{o.key}] at {o.where}")
    stale = [k for k in open_keys if k not in {o.key for o in listed}]
    for k in stale:
        out.append(f"NOTE: known finding no longer observed: {k}")
    replay_paths = []
    if unlisted:
        rdir = os.path.join(VERIF, "replay", rep.prop)
        if write:
            os.makedirs(rdir, exist_ok=True)
        seenk = set()
        for o in unlisted:
            if o.key in seenk:
                continue
            seenk.add(o.key)
            h = hashlib.sha1(o.key.encode()).hexdigest()[:10]
            p = os.path.join(rdir, f"{o.rule}-{h}.json")
            if write:
                with open(p, "w", encoding="utf-8") as fh:
                    json.dump(
                        {"property": rep.prop, "tier": rep.tier, **o.as_dict(),
                         "repo_root": rep.repo.root if rep.repo else None},
                        fh, indent=1,
                    )
            replay_paths.append(p)
            out.append(f"{o.where}: {o.rule} {o.func}: {o.construct[:160]} -- {o.detail[:300]}")
            out.append(f"VIOLATION property={rep.prop} replay={p}")
    n_ob = len(rep.obs)
    n_ok = sum(1 for o in rep.obs if o.ok)
    distinct = len({(o.rule, o.func, o.construct) for o in rep.obs})
    samples = [o.as_dict() for o in unlisted[:10]]
    # one sample per rule so a reader sees what each obligation looks like
    per_rule = {}
    for o in rep.obs:
        per_rule.setdefault(o.rule, o)
    samples += [o.as_dict() for o in per_rule.values()]
    rule_counts = {}
    for o in rep.obs:
        rule_counts[o.rule] = rule_counts.get(o.rule, 0) + 1
    ev = {
        "property_id": rep.prop,
        "tier": rep.tier,
        "seed": int(seed),
        "level": "other",
        "wall_s": round(time.time() - rep.t0, 3),
        "violations": len({o.key for o in unlisted}),
        "coverage": {
            "explanation": rep.explanation or f"static rules of {rep.prop}",
            "obligations": n_ob,
            "discharged": n_ok,
            "evaluations": n_ob,
            "distinct_nontrivial": distinct,
            "rule": "one obligation per (rule, function, construct) instance extracted from the current source; "
                    "distinct = distinct (rule, function, normalised construct) triples",
            "rule_instance_counts": rule_counts,
            "floors": rep.floors,
            "samples": samples[:40],
            "functions_analysed": sorted(rep.funcs),
            "informational": rep.infos[:60],
            "known_findings_reported": sorted({o.key for o in listed}),
            "trusted_base": rep.trusted or ["python ast"],
            "source_digest": rep.repo.digest() if rep.repo else "",
            "files_consulted": sorted(rep.repo.consulted) if rep.repo else [],
            "normalised_away": rep.repo.normalised if rep.repo else {},
            **rep.extra,
        },
        "assumptions": rep.assumptions
        or ["extraction is faithful for the accepted shapes; unknown shapes exit 2 (ANALYSIS-ERROR)"],
    }
    if write:
        os.makedirs(os.path.join(VERIF, "evidence"), exist_ok=True)
        with open(os.path.join(VERIF, "evidence", f"{rep.prop}.json"), "w", encoding="utf-8") as fh:
            json.dump(ev, fh, indent=1, ensure_ascii=False)
    if not quiet:
        for line in out:
            print(line)
        print(
            f"{rep.prop} [{rep.tier}]: {n_ob} obligations, {n_ok} discharged, "
            f"{len(listed)} known finding(s), {len({o.key for o in unlisted})} violation(s); "
            f"rules: {', '.join(f'{k}={v}' for k, v in sorted(rule_counts.items()))}"
        )
    rep.extra["_out"] = out
    return 1 if unlisted else 0


def die_analysis(prop: str, msg: str) -> int:
    print(f"ANALYSIS-ERROR property={prop}: {msg}")
    return 2


def eprint(*a):
    print(*a, file=sys.stderr)

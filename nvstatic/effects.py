"""E6: write-effect summaries.

``self_writes``: per method of a class, the ``self.attr`` roots it may assign or mutate,
transitively through ``self.method(...)`` calls inside the class.
"""

from __future__ import annotations

import ast

from .core import Repo, U, body_walk, dotted, last_attr

MUTATORS = {"append", "pop", "extend", "insert", "remove", "clear", "sort", "update", "setdefault", "add", "discard", "popitem"}


def _root_self_attr(node):
    """``self.a`` for targets like self.a, self.a.b, self.a[i], self.a[i][j].x"""
    n = node
    while isinstance(n, (ast.Subscript, ast.Attribute)):
        if isinstance(n, ast.Attribute) and isinstance(n.value, ast.Name) and n.value.id == "self":
            return f"self.{n.attr}"
        n = n.value
    return None


def _pruned_walk(func, none_params):
    """Walk a function body, skipping branches that are dead when the parameters in
    ``none_params`` are None (call-site specialisation for omitted ``= None`` defaults)."""
    stack = list(reversed(func.body))
    while stack:
        n = stack.pop()
        if isinstance(n, ast.If) and none_params:
            t = n.test
            dead_body = dead_else = False
            conds = [t]
            if isinstance(t, ast.BoolOp) and isinstance(t.op, ast.And):
                conds = t.values
            for c in conds:
                if isinstance(c, ast.Compare) and len(c.ops) == 1 and isinstance(c.left, ast.Name) and c.left.id in none_params \
                        and isinstance(c.comparators[0], ast.Constant) and c.comparators[0].value is None:
                    if isinstance(c.ops[0], ast.IsNot):
                        dead_body = True
                    elif isinstance(c.ops[0], ast.Is) and len(conds) == 1:
                        dead_else = True
            if dead_body or dead_else:
                yield from ast.walk(n.test)
                for st in reversed(n.orelse if dead_body else n.body):
                    stack.append(st)
                continue
        yield n
        for c in reversed(list(ast.iter_child_nodes(n))):
            if isinstance(c, (ast.FunctionDef, ast.AsyncFunctionDef, ast.ClassDef)):
                continue
            stack.append(c)


def omitted_none_params(func, call) -> frozenset:
    """Parameters of ``func`` with default None that ``call`` does not pass (or passes None)."""
    pos = func.args.args
    names = [a.arg for a in pos]
    if names and names[0] in ("self", "cls"):
        names = names[1:]
        pos = pos[1:]
    defaults = {}
    for a, d in zip(pos[len(pos) - len(func.args.defaults):], func.args.defaults):
        defaults[a.arg] = d
    for a, d in zip(func.args.kwonlyargs, func.args.kw_defaults):
        if d is not None:
            defaults[a.arg] = d
    if any(isinstance(a, ast.Starred) for a in call.args) or any(k.arg is None for k in call.keywords):
        return frozenset()
    passed = {}
    for i, a in enumerate(call.args):
        if i < len(names):
            passed[names[i]] = a
    for k in call.keywords:
        passed[k.arg] = k.value
    out = set()
    for p, d in defaults.items():
        if isinstance(d, ast.Constant) and d.value is None:
            if p not in passed or (isinstance(passed[p], ast.Constant) and passed[p].value is None):
                out.add(p)
    return frozenset(out)


def direct_self_writes(func, none_params=frozenset()) -> set:
    out = set()
    for n in _pruned_walk(func, none_params):
        targets = []
        if isinstance(n, ast.Assign):
            targets = n.targets
        elif isinstance(n, (ast.AugAssign, ast.AnnAssign)):
            targets = [n.target]
        elif isinstance(n, ast.Delete):
            targets = n.targets
        elif isinstance(n, ast.Call) and isinstance(n.func, ast.Attribute) and n.func.attr in MUTATORS:
            r = _root_self_attr(n.func.value)
            if r:
                out.add(r)
        for t in targets:
            for tt in ast.walk(t) if isinstance(t, (ast.Tuple, ast.List)) else [t]:
                r = _root_self_attr(tt)
                if r:
                    out.add(r)
    return out


_SW_CACHE: dict = {}


def self_writes(repo: Repo, rel: str, cls: str) -> dict:
    key = (id(repo), rel, cls)
    if key in _SW_CACHE:
        return _SW_CACHE[key]
    methods = repo.methods(rel, cls)
    direct = {}
    calls = {}
    for name, defs in methods.items():
        d = set()
        c = set()
        for f in defs:
            d |= direct_self_writes(f)
            for n in body_walk(f):
                if isinstance(n, ast.Call) and isinstance(n.func, ast.Attribute) and isinstance(n.func.value, ast.Name) and n.func.value.id == "self":
                    if n.func.attr in methods:
                        c.add(n.func.attr)
        direct[name] = d
        calls[name] = c
    total = {k: set(v) for k, v in direct.items()}
    changed = True
    while changed:
        changed = False
        for name in total:
            for c in calls[name]:
                new = total[c] - total[name]
                if new:
                    total[name] |= new
                    changed = True
    _SW_CACHE[key] = total
    return total


def method_writes(repo: Repo, rel: str, cls: str, name: str, none_params=frozenset(), _stack=None) -> set:
    """self.attr roots written by ``cls.name`` when the parameters in ``none_params`` are None."""
    key = (id(repo), rel, cls, name, none_params)
    if key in _SW_CACHE:
        return _SW_CACHE[key]
    _stack = _stack or set()
    if (name, none_params) in _stack:
        return set()
    _stack = _stack | {(name, none_params)}
    methods = repo.methods(rel, cls)
    out = set()
    for f in methods.get(name, []):
        out |= direct_self_writes(f, none_params)
        for n in _pruned_walk(f, none_params):
            if isinstance(n, ast.Call) and isinstance(n.func, ast.Attribute) and isinstance(n.func.value, ast.Name) and n.func.value.id == "self":
                callee = n.func.attr
                if callee in methods:
                    sub = omitted_none_params(methods[callee][0], n)
                    out |= method_writes(repo, rel, cls, callee, sub, _stack)
    if len(_stack) == 1:
        _SW_CACHE[key] = out
    return out


def call_writes_for(repo: Repo, rel: str, cls: str):
    """A ``call_writes`` callback for GuardAnalysis inside methods of ``cls``: the self attributes a
    ``self.method(...)`` call may write, specialised to the arguments the call omits."""
    methods = repo.methods(rel, cls)

    def cw(call: ast.Call):
        f = call.func
        if isinstance(f, ast.Attribute) and isinstance(f.value, ast.Name) and f.value.id == "self":
            if f.attr in methods:
                sub = omitted_none_params(methods[f.attr][0], call)
                return method_writes(repo, rel, cls, f.attr, sub)
            return set()
        return set()

    return cw


# --------------------------------------------------------------------------- PROTO / ALLOC effects (E6)

PROTO_MUTATORS = {"append", "pop", "extend", "insert", "remove", "clear", "sort", "MergeFrom", "CopyFrom", "ClearField", "Clear", "add", "SetInParent"}
ALLOC_CALLS = {"new_message_id", "create_object_from_dict", "lookup_key", "add_component_metadata", "add_component_reference", "create_iwa_segment"}

# receiver-type table: (class, attribute or parameter name) -> (module, class).  One line each, confirmed by reading
# the constructor that assigns it.
RECEIVERS = {
    "_model": ("model.py", "_NumbersModel"),  # Cell._model / Table._model / Sheet._model / Document._model = _NumbersModel
    "model": ("model.py", "_NumbersModel"),  # parameter convention in cell.py/xrefs.py/formula.py
    "objects": ("containers.py", "ObjectStore"),  # _NumbersModel.objects = ObjectStore(filepath)
    "_table_strings": ("model.py", "DataLists"),  # _NumbersModel.__init__
    "_table_formats": ("model.py", "DataLists"),
    "_table_styles": ("model.py", "DataLists"),
    "_control_specs": ("model.py", "DataLists"),
    "_formulas": ("model.py", "DataLists"),
    "name_ref_cache": ("xrefs.py", "ScopedNameRefCache"),  # _NumbersModel.__init__
    "_iwork": ("iwork.py", "IWork"),  # ObjectStore.__init__
    "_handler": ("containers.py", "ObjectStore"),  # IWork(handler=self) in ObjectStore.__init__
    "_sheets": ("containers.py", "ItemsList"),
    "_tables": ("containers.py", "ItemsList"),
    "sheets": ("containers.py", "ItemsList"),
    "tables": ("containers.py", "ItemsList"),
}
CLASS_HOME = {
    "_NumbersModel": "model.py", "DataLists": "model.py", "MergeCells": "model.py", "ObjectStore": "containers.py", "ItemsList": "containers.py",
    "IWork": "iwork.py", "Cell": "cell.py", "Table": "document.py", "Sheet": "document.py", "Document": "document.py", "Style": "cell.py",
    "TableFormulas": "formula.py", "Formula": "formula.py", "CellRange": "xrefs.py", "ScopedNameRefCache": "xrefs.py", "Cacheable": "numbers_cache.py",
    "IWAFile": "iwafile.py", "IWACompressedChunk": "iwafile.py", "IWAArchiveSegment": "iwafile.py",
    "Tokenizer": "tokenizer.py", "Token": "tokenizer.py", "Converter": "_csv2numbers.py", "Transformer": "_csv2numbers.py",
    "MergeTransformer": "_csv2numbers.py", "NegTransformer": "_csv2numbers.py", "PosTransformer": "_csv2numbers.py", "LookupTransformer": "_csv2numbers.py",
}
CELL_SUBCLASSES = {"NumberCell", "TextCell", "RichTextCell", "BulletedTextCell", "EmptyCell", "BoolCell", "DateCell", "DurationCell", "ErrorCell", "MergedCell"}


def _terminates(block) -> bool:
    if not block:
        return False
    last = block[-1]
    if isinstance(last, (ast.Return, ast.Raise)):
        return True
    if isinstance(last, ast.If) and last.orelse:
        return _terminates(last.body) and _terminates(last.orelse)
    return False


def _none_test(test, none_params):
    """'is' / 'isnot' if the test is ``p is None`` / ``p is not None`` for p in none_params (alone or first of an ``and``)."""
    conds = [test]
    if isinstance(test, ast.BoolOp) and isinstance(test.op, ast.And):
        conds = test.values
    for c in conds:
        if isinstance(c, ast.Compare) and len(c.ops) == 1 and isinstance(c.left, ast.Name) and c.left.id in none_params \
                and isinstance(c.comparators[0], ast.Constant) and c.comparators[0].value is None:
            if isinstance(c.ops[0], ast.IsNot):
                return "isnot"
            if isinstance(c.ops[0], ast.Is) and len(conds) == 1:
                return "is"
    return None


def _atom_ok(e):
    return not any(isinstance(n, (ast.Call, ast.Await, ast.Yield, ast.NamedExpr, ast.Lambda)) for n in ast.walk(e))


def _eval3(test, facts, none_params):
    """True / False / None (unknown) for a branch test when ``none_params`` are None and ``facts`` hold."""
    if isinstance(test, ast.Compare) and len(test.ops) == 1 and isinstance(test.left, ast.Name) and test.left.id in none_params \
            and isinstance(test.comparators[0], ast.Constant) and test.comparators[0].value is None:
        if isinstance(test.ops[0], ast.Is):
            return True
        if isinstance(test.ops[0], ast.IsNot):
            return False
    if isinstance(test, ast.UnaryOp) and isinstance(test.op, ast.Not):
        v = _eval3(test.operand, facts, none_params)
        return None if v is None else (not v)
    if isinstance(test, ast.BoolOp):
        vals = [_eval3(v, facts, none_params) for v in test.values]
        if isinstance(test.op, ast.And):
            return False if any(v is False for v in vals) else (True if all(v is True for v in vals) else None)
        return True if any(v is True for v in vals) else (False if all(v is False for v in vals) else None)
    return facts.get(ast.unparse(test))


def _learn(test, value, facts, none_params):
    """Record that ``test`` evaluated to ``value``."""
    if isinstance(test, ast.UnaryOp) and isinstance(test.op, ast.Not):
        _learn(test.operand, not value, facts, none_params)
        return
    if isinstance(test, ast.BoolOp):
        conj = isinstance(test.op, ast.And)
        if value == conj:
            # every operand of a true `and` is true; every operand of a false `or` is false
            for v in test.values:
                _learn(v, value, facts, none_params)
        else:
            # a false `and` (true `or`) whose other operands are known true (false) pins the remaining one
            rest = [v for v in test.values if _eval3(v, facts, none_params) is not conj]
            if len(rest) == 1:
                _learn(rest[0], value, facts, none_params)
        return
    if _atom_ok(test) and _eval3(test, facts, none_params) is None:
        facts[ast.unparse(test)] = value


def _kill(stmt, facts):
    stored = {n.id for n in ast.walk(stmt) if isinstance(n, ast.Name) and isinstance(n.ctx, (ast.Store, ast.Del))}
    has_call = any(isinstance(n, ast.Call) for n in ast.walk(stmt))
    for k in list(facts):
        t = ast.parse(k, mode="eval")
        names = {n.id for n in ast.walk(t) if isinstance(n, ast.Name)}
        if names & stored or (has_call and any(isinstance(n, (ast.Attribute, ast.Subscript)) for n in ast.walk(t))):
            del facts[k]


def live_statements(func, none_params=frozenset()):
    """Statements (and their sub-nodes) reachable when the parameters in ``none_params`` are None.  Branch tests are
    evaluated three-valued from the None parameters and the facts learned from earlier tests on the same path
    (``if a and p is None: return`` leaves ``a`` false afterwards)."""
    out = []

    def block(stmts, facts):
        """True when the block cannot fall through."""
        for s in stmts:
            if isinstance(s, ast.If) and none_params:
                v = _eval3(s.test, facts, none_params)
                out.extend(ast.walk(s.test))
                if v is not None:
                    if block(s.body if v else s.orelse, facts):
                        return True
                    continue
                out.append(s)
                fb, fo = dict(facts), dict(facts)
                _learn(s.test, True, fb, none_params)
                _learn(s.test, False, fo, none_params)
                tb = block(s.body, fb)
                to = block(s.orelse, fo)
                if tb and to:
                    return True
                _kill(s, facts)
                if tb:
                    facts.update({k: v for k, v in fo.items()})
                elif to:
                    facts.update({k: v for k, v in fb.items()})
                continue
            if isinstance(s, (ast.If, ast.For, ast.While, ast.With, ast.Try)):
                for fld in ("test", "iter", "target", "items"):
                    v = getattr(s, fld, None)
                    if isinstance(v, ast.AST):
                        out.extend(ast.walk(v))
                    elif isinstance(v, list):
                        for it in v:
                            out.extend(ast.walk(it))
                out.append(s)
                _kill(s, facts)
                tb = block(getattr(s, "body", []), dict(facts))
                for h in getattr(s, "handlers", []):
                    block(h.body, dict(facts))
                to = block(getattr(s, "orelse", []), dict(facts))
                block(getattr(s, "finalbody", []), dict(facts))
                if isinstance(s, ast.If) and s.orelse and tb and to:
                    return True
                continue
            if isinstance(s, (ast.FunctionDef, ast.ClassDef)):
                continue
            out.extend(n for n in ast.walk(s) if not isinstance(n, (ast.FunctionDef, ast.Lambda)) or n is s)
            _kill(s, facts)
            if isinstance(s, (ast.Return, ast.Raise)):
                return True
        return False

    block(func.body, {})
    return out


class EffectAnalysis:
    """Transitive PROTO/ALLOC effects of a function, with receiver-table call resolution and
    call-site specialisation of omitted ``= None`` parameters."""

    def __init__(self, repo: Repo):
        self.repo = repo
        self.memo = {}
        self.unresolved = set()
        self.visited = set()

    def _class_of(self, func):
        p = getattr(func, "_parent", None)
        while p is not None:
            if isinstance(p, ast.ClassDef):
                return p.name
            p = getattr(p, "_parent", None)
        return None

    def _find(self, cls, name, setter=False):
        """Function definitions named ``name`` in ``cls`` or its repo bases."""
        rel = CLASS_HOME.get(cls)
        if cls in CELL_SUBCLASSES:
            rel = "cell.py"
        if rel is None:
            return []
        try:
            c = self.repo.cls(rel, cls)
        except Exception:  # noqa: BLE001
            return []
        out = []
        for n in c.body:
            if isinstance(n, ast.FunctionDef) and n.name == name:
                is_setter = any(U(d).endswith(".setter") for d in n.decorator_list)
                if is_setter == setter:
                    out.append(n)
        if not out:
            for b in c.bases:
                bn = last_attr(b)
                if bn in CLASS_HOME or bn in CELL_SUBCLASSES:
                    out += self._find(bn, name, setter)
        return out

    def resolve(self, call: ast.Call, cls):
        """Resolved callee FunctionDefs of a call (may be empty)."""
        f = call.func
        if isinstance(f, ast.Name):
            # module-level function in any repo module (unique names only)
            found = []
            for mod in ("model.py", "cell.py", "document.py", "iwafile.py", "xrefs.py", "formula.py", "containers.py", "numbers_cache.py"):
                for n in self.repo.tree(mod).body:
                    if isinstance(n, ast.FunctionDef) and n.name == f.id:
                        found.append(n)
            if f.id in CLASS_HOME or f.id in CELL_SUBCLASSES:
                found += self._find(f.id, "__init__") + self._find(f.id, "__post_init__")
            return found
        if not isinstance(f, ast.Attribute):
            return []
        name = f.attr
        recv = f.value
        if isinstance(recv, ast.Name) and recv.id in ("self", "cls") and cls:
            r = self._find(cls, name)
            if cls == "Cell" or cls in CELL_SUBCLASSES:
                for sub in CELL_SUBCLASSES:
                    r += [x for x in self._find(sub, name) if x not in r]
            return r
        if isinstance(recv, ast.Name) and (recv.id in CLASS_HOME or recv.id in CELL_SUBCLASSES):
            return self._find(recv.id, name)
        key = last_attr(recv)
        if key in RECEIVERS and isinstance(recv, (ast.Name, ast.Attribute)):
            rel, c = RECEIVERS[key]
            return self._find(c, name)
        return []

    def property_reads(self, node, cls):
        """Property getters invoked by attribute loads ``self.x`` / ``self._model.x``."""
        out = []
        if isinstance(node, ast.Attribute) and isinstance(node.ctx, ast.Load):
            recv = node.value
            target_cls = None
            if isinstance(recv, ast.Name) and recv.id == "self":
                target_cls = cls
            elif last_attr(recv) in RECEIVERS and isinstance(recv, (ast.Name, ast.Attribute)):
                target_cls = RECEIVERS[last_attr(recv)][1]
            if target_cls:
                for fn in self._find(target_cls, node.attr):
                    if any(U(d) in ("property",) or U(d).endswith("property") for d in fn.decorator_list):
                        out.append(fn)
                if target_cls == "Cell" or target_cls in CELL_SUBCLASSES:
                    for sub in CELL_SUBCLASSES:
                        for fn in self._find(sub, node.attr):
                            if fn not in out and any(U(d) == "property" for d in fn.decorator_list):
                                out.append(fn)
        return out

    def effects(self, func, none_params=frozenset(), depth=0, stack=()):
        key = (id(func), none_params)
        if key in self.memo:
            return self.memo[key]
        if key in stack or depth > 12:
            return set()
        cls = self._class_of(func)
        q = self.repo.qualname(func)
        self.visited.add((q, tuple(sorted(none_params))))
        nodes = live_statements(func, none_params)
        eff = set()
        # taint: locals derived from the object store
        tainted = set()

        def is_store_expr(e):
            """Expression denotes (part of) a stored protobuf object."""
            if isinstance(e, (ast.ListComp, ast.DictComp, ast.GeneratorExp, ast.SetComp)):
                return any(is_store_expr(gn.iter) for gn in e.generators)
            if isinstance(e, ast.Call) and isinstance(e.func, ast.Name) and e.func.id in ("list", "tuple", "sorted", "reversed", "next", "iter") and e.args:
                return is_store_expr(e.args[0])
            n = e
            while isinstance(n, (ast.Attribute, ast.Subscript, ast.Call)):
                if isinstance(n, ast.Subscript):
                    b = U(n.value)
                    if b.endswith("objects") or b.endswith("_objects"):
                        return True
                    n = n.value
                elif isinstance(n, ast.Call):
                    if isinstance(n.func, ast.Attribute) and n.func.attr in ("table_style", "cell_text_style", "table_format", "metadata_component", "calc_engine", "get_formula_owner", "lookup_value"):
                        return True
                    n = n.func
                else:
                    n = n.value
            return isinstance(n, ast.Name) and n.id in tainted

        changed = True
        while changed:
            changed = False
            for n in nodes:
                if isinstance(n, ast.Assign) and is_store_expr(n.value):
                    for t in n.targets:
                        for tt in ([t] if not isinstance(t, ast.Tuple) else t.elts):
                            if isinstance(tt, ast.Name) and tt.id not in tainted:
                                tainted.add(tt.id)
                                changed = True
                if isinstance(n, ast.For) and is_store_expr(n.iter):
                    for tt in ast.walk(n.target):
                        if isinstance(tt, ast.Name) and tt.id not in tainted:
                            tainted.add(tt.id)
                            changed = True
                if isinstance(n, (ast.ListComp, ast.GeneratorExp, ast.DictComp)):
                    for gen in n.generators:
                        if is_store_expr(gen.iter):
                            for tt in ast.walk(gen.target):
                                if isinstance(tt, ast.Name) and tt.id not in tainted:
                                    tainted.add(tt.id)
                                    changed = True
        for n in nodes:
            tgts = []
            if isinstance(n, ast.Assign):
                tgts = n.targets
            elif isinstance(n, ast.AugAssign):
                tgts = [n.target]
            elif isinstance(n, ast.Delete):
                tgts = n.targets
            for t in tgts:
                for tt in ([t] if not isinstance(t, (ast.Tuple, ast.List)) else t.elts):
                    if isinstance(tt, (ast.Attribute, ast.Subscript)) and is_store_expr(tt.value):
                        eff.add(("PROTO", f"{q}: {U(n)[:80]}", self.repo.loc(n)))
                    # writes into the store containers themselves
                    if isinstance(tt, ast.Subscript) and (U(tt.value).endswith("._objects") or U(tt.value).endswith("file_store") or U(tt.value).endswith("._file_store")):
                        eff.add(("ALLOC", f"{q}: {U(n)[:80]}", self.repo.loc(n)))
            if isinstance(n, ast.Call):
                nm = last_attr(n.func)
                if isinstance(n.func, ast.Attribute) and nm in PROTO_MUTATORS and is_store_expr(n.func.value):
                    eff.add(("PROTO", f"{q}: {U(n)[:80]}", self.repo.loc(n)))
                if nm == "clear_field_container" and n.args and is_store_expr(n.args[0]):
                    eff.add(("PROTO", f"{q}: {U(n)[:80]}", self.repo.loc(n)))
                if nm == "set_reference" and n.args and is_store_expr(n.args[0]):
                    eff.add(("PROTO", f"{q}: {U(n)[:80]}", self.repo.loc(n)))
                if nm in ALLOC_CALLS:
                    eff.add(("ALLOC", f"{q}: {U(n)[:80]}", self.repo.loc(n)))
                if nm == "init" and isinstance(n.func, ast.Attribute) and last_attr(n.func.value) in RECEIVERS and RECEIVERS[last_attr(n.func.value)][1] == "DataLists":
                    eff.add(("ALLOC", f"{q}: {U(n)[:80]}", self.repo.loc(n)))
                callees = self.resolve(n, cls)
                if not callees and isinstance(n.func, ast.Attribute):
                    self.unresolved.add(U(n.func)[:60])
                for cal in callees:
                    sub = omitted_none_params(cal, n)
                    # a caller parameter known to be None passed through
                    passed_none = set(sub)
                    pos = [a.arg for a in cal.args.args]
                    if pos and pos[0] in ("self", "cls"):
                        pos = pos[1:]
                    for i, a in enumerate(n.args):
                        if isinstance(a, ast.Name) and a.id in none_params and i < len(pos):
                            passed_none.add(pos[i])
                    for kw in n.keywords:
                        if kw.arg and isinstance(kw.value, ast.Name) and kw.value.id in none_params:
                            passed_none.add(kw.arg)
                    for e in self.effects(cal, frozenset(passed_none), depth + 1, stack + (key,)):
                        eff.add((e[0], e[1], e[2]))
            for getter in self.property_reads(n, cls):
                if getter is not func:
                    for e in self.effects(getter, frozenset(), depth + 1, stack + (key,)):
                        eff.add(e)
        if not stack:
            self.memo[key] = eff
        else:
            self.memo.setdefault(key, eff)
        return eff

"""E6: write-effect summaries.

``self_writes``: per method of a class, the ``self.attr`` roots it may assign or mutate,
transitively through ``self.method(...)`` calls inside the class.
"""

from __future__ import annotations

import ast

from .core import Repo, U, body_walk, dotted, last_attr

MUTATORS = {"append", "pop", "extend", "insert", "remove", "clear", "sort", "update", "setdefault", "add", "discard", "popitem"}


def _root_self_attr(node):
    """``self.a`` for targets like self.a, self.a.b, self.a[i], self.a[i][j].x"""
    n = node
    while isinstance(n, (ast.Subscript, ast.Attribute)):
        if isinstance(n, ast.Attribute) and isinstance(n.value, ast.Name) and n.value.id == "self":
            return f"self.{n.attr}"
        n = n.value
    return None


def _pruned_walk(func, none_params):
    """Walk a function body, skipping branches that are dead when the parameters in
    ``none_params`` are None (call-site specialisation for omitted ``= None`` defaults)."""
    stack = list(reversed(func.body))
    while stack:
        n = stack.pop()
        if isinstance(n, ast.If) and none_params:
            t = n.test
            dead_body = dead_else = False
            conds = [t]
            if isinstance(t, ast.BoolOp) and isinstance(t.op, ast.And):
                conds = t.values
            for c in conds:
                if isinstance(c, ast.Compare) and len(c.ops) == 1 and isinstance(c.left, ast.Name) and c.left.id in none_params \
                        and isinstance(c.comparators[0], ast.Constant) and c.comparators[0].value is None:
                    if isinstance(c.ops[0], ast.IsNot):
                        dead_body = True
                    elif isinstance(c.ops[0], ast.Is) and len(conds) == 1:
                        dead_else = True
            if dead_body or dead_else:
                yield from ast.walk(n.test)
                for st in reversed(n.orelse if dead_body else n.body):
                    stack.append(st)
                continue
        yield n
        for c in reversed(list(ast.iter_child_nodes(n))):
            if isinstance(c, (ast.FunctionDef, ast.AsyncFunctionDef, ast.ClassDef)):
                continue
            stack.append(c)


def omitted_none_params(func, call) -> frozenset:
    """Parameters of ``func`` with default None that ``call`` does not pass (or passes None)."""
    pos = func.args.args
    names = [a.arg for a in pos]
    if names and names[0] in ("self", "cls"):
        names = names[1:]
        pos = pos[1:]
    defaults = {}
    for a, d in zip(pos[len(pos) - len(func.args.defaults):], func.args.defaults):
        defaults[a.arg] = d
    for a, d in zip(func.args.kwonlyargs, func.args.kw_defaults):
        if d is not None:
            defaults[a.arg] = d
    if any(isinstance(a, ast.Starred) for a in call.args) or any(k.arg is None for k in call.keywords):
        return frozenset()
    passed = {}
    for i, a in enumerate(call.args):
        if i < len(names):
            passed[names[i]] = a
    for k in call.keywords:
        passed[k.arg] = k.value
    out = set()
    for p, d in defaults.items():
        if isinstance(d, ast.Constant) and d.value is None:
            if p not in passed or (isinstance(passed[p], ast.Constant) and passed[p].value is None):
                out.add(p)
    return frozenset(out)


def direct_self_writes(func, none_params=frozenset()) -> set:
    out = set()
    for n in _pruned_walk(func, none_params):
        targets = []
        if isinstance(n, ast.Assign):
            targets = n.targets
        elif isinstance(n, (ast.AugAssign, ast.AnnAssign)):
            targets = [n.target]
        elif isinstance(n, ast.Delete):
            targets = n.targets
        elif isinstance(n, ast.Call) and isinstance(n.func, ast.Attribute) and n.func.attr in MUTATORS:
            r = _root_self_attr(n.func.value)
            if r:
                out.add(r)
        for t in targets:
            for tt in ast.walk(t) if isinstance(t, (ast.Tuple, ast.List)) else [t]:
                r = _root_self_attr(tt)
                if r:
                    out.add(r)
    return out


_SW_CACHE: dict = {}


def self_writes(repo: Repo, rel: str, cls: str) -> dict:
    key = (id(repo), rel, cls)
    if key in _SW_CACHE:
        return _SW_CACHE[key]
    methods = repo.methods(rel, cls)
    direct = {}
    calls = {}
    for name, defs in methods.items():
        d = set()
        c = set()
        for f in defs:
            d |= direct_self_writes(f)
            for n in body_walk(f):
                if isinstance(n, ast.Call) and isinstance(n.func, ast.Attribute) and isinstance(n.func.value, ast.Name) and n.func.value.id == "self":
                    if n.func.attr in methods:
                        c.add(n.func.attr)
        direct[name] = d
        calls[name] = c
    total = {k: set(v) for k, v in direct.items()}
    changed = True
    while changed:
        changed = False
        for name in total:
            for c in calls[name]:
                new = total[c] - total[name]
                if new:
                    total[name] |= new
                    changed = True
    _SW_CACHE[key] = total
    return total


def method_writes(repo: Repo, rel: str, cls: str, name: str, none_params=frozenset(), _stack=None) -> set:
    """self.attr roots written by ``cls.name`` when the parameters in ``none_params`` are None."""
    key = (id(repo), rel, cls, name, none_params)
    if key in _SW_CACHE:
        return _SW_CACHE[key]
    _stack = _stack or set()
    if (name, none_params) in _stack:
        return set()
    _stack = _stack | {(name, none_params)}
    methods = repo.methods(rel, cls)
    out = set()
    for f in methods.get(name, []):
        out |= direct_self_writes(f, none_params)
        for n in _pruned_walk(f, none_params):
            if isinstance(n, ast.Call) and isinstance(n.func, ast.Attribute) and isinstance(n.func.value, ast.Name) and n.func.value.id == "self":
                callee = n.func.attr
                if callee in methods:
                    sub = omitted_none_params(methods[callee][0], n)
                    out |= method_writes(repo, rel, cls, callee, sub, _stack)
    if len(_stack) == 1:
        _SW_CACHE[key] = out
    return out


def call_writes_for(repo: Repo, rel: str, cls: str):
    """A ``call_writes`` callback for GuardAnalysis inside methods of ``cls``: the self attributes a
    ``self.method(...)`` call may write, specialised to the arguments the call omits."""
    methods = repo.methods(rel, cls)

    def cw(call: ast.Call):
        f = call.func
        if isinstance(f, ast.Attribute) and isinstance(f.value, ast.Name) and f.value.id == "self":
            if f.attr in methods:
                sub = omitted_none_params(methods[f.attr][0], call)
                return method_writes(repo, rel, cls, f.attr, sub)
            return set()
        return set()

    return cw

"""E1: statement-level control-flow graphs, dominators and path queries.

Nodes are simple statements, branch tests (``if``/``while`` conditions), loop heads
(``for`` iteration), handler entries and three synthetic nodes: ENTRY, EXIT (normal
return / fall off the end) and RAISE (an exception leaves the function).

Exceptional control flow is modelled where the code makes it explicit: ``raise``
statements, and every statement inside a ``try`` body may jump to each of its handlers.
Implicit exceptions outside ``try`` are not paths (they abort the operation).
"""

from __future__ import annotations

import ast
from dataclasses import dataclass, field


@dataclass
class Node:
    id: int
    kind: str  # entry, exit, raise, stmt, test, iter, handler, with
    ast: object = None
    label: str = ""

    def __hash__(self):
        return self.id


@dataclass
class CFG:
    func: object
    nodes: list = field(default_factory=list)
    succ: dict = field(default_factory=dict)  # id -> list[(id, label)]
    pred: dict = field(default_factory=dict)
    entry: int = 0
    exit: int = 1
    raise_exit: int = 2
    by_ast: dict = field(default_factory=dict)  # id(ast stmt) -> node id

    def new(self, kind, node=None, label=""):
        n = Node(len(self.nodes), kind, node, label)
        self.nodes.append(n)
        self.succ[n.id] = []
        self.pred[n.id] = []
        if node is not None and kind in ("stmt", "test", "iter", "with"):
            self.by_ast.setdefault(id(node), n.id)
        return n.id

    def edge(self, a, b, label=""):
        if (b, label) not in self.succ[a]:
            self.succ[a].append((b, label))
            self.pred[b].append((a, label))

    def node_of(self, stmt):
        """CFG node id of an AST statement (or of the statement containing an expression)."""
        n = stmt
        while n is not None:
            if id(n) in self.by_ast:
                return self.by_ast[id(n)]
            n = getattr(n, "_parent", None)
        return None

    # ---- dominators
    def _reachable(self, start, succ):
        seen = {start}
        stack = [start]
        while stack:
            x = stack.pop()
            for y, _ in succ[x]:
                if y not in seen:
                    seen.add(y)
                    stack.append(y)
        return seen

    def reachable(self):
        return self._reachable(self.entry, self.succ)

    def dominators(self):
        if hasattr(self, "_dom"):
            return self._dom
        reach = self.reachable()
        allr = set(reach)
        dom = {n: set(allr) for n in reach}
        dom[self.entry] = {self.entry}
        changed = True
        order = sorted(reach)
        while changed:
            changed = False
            for n in order:
                if n == self.entry:
                    continue
                preds = [p for p, _ in self.pred[n] if p in reach]
                if preds:
                    new = set.intersection(*(dom[p] for p in preds)) | {n}
                else:
                    new = {n}
                if new != dom[n]:
                    dom[n] = new
                    changed = True
        self._dom = dom
        return dom

    def dominates(self, a, b) -> bool:
        """Every path ENTRY -> b passes through a."""
        dom = self.dominators()
        return b in dom and a in dom[b]

    def postdominators(self, exits=None):
        """Post-dominators w.r.t. the given exit set (default: normal EXIT only)."""
        exits = tuple(sorted(exits if exits is not None else [self.exit]))
        cache = self.__dict__.setdefault("_pdom", {})
        if exits in cache:
            return cache[exits]
        sink = -1
        succ = {n: [s for s, _ in self.succ[n]] for n in self.succ}
        for e in exits:
            succ[e] = succ[e] + [sink]
        succ[sink] = []
        pred = {n: [] for n in succ}
        for n, ss in succ.items():
            for s in ss:
                pred[s].append(n)
        # nodes that can reach the sink
        can = {sink}
        stack = [sink]
        while stack:
            x = stack.pop()
            for p in pred[x]:
                if p not in can:
                    can.add(p)
                    stack.append(p)
        pdom = {n: set(can) for n in can}
        pdom[sink] = {sink}
        changed = True
        while changed:
            changed = False
            for n in can:
                if n == sink:
                    continue
                ss = [s for s in succ[n] if s in can]
                new = set.intersection(*(pdom[s] for s in ss)) | {n} if ss else {n}
                if new != pdom[n]:
                    pdom[n] = new
                    changed = True
        cache[exits] = pdom
        return pdom

    def postdominates(self, a, b, exits=None) -> bool:
        """Every path b -> (normal) EXIT passes through a."""
        pd = self.postdominators(exits)
        return b in pd and a in pd[b]

    def paths_avoiding(self, src, dst, avoid) -> bool:
        """Is there a path src -> dst that avoids every node in ``avoid``?"""
        avoid = set(avoid)
        if src in avoid:
            return False
        seen = {src}
        stack = [src]
        while stack:
            x = stack.pop()
            if x == dst:
                return True
            for y, _ in self.succ[x]:
                if y not in seen and y not in avoid:
                    seen.add(y)
                    stack.append(y)
        return dst in seen

    def stmts(self):
        return [n for n in self.nodes if n.kind in ("stmt", "test", "iter", "with")]


class _Builder:
    def __init__(self, func):
        self.g = CFG(func)
        g = self.g
        g.entry = g.new("entry")
        g.exit = g.new("exit")
        g.raise_exit = g.new("raise")
        self.loops = []  # (continue_target, break_frontier_list)
        self.tries = []  # list of handler entry id lists (innermost last)

    def connect(self, frontier, target):
        for n, lab in frontier:
            self.g.edge(n, target, lab)

    def exc_edges(self, nid):
        # a statement inside a try body may transfer to any handler of the enclosing try
        if self.tries:
            for h in self.tries[-1]:
                self.g.edge(nid, h, "exc")

    def block(self, stmts, frontier):
        for s in stmts:
            frontier = self.stmt(s, frontier)
        return frontier

    def stmt(self, s, frontier):
        g = self.g
        if isinstance(s, ast.If):
            t = g.new("test", s)
            self.connect(frontier, t)
            self.exc_edges(t)
            out = self.block(s.body, [(t, "T")])
            if s.orelse:
                out += self.block(s.orelse, [(t, "F")])
            else:
                out.append((t, "F"))
            return out
        if isinstance(s, ast.While):
            t = g.new("test", s)
            self.connect(frontier, t)
            self.exc_edges(t)
            brk = []
            self.loops.append((t, brk))
            body_out = self.block(s.body, [(t, "T")])
            self.loops.pop()
            self.connect(body_out, t)
            out = []
            const_true = isinstance(s.test, ast.Constant) and bool(s.test.value)
            if not const_true:
                if s.orelse:
                    out += self.block(s.orelse, [(t, "F")])
                else:
                    out.append((t, "F"))
            return out + brk
        if isinstance(s, (ast.For, ast.AsyncFor)):
            t = g.new("iter", s)
            self.connect(frontier, t)
            self.exc_edges(t)
            brk = []
            self.loops.append((t, brk))
            body_out = self.block(s.body, [(t, "iter")])
            self.loops.pop()
            self.connect(body_out, t)
            if s.orelse:
                out = self.block(s.orelse, [(t, "done")])
            else:
                out = [(t, "done")]
            return out + brk
        if isinstance(s, ast.Try):
            handlers = []
            for h in s.handlers:
                hn = g.new("handler", h)
                handlers.append(hn)
            self.tries.append(handlers)
            body_out = self.block(s.body, frontier)
            self.tries.pop()
            if s.orelse:
                body_out = self.block(s.orelse, body_out)
            outs = list(body_out)
            for h, hn in zip(s.handlers, handlers):
                self.exc_edges(hn)
                outs += self.block(h.body, [(hn, "")])
            if s.finalbody:
                outs = self.block(s.finalbody, outs)
            return outs
        if isinstance(s, (ast.With, ast.AsyncWith)):
            w = g.new("with", s)
            self.connect(frontier, w)
            self.exc_edges(w)
            out = self.block(s.body, [(w, "")])
            # ``with suppress(...)``: the body may be abandoned at any statement
            if any(_is_suppress(i.context_expr) for i in s.items):
                inner = [g.by_ast[id(x)] for x in ast.walk(s) if id(x) in g.by_ast and x is not s]
                for nid in inner:
                    out.append((nid, "suppressed"))
                out.append((w, "suppressed"))
            return out
        # simple statements
        n = g.new("stmt", s)
        self.connect(frontier, n)
        if isinstance(s, ast.Return):
            g.edge(n, g.exit, "return")
            self.exc_edges(n)
            return []
        if isinstance(s, ast.Raise):
            if self.tries:
                for h in self.tries[-1]:
                    g.edge(n, h, "exc")
                # the raise may also not be caught by these handlers
                g.edge(n, g.raise_exit, "raise")
            else:
                g.edge(n, g.raise_exit, "raise")
            return []
        if isinstance(s, ast.Break):
            if self.loops:
                self.loops[-1][1].append((n, "break"))
            return []
        if isinstance(s, ast.Continue):
            if self.loops:
                g.edge(n, self.loops[-1][0], "continue")
            return []
        if isinstance(s, ast.Expr) and _is_exit_call(s.value):
            g.edge(n, g.raise_exit, "exit")
            return []
        self.exc_edges(n)
        return [(n, "")]


def _is_suppress(expr) -> bool:
    if isinstance(expr, ast.Call):
        f = expr.func
        name = f.attr if isinstance(f, ast.Attribute) else getattr(f, "id", "")
        return name == "suppress"
    return False


def _is_exit_call(expr) -> bool:
    if isinstance(expr, ast.Call):
        f = expr.func
        if isinstance(f, ast.Name) and f.id == "exit":
            return True
        if isinstance(f, ast.Attribute) and f.attr == "exit" and isinstance(f.value, ast.Name) and f.value.id == "sys":
            return True
    return False


_CACHE: dict = {}


def build(func) -> CFG:
    key = id(func)
    if key in _CACHE and _CACHE[key].func is func:
        return _CACHE[key]
    b = _Builder(func)
    out = b.block(func.body, [(b.g.entry, "")])
    b.connect(out, b.g.exit)
    _CACHE[key] = b.g
    return b.g


# --------------------------------------------------------------------------- convenience queries


def dominates(func, a_stmt, b_stmt) -> bool:
    g = build(func)
    a, b = g.node_of(a_stmt), g.node_of(b_stmt)
    if a is None or b is None:
        return False
    return g.dominates(a, b)


def precedes_on_all_paths(func, a_stmts, b_stmt) -> bool:
    """Every path ENTRY -> b passes through at least one of a_stmts (collective dominance)."""
    g = build(func)
    b = g.node_of(b_stmt)
    avoid = {g.node_of(a) for a in a_stmts}
    avoid.discard(None)
    if b is None:
        return False
    if b in avoid:
        return True
    return not g.paths_avoiding(g.entry, b, avoid)


def must_reach(func, from_stmt, to_stmts, exits="normal") -> bool:
    """Every path from ``from_stmt`` to a (normal) exit passes through one of ``to_stmts``."""
    g = build(func)
    a = g.node_of(from_stmt) if from_stmt is not None else g.entry
    avoid = {g.node_of(t) for t in to_stmts}
    avoid.discard(None)
    if a in avoid:
        return True
    if g.paths_avoiding(a, g.exit, avoid):
        return False
    if exits == "all" and g.paths_avoiding(a, g.raise_exit, avoid):
        return False
    return True


def reachable_between(func, a_stmt, b_stmt) -> bool:
    g = build(func)
    a, b = g.node_of(a_stmt), g.node_of(b_stmt)
    if a is None or b is None:
        return False
    return g.paths_avoiding(a, b, set()) and a != b or (a == b)
